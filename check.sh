#!/bin/sh
# Entry point: ./check.sh <Cxx> [quick|thorough] | replay <file> | setup
cd "$(dirname "$0")" || exit 3
export GOFLAGS=-mod=mod GOPROXY=off GOSUMDB=off GOTOOLCHAIN=local
case "$1" in
  setup)  exec python3 driver/vcheck.py setup ;;
  replay) exec python3 driver/vcheck.py replay "$2" ;;
  C*)     exec python3 driver/vcheck.py check "$1" "${2:-${VERIF_TIER:-quick}}" ;;
  *) echo "usage: $0 <Cxx> [quick|thorough] | replay <file> | setup"; exit 2 ;;
esac
