// Package sim is the simulated world around stun.Client: a scripted
// Connection, a virtual Clock, a manual Collector and a tapping ClientAgent.
// Everything is plugged in through the client's public options; every call-out
// of the client is a control point where the harness can log, pause or yield.
package sim

import (
	"bytes"
	"errors"
	"io"
	"net"
	"runtime"
	"strconv"
	"sync"
	"sync/atomic"
	"time"

	"github.com/pion/stun/v3"
)

// Epoch is virtual time zero.
var Epoch = time.Unix(1800000000, 0) //nolint:gochecknoglobals

// ErrScriptedWrite is the injected connection write failure.
var ErrScriptedWrite = errors.New("scripted write failure")

// ErrScriptedAgentStart is the injected failure of the agent's Start.
var ErrScriptedAgentStart = errors.New("scripted agent start failure")

// ErrReadDeadline is the base of the scripted read timeouts.
var ErrReadDeadline = errors.New("scripted read deadline exceeded")

// ErrConnClosed is returned by the scripted connection after Close.
var ErrConnClosed = errors.New("sim connection closed")

// Goid parses the current goroutine id.
func Goid() int64 {
	var buf [64]byte
	n := runtime.Stack(buf[:], false)
	b := bytes.TrimPrefix(buf[:n], []byte("goroutine "))
	if k := bytes.IndexByte(b, ' '); k > 0 {
		id, _ := strconv.ParseInt(string(b[:k]), 10, 64)

		return id
	}

	return -1
}

// Pause parks the first goroutine of the given role that reaches the control point.
type Pause struct {
	CP      string
	Role    string // "" = any
	Nth     int    // park at the n-th matching hit (1-based)
	hits    int
	Parked  chan struct{}
	release chan struct{}
	done    bool
}

// Release lets the parked goroutine continue.
func (p *Pause) Release() {
	select {
	case <-p.release:
	default:
		close(p.release)
	}
}

// LogEntry is one control-point event.
type LogEntry struct {
	Stamp int64
	CP    string
	Role  string
}

// World owns the logical clock, the virtual time, roles, pauses and the control-point log.
type World struct {
	stamp atomic.Int64
	vnow  atomic.Int64

	mu      sync.Mutex
	roles   map[int64]string
	pauses  []*Pause
	Log     []LogEntry
	KeepLog bool
	sig     uint64
	cpCount atomic.Int64
	// Perturb returns how many times to yield at this control point (nil: never).
	Perturb func(cp, role string) int
	// useRoles makes control points resolve the goroutine's role (costs a stack parse per control point).
	useRoles int32
	// Base is the instant of virtual time zero (Epoch unless set before the client is created).
	Base time.Time
	// nows is every value the virtual clock has held (it starts at 0).
	nows map[int64]struct{}
}

// WasNow reports whether t is an instant the virtual clock has shown at some point.
func (w *World) WasNow(t time.Time) bool {
	ns := int64(t.Sub(w.Base))
	if !w.Base.Add(time.Duration(ns)).Equal(t) {
		return false
	}
	w.mu.Lock()
	defer w.mu.Unlock()
	if ns == 0 {
		return true
	}
	_, ok := w.nows[ns]

	return ok
}

// UseRoles switches role resolution on. KeepLog and Perturb must be set before the client is created.
func (w *World) UseRoles() { atomic.StoreInt32(&w.useRoles, 1) }

// NewWorld makes a world at virtual time zero.
func NewWorld() *World {
	return &World{roles: map[int64]string{}, sig: 1469598103934665603, Base: Epoch}
}

// Tick advances and returns the logical clock.
func (w *World) Tick() int64 { return w.stamp.Add(1) }

// Stamp reads the logical clock.
func (w *World) Stamp() int64 { return w.stamp.Load() }

// Now is the virtual time.
func (w *World) Now() time.Time { return w.Base.Add(time.Duration(w.vnow.Load())) }

// VNow is the virtual time in ns since Epoch.
func (w *World) VNow() int64 { return w.vnow.Load() }

// SetNow sets the virtual time (ns since Epoch).
func (w *World) SetNow(ns int64) {
	w.mu.Lock()
	if w.nows == nil {
		w.nows = map[int64]struct{}{}
	}
	if len(w.nows) < 1<<16 {
		w.nows[ns] = struct{}{}
	}
	w.mu.Unlock()
	w.vnow.Store(ns)
}

// SetRole names the calling goroutine.
func (w *World) SetRole(role string) {
	g := Goid()
	w.mu.Lock()
	w.roles[g] = role
	w.mu.Unlock()
}

// AddPause installs a pause.
func (w *World) AddPause(cp, role string, nth int) *Pause {
	p := &Pause{CP: cp, Role: role, Nth: nth, Parked: make(chan struct{}), release: make(chan struct{})}
	w.mu.Lock()
	w.pauses = append(w.pauses, p)
	w.mu.Unlock()
	w.UseRoles()

	return p
}

// Signature is the hash of the global order of control-point events so far.
func (w *World) Signature() uint64 {
	w.mu.Lock()
	defer w.mu.Unlock()

	return w.sig
}

// LogCopy returns a copy of the control-point log.
func (w *World) LogCopy() []LogEntry {
	w.mu.Lock()
	defer w.mu.Unlock()

	return append([]LogEntry(nil), w.Log...)
}

// CPCount is the number of control-point events so far.
func (w *World) CPCount() int64 { return w.cpCount.Load() }

// CP is a control point: called by the sim components between the client's critical sections.
func (w *World) CP(name string) {
	w.cpCount.Add(1)
	useRoles := atomic.LoadInt32(&w.useRoles) == 1
	if !useRoles && !w.KeepLog && w.Perturb == nil {
		return
	}
	role := ""
	if useRoles {
		g := Goid()
		w.mu.Lock()
		role = w.roles[g]
		w.mu.Unlock()
		if role == "" {
			role = "client-internal" // goroutines started by the client itself (reader, default collector)
		}
	}
	st := w.Tick()
	var park *Pause
	w.mu.Lock()
	h := w.sig
	for i := 0; i < len(name); i++ {
		h = (h ^ uint64(name[i])) * 1099511628211
	}
	for i := 0; i < len(role); i++ {
		h = (h ^ uint64(role[i])) * 1099511628211
	}
	w.sig = h
	if w.KeepLog && len(w.Log) < 20000 {
		w.Log = append(w.Log, LogEntry{st, name, role})
	}
	for _, p := range w.pauses {
		if p.done || p.CP != name || (p.Role != "" && p.Role != role) {
			continue
		}
		p.hits++
		if p.hits == p.Nth {
			p.done = true
			park = p

			break
		}
	}
	w.mu.Unlock()
	if park != nil {
		close(park.Parked)
		<-park.release
	}
	if w.Perturb != nil {
		for n := w.Perturb(name, role); n > 0; n-- {
			runtime.Gosched()
		}
	}
}

// ---- Clock ----

// Clock is the virtual clock handed to the client.
type Clock struct{ W *World }

// Now implements stun.Clock.
func (c Clock) Now() time.Time {
	c.W.CP("clock.Now")

	return c.W.Now()
}

// ---- Connection ----

// WriteRec is one Write call on the scripted connection.
type WriteRec struct {
	Stamp  int64
	VTime  int64
	Bytes  []byte
	Failed bool
	Goid   int64
}

// scriptedErr is a scripted failure dressed as the errors real connections return: it satisfies net.Error.
type scriptedErr struct {
	what    string
	timeout bool
	base    error
}

func (e *scriptedErr) Error() string   { return e.what + ": " + e.base.Error() }
func (e *scriptedErr) Timeout() bool   { return e.timeout }
func (e *scriptedErr) Temporary() bool { return e.timeout }
func (e *scriptedErr) Unwrap() error   { return e.base }

// DressError wraps base in one of the shapes connection errors come in (kind mod 4): as it is; a net.Error whose
// Timeout() is true (an expired write deadline); a *net.OpError around that; a net.Error that is not a timeout. All
// of them still match base with errors.Is.
func DressError(base error, kind int) error {
	switch kind % 4 {
	case 1:
		return &scriptedErr{"i/o timeout", true, base}
	case 2:
		return &net.OpError{Op: "write", Net: "udp", Err: &scriptedErr{"i/o timeout", true, base}}
	case 3:
		return &scriptedErr{"connection refused", false, base}
	default:
		return base
	}
}

// Conn is the scripted connection.
type Conn struct {
	W  *World
	in chan []byte

	closed     chan struct{}
	closeOnce  sync.Once
	readShut   chan struct{}
	shutOnce   sync.Once
	CloseCalls int32
	CloseErr   error

	mu         sync.Mutex
	writes     []WriteRec
	failNext   int
	failed     int   // scripted failures delivered so far
	shortNext  int   // next writes report one byte less than they were given, without an error
	readErrs   int   // next Reads fail with a timeout-shaped error (an expired read deadline on an idle socket)
	timeoutEOF int32 // after ReleaseReadWithTimeouts: Read keeps returning timeout errors instead of EOF
	// ReadErrsServed counts scripted read errors delivered.
	ReadErrsServed int32
	// OnWrite, if set, is called inside Write (after the datagram was recorded) with the number of writes so far.
	OnWrite    func(n int)
	afterClose int32 // writes attempted after Close
	// HalfCloses counts CloseRead/CloseWrite calls (a connection the client does not own must not see any).
	HalfCloses int32
	// ReaderGone counts deliveries that nobody took within the watchdog although the connection was open.
	ReaderGone int32
	readers    int32
}

// NewConn makes a connection.
func NewConn(w *World) *Conn {
	return &Conn{W: w, in: make(chan []byte), closed: make(chan struct{}), readShut: make(chan struct{})}
}

// Read blocks until the monitor delivers a datagram or the connection is closed/released.
func (c *Conn) Read(p []byte) (int, error) {
	c.W.CP("conn.Read")
	c.mu.Lock()
	if c.readErrs > 0 {
		c.readErrs--
		c.mu.Unlock()
		atomic.AddInt32(&c.ReadErrsServed, 1)

		return 0, DressError(ErrReadDeadline, 1+int(atomic.LoadInt32(&c.ReadErrsServed))%2)
	}
	c.mu.Unlock()
	if atomic.LoadInt32(&c.timeoutEOF) == 1 {
		select {
		case <-c.closed:
			runtime.Gosched()
			atomic.AddInt32(&c.ReadErrsServed, 1)

			return 0, DressError(ErrReadDeadline, 1)
		default:
		}
	}
	atomic.AddInt32(&c.readers, 1)
	defer atomic.AddInt32(&c.readers, -1)
	select {
	case d := <-c.in:
		return copy(p, d), nil
	case <-c.closed:
		if atomic.LoadInt32(&c.timeoutEOF) == 1 {
			atomic.AddInt32(&c.ReadErrsServed, 1)

			return 0, DressError(ErrReadDeadline, 1)
		}

		return 0, io.EOF
	case <-c.readShut:
		return 0, io.EOF
	}
}

// Write records the datagram and obeys the failure script.
func (c *Conn) Write(b []byte) (int, error) {
	c.W.CP("conn.Write.before")
	rec := WriteRec{Stamp: c.W.Tick(), VTime: c.W.VNow(), Bytes: append([]byte(nil), b...)}
	select {
	case <-c.closed:
		atomic.AddInt32(&c.afterClose, 1)
		rec.Failed = true
		c.mu.Lock()
		c.writes = append(c.writes, rec)
		c.mu.Unlock()

		return 0, ErrConnClosed
	default:
	}
	c.mu.Lock()
	kind := 0
	if c.failNext > 0 {
		c.failNext--
		rec.Failed = true
		// the shape of the error rotates with the history (plain, timeout net.Error, *net.OpError, non-timeout net.Error)
		kind = c.failed + len(c.writes)
		c.failed++
	}
	short := false
	if !rec.Failed && c.shortNext > 0 {
		c.shortNext--
		short = true
	}
	c.writes = append(c.writes, rec)
	nw := len(c.writes)
	hook := c.OnWrite
	c.mu.Unlock()
	if hook != nil {
		hook(nw)
	}
	c.W.CP("conn.Write.after")
	if rec.Failed {
		return 0, DressError(ErrScriptedWrite, kind)
	}
	if short && len(b) > 0 {
		return len(b) - 1, nil
	}

	return len(b), nil
}

// Close counts and unblocks Read.
func (c *Conn) Close() error {
	c.W.CP("conn.Close")
	atomic.AddInt32(&c.CloseCalls, 1)
	c.closeOnce.Do(func() { close(c.closed) })

	return c.CloseErr
}

// CloseRead is the half-close real TCP/TLS connections offer. It is counted and wakes the reader like the real one.
func (c *Conn) CloseRead() error {
	c.W.CP("conn.CloseRead")
	atomic.AddInt32(&c.HalfCloses, 1)
	c.shutOnce.Do(func() { close(c.readShut) })

	return nil
}

// CloseWrite is the other half; counted only.
func (c *Conn) CloseWrite() error {
	atomic.AddInt32(&c.HalfCloses, 1)

	return nil
}

// ReleaseRead unblocks a pending Read without counting as a Close (WithNoConnClose precondition).
func (c *Conn) ReleaseRead() { c.closeOnce.Do(func() { close(c.closed) }) }

// ReaderWaiting reports whether a goroutine is inside Read right now, waiting for a datagram.
func (c *Conn) ReaderWaiting() bool { return atomic.LoadInt32(&c.readers) > 0 }

// ShortNext makes the next n writes report len-1 bytes written and no error.
func (c *Conn) ShortNext(n int) {
	c.mu.Lock()
	c.shortNext += n
	c.mu.Unlock()
}

// FailReads makes the next n Reads fail with a timeout-shaped error.
func (c *Conn) FailReads(n int) {
	c.mu.Lock()
	c.readErrs += n
	c.mu.Unlock()
}

// ReleaseReadWithTimeouts unblocks a pending Read like ReleaseRead, but from then on every Read returns a timeout
// error (an owner that wakes the reader of a shared connection by setting a read deadline in the past).
func (c *Conn) ReleaseReadWithTimeouts() {
	atomic.StoreInt32(&c.timeoutEOF, 1)
	c.closeOnce.Do(func() { close(c.closed) })
}

// FailNext makes the next n writes fail.
func (c *Conn) FailNext(n int) {
	c.mu.Lock()
	c.failNext += n
	c.mu.Unlock()
}

// PendingFailures is the number of scripted failures not yet consumed.
func (c *Conn) PendingFailures() int {
	c.mu.Lock()
	defer c.mu.Unlock()

	return c.failNext
}

// Writes returns a copy of the write log.
func (c *Conn) Writes() []WriteRec {
	c.mu.Lock()
	defer c.mu.Unlock()

	return append([]WriteRec(nil), c.writes...)
}

// NWrites is the number of writes so far.
func (c *Conn) NWrites() int {
	c.mu.Lock()
	defer c.mu.Unlock()

	return len(c.writes)
}

// CountWrites is the number of recorded writes (failed or not) whose bytes equal b.
func (c *Conn) CountWrites(b []byte) int {
	c.mu.Lock()
	defer c.mu.Unlock()
	n := 0
	for i := range c.writes {
		if bytes.Equal(c.writes[i].Bytes, b) {
			n++
		}
	}

	return n
}

// Deliver hands a datagram to the reader; false if the connection is closed (reader gone).
func (c *Conn) Deliver(d []byte) bool {
	select {
	case c.in <- d:
		return true
	case <-c.closed:
		return false
	case <-time.After(20 * time.Second):
		// nobody is reading although the connection is open: the reader goroutine is gone or stuck
		atomic.AddInt32(&c.ReaderGone, 1)

		return false
	}
}

// Barrier returns once the reader is back in Read, i.e. the previous datagram has been fully processed.
func (c *Conn) Barrier() bool { return c.Deliver(nil) }

// DeliverSync delivers and waits until the datagram's handlers have returned.
func (c *Conn) DeliverSync(d []byte) bool { return c.Deliver(d) && c.Barrier() }

// ---- Collector ----

// Collector is the manual collector: a tick is the monitor calling Tick.
type Collector struct {
	W          *World
	mu         sync.Mutex // held while a tick callback runs: Close waits for it, like the real ticker collector
	f          func(time.Time)
	closed     bool
	CloseCalls int32
	StartErr   error
	CloseErr   error
	// NoWaitOnClose: Close returns at once even while a tick callback is running (the Collector interface does not
	// promise more; the library's own ticker collector does wait).
	NoWaitOnClose bool
	closedFlag    int32
}

// Start implements stun.Collector.
func (c *Collector) Start(_ time.Duration, f func(now time.Time)) error {
	c.mu.Lock()
	c.f = f
	c.mu.Unlock()

	return c.StartErr
}

// Close implements stun.Collector.
func (c *Collector) Close() error {
	c.W.CP("collector.Close.before")
	if c.NoWaitOnClose {
		atomic.StoreInt32(&c.closedFlag, 1)
	} else {
		c.mu.Lock()
		c.closed = true
		c.mu.Unlock()
	}
	atomic.AddInt32(&c.CloseCalls, 1)
	c.W.CP("collector.Close.after")

	return c.CloseErr
}

// Tick advances nothing by itself: it calls the client's collect function with t. False if closed.
func (c *Collector) Tick(t time.Time) bool {
	c.mu.Lock()
	defer c.mu.Unlock()
	if c.closed || c.f == nil || atomic.LoadInt32(&c.closedFlag) == 1 {
		return false
	}
	c.W.CP("tick.begin")
	c.f(t)
	c.W.CP("tick.end")

	return true
}

// ---- Agent tap ----

// TapAgent delegates to a real stun.Agent and brackets every call with control points.
type TapAgent struct {
	W        *World
	Inner    *stun.Agent
	CloseErr error
	// OnClosed is called after the inner Close returned (used to release a pending Read under WithNoConnClose).
	OnClosed func()
	// CloseKeepsTable: Close fails with CloseErr before doing anything (an agent that could not shut down): nothing is
	// flushed, no closed events
	CloseKeepsTable bool
	// FailStarts makes the next n Start calls fail with ErrScriptedAgentStart (without reaching the inner agent).
	FailStarts int32
	// VirtualClock: the client was given the world's clock, so every Collect time must be a reading of that clock.
	VirtualClock bool
	// Collects counts Collect calls; OffClock those whose time the virtual clock never showed (first one kept).
	Collects, OffClock int32
	OffClockExample    atomic.Value
}

// NewTapAgent wraps a fresh real agent.
func NewTapAgent(w *World) *TapAgent { return &TapAgent{W: w, Inner: stun.NewAgent(nil)} }

// Process implements stun.ClientAgent.
func (a *TapAgent) Process(m *stun.Message) error {
	a.W.CP("agent.Process.before")
	err := a.Inner.Process(m)
	a.W.CP("agent.Process.after")

	return err
}

// Close implements stun.ClientAgent.
func (a *TapAgent) Close() error {
	a.W.CP("agent.Close.before")
	if a.CloseKeepsTable && a.CloseErr != nil {
		a.W.CP("agent.Close.after")
		if a.OnClosed != nil {
			a.OnClosed()
		}

		return a.CloseErr
	}
	err := a.Inner.Close()
	a.W.CP("agent.Close.after")
	if a.OnClosed != nil {
		a.OnClosed()
	}
	if err == nil {
		err = a.CloseErr
	}

	return err
}

// Start implements stun.ClientAgent.
func (a *TapAgent) Start(id [stun.TransactionIDSize]byte, deadline time.Time) error {
	a.W.CP("agent.Start.before")
	if atomic.LoadInt32(&a.FailStarts) > 0 && atomic.AddInt32(&a.FailStarts, -1) >= 0 {
		a.W.CP("agent.Start.after")

		return ErrScriptedAgentStart
	}
	err := a.Inner.Start(id, deadline)
	a.W.CP("agent.Start.after")

	return err
}

// Stop implements stun.ClientAgent.
func (a *TapAgent) Stop(id [stun.TransactionIDSize]byte) error {
	a.W.CP("agent.Stop.before")
	err := a.Inner.Stop(id)
	a.W.CP("agent.Stop.after")

	return err
}

// Collect implements stun.ClientAgent.
func (a *TapAgent) Collect(t time.Time) error {
	atomic.AddInt32(&a.Collects, 1)
	if a.VirtualClock && !a.W.WasNow(t) {
		if atomic.AddInt32(&a.OffClock, 1) == 1 {
			a.OffClockExample.Store(t.UTC().Format(time.RFC3339Nano) + " while the client's clock shows " + a.W.Now().UTC().Format(time.RFC3339Nano))
		}
	}
	a.W.CP("agent.Collect.before")
	err := a.Inner.Collect(t)
	a.W.CP("agent.Collect.after")

	return err
}

// SetHandler implements stun.ClientAgent: the client's callback is itself bracketed by control points.
func (a *TapAgent) SetHandler(h stun.Handler) error {
	return a.Inner.SetHandler(func(e stun.Event) {
		a.W.CP("agentcb.before")
		h(e)
		a.W.CP("agentcb.after")
	})
}
