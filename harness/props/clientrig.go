package props

import (
	"bytes"
	"errors"
	"fmt"
	"runtime"
	"sort"
	"strings"
	"sync"
	"sync/atomic"
	"time"

	"github.com/pion/stun/v3"
	"github.com/pion/stun/v3/verifharness/gen"
	"github.com/pion/stun/v3/verifharness/ref"
	"github.com/pion/stun/v3/verifharness/sim"
)

// The client rig: a stun.Client inside the simulated world plus the ledger
// (exactly-once accounting at the handler boundary) shared by C10/C11/C12/C15.

type rigOpts struct {
	noRetransmit  bool
	rto           time.Duration // 0: library default (300ms)
	fallback      bool          // WithHandler
	noConnClose   bool
	defaultAgent  bool // do not inject the tapping agent
	agentCloseErr error
	connCloseErr  error
	realCollector bool // library ticker collector (with the virtual clock unless realClock)
	realClock     bool
	collNoWait    bool // the manual collector's Close does not wait for a running tick
	keepLog       bool
	useRoles      bool
	perturb       func(cp, role string) int
	epoch         time.Time // instant of virtual time zero (zero value: sim.Epoch)
	noConnCloseN  int       // WithNoConnClose given this many times in all (0: once when noConnClose is set)
	agentKeeps    bool      // the agent's Close fails without flushing its table
}

func (o rigOpts) String() string {
	var s []string
	add := func(b bool, n string) {
		if b {
			s = append(s, n)
		}
	}
	add(o.noRetransmit, "no-retransmit")
	add(o.rto != 0, "rto="+o.rto.String())
	add(o.fallback, "handler")
	add(o.noConnClose, "no-conn-close")
	add(o.defaultAgent, "default-agent")
	add(o.agentCloseErr != nil, "agent-close-error")
	add(o.connCloseErr != nil, "conn-close-error")
	add(o.realCollector, "ticker-collector")
	add(o.collNoWait, "collector-close-does-not-wait")
	add(o.realClock, "system-clock")
	add(!o.epoch.IsZero(), "epoch="+o.epoch.UTC().Format(time.RFC3339Nano))
	add(o.noConnCloseN > 1, fmt.Sprintf("no-conn-close-given-%d-times", o.noConnCloseN))
	add(o.agentKeeps, "agent-close-fails-without-flushing")
	if len(s) == 0 {
		return "default"
	}

	return strings.Join(s, ",")
}

type invocation struct {
	VTime      int64
	Begin, End int64
	Class      string
	EventTID   [12]byte
	MsgTID     [12]byte
	MsgRaw     []byte
	MsgAttrs   string // attribute list of the Message as the handler saw it
	Err        string
}

type tx struct {
	Seq       int
	ID        [12]byte
	Kind      string // "Start", "Do", "Indicate"
	Raw       []byte // snapshot of msg.Raw taken when Start/Do was called
	RTO       time.Duration
	CallStamp int64
	CallVTime int64
	RetStamp  int64
	RetErr    error
	Returned  int32

	mu  sync.Mutex
	inv []invocation
	msg *stun.Message
}

func (t *tx) invocations() []invocation {
	t.mu.Lock()
	defer t.mu.Unlock()

	return append([]invocation(nil), t.inv...)
}

func (t *tx) returned() bool { return atomic.LoadInt32(&t.Returned) == 1 }

type fbRec struct {
	Stamp    int64
	EventTID [12]byte
	MsgTID   [12]byte
	MsgRaw   []byte
	MsgAttrs string
	Class    string
}

type closeRec struct {
	CallStamp, RetStamp int64
	Err                 error
	Returned            int32
}

type rig struct {
	w      *sim.World
	conn   *sim.Conn
	coll   *sim.Collector
	agent  *sim.TapAgent
	client *stun.Client
	opts   rigOpts

	mu         sync.Mutex
	txs        []*tx
	fallback   []fbRec
	closes     []*closeRec
	delivered  map[[12]byte][][]byte // datagrams the monitor delivered, by transaction id
	problems   []rigProblem
	seq        int32
	closedOnce int32
}

type rigProblem struct {
	Kind, Key string
	Detail    string
}

// openRigs counts clients that were created and whose Close has not returned yet. The goroutine scan is
// process-wide, so it is only meaningful when no other (abandoned: stuck or inconclusive scenario) client is alive.
var openRigs int32 //nolint:gochecknoglobals

var leakScansSkipped atomic.Int64 //nolint:gochecknoglobals

var errInjectedAgentClose = errors.New("injected agent close error")
var errInjectedConnClose = errors.New("injected connection close error")

func newRig(o rigOpts) (*rig, error) {
	w := sim.NewWorld()
	w.KeepLog = o.keepLog
	w.Perturb = o.perturb
	if !o.epoch.IsZero() {
		w.Base = o.epoch
	}
	if o.useRoles {
		w.UseRoles()
	}
	r := &rig{w: w, opts: o, delivered: map[[12]byte][][]byte{}}
	r.conn = sim.NewConn(w)
	r.conn.CloseErr = o.connCloseErr
	var options []stun.ClientOption
	if !o.realClock {
		options = append(options, stun.WithClock(sim.Clock{W: w}))
	}
	if !o.realCollector {
		r.coll = &sim.Collector{W: w, NoWaitOnClose: o.collNoWait}
		options = append(options, stun.WithCollector(r.coll))
	} else {
		options = append(options, stun.WithTimeoutRate(time.Millisecond))
	}
	if !o.defaultAgent {
		r.agent = sim.NewTapAgent(w)
		r.agent.CloseErr = o.agentCloseErr
		r.agent.CloseKeepsTable = o.agentKeeps
		r.agent.VirtualClock = !o.realClock
		if o.noConnClose {
			// precondition of C15 under WithNoConnClose: the connection's Read eventually returns
			r.agent.OnClosed = r.conn.ReleaseRead
		}
		options = append(options, stun.WithAgent(r.agent))
	}
	if o.rto != 0 {
		options = append(options, stun.WithRTO(o.rto))
	}
	if o.noRetransmit {
		options = append(options, stun.WithNoRetransmit)
	}
	if o.noConnClose {
		options = append(options, stun.WithNoConnClose())
		for k := 1; k < o.noConnCloseN; k++ {
			options = append(options, stun.WithNoConnClose()) // saying it again does not unsay it
		}
	}
	if o.fallback {
		options = append(options, stun.WithHandler(r.fallbackHandler))
	}
	c, err := stun.NewClient(r.conn, options...)
	if err != nil {
		return nil, err
	}
	// the finalizer would close a forgotten client from the GC's goroutine; the rig always closes explicitly
	runtime.SetFinalizer(c, nil)
	r.client = c
	atomic.AddInt32(&openRigs, 1)

	return r, nil
}

// effective parameters
func (r *rig) rto() time.Duration {
	switch {
	case r.opts.rto != 0:
		return r.opts.rto
	default:
		// WithNoRetransmit only raises the RTO when none is set, and NewClient always sets the default first:
		// the effective RTO stays 300ms (observed behaviour; no property speaks about it)
		return 300 * time.Millisecond
	}
}

func (r *rig) maxAttempts() int {
	if r.opts.noRetransmit {
		return 0
	}

	return 7
}

func classifyEvent(e stun.Event) string {
	var se stun.StopErr
	switch {
	case e.Error == nil && e.Message != nil:
		return "response"
	case e.Error == nil:
		return "empty"
	case errors.Is(e.Error, stun.ErrTransactionTimeOut):
		return "timeout"
	case errors.Is(e.Error, sim.ErrScriptedWrite), errors.Is(e.Error, sim.ErrConnClosed):
		return "write-error"
	case errors.As(e.Error, &se):
		if errors.Is(se.Cause, sim.ErrScriptedWrite) || errors.Is(se.Cause, sim.ErrConnClosed) {
			return "write-error"
		}

		return "stop-error"
	case errors.Is(e.Error, stun.ErrAgentClosed), errors.Is(e.Error, stun.ErrClientClosed):
		return "closed"
	case errors.Is(e.Error, stun.ErrTransactionStopped):
		return "stopped"
	case errors.Is(e.Error, stun.ErrTransactionExists):
		return "exists"
	default:
		return "other:" + e.Error.Error()
	}
}

func (r *rig) problem(kind, key, detail string) {
	r.mu.Lock()
	if len(r.problems) < 20 {
		r.problems = append(r.problems, rigProblem{kind, key, detail})
	}
	r.mu.Unlock()
}

func (r *rig) handlerFor(t *tx) stun.Handler {
	return func(e stun.Event) {
		inv := invocation{Begin: r.w.Tick(), VTime: r.w.VNow(), Class: classifyEvent(e), EventTID: e.TransactionID}
		if e.Error != nil {
			inv.Err = e.Error.Error()
		}
		if e.Message != nil {
			inv.MsgRaw = append([]byte(nil), e.Message.Raw...)
			inv.MsgTID = e.Message.TransactionID
			inv.MsgAttrs = attrListOf(e.Message)
		}
		r.w.CP("user.handler")
		inv.End = r.w.Tick()
		t.mu.Lock()
		t.inv = append(t.inv, inv)
		n := len(t.inv)
		t.mu.Unlock()
		if n > 1 {
			r.problem("double-invocation", "double-invocation", fmt.Sprintf("handler of transaction #%d (%x) invoked %d times", t.Seq, t.ID[:4], n))
		}
	}
}

func (r *rig) fallbackHandler(e stun.Event) {
	rec := fbRec{Stamp: r.w.Tick(), EventTID: e.TransactionID, Class: classifyEvent(e)}
	if e.Message != nil {
		rec.MsgRaw = append([]byte(nil), e.Message.Raw...)
		rec.MsgTID = e.Message.TransactionID
		rec.MsgAttrs = attrListOf(e.Message)
	}
	r.w.CP("fallback.handler")
	r.mu.Lock()
	r.fallback = append(r.fallback, rec)
	r.mu.Unlock()
}

// attrListOf renders the attribute list a handler sees: (type, length, value) in order.
func attrListOf(m *stun.Message) string {
	var sb strings.Builder
	fmt.Fprintf(&sb, "%d:", len(m.Attributes))
	for _, a := range m.Attributes {
		fmt.Fprintf(&sb, "(%x,%d,%x)", uint16(a.Type), a.Length, a.Value)
	}

	return sb.String()
}

// refAttrList renders the same for an independent parse of the datagram.
func refAttrList(d []byte) string {
	rm, _ := ref.Parse(d)
	if rm == nil {
		return "undecodable"
	}
	var sb strings.Builder
	fmt.Fprintf(&sb, "%d:", len(rm.TLVs))
	for _, t := range rm.TLVs {
		fmt.Fprintf(&sb, "(%x,%d,%x)", t.Type, t.Len, d[t.Off:t.Off+t.Len])
	}

	return sb.String()
}

// request builds a request of exactly size bytes (>= 20) carrying id; only the first 20 bytes need to be a header.
func request(id [12]byte, size int, fill byte) *stun.Message {
	if size < 20 {
		size = 20
	}
	m := &stun.Message{TransactionID: id, Type: stun.BindingRequest}
	m.Raw = make([]byte, size)
	l := size - 20
	m.Raw[0], m.Raw[1] = 0x00, 0x01
	m.Raw[2], m.Raw[3] = byte(l>>8), byte(l)
	m.Raw[4], m.Raw[5], m.Raw[6], m.Raw[7] = 0x21, 0x12, 0xA4, 0x42
	copy(m.Raw[8:20], id[:])
	for i := 20; i < size; i++ {
		m.Raw[i] = fill + byte(i*7)
	}
	m.Length = uint32(l)

	return m
}

// response builds a decodable success response for id with a unique tag.
func response(id [12]byte, tag string) []byte {
	return dressedResponse(id, tag, gen.HashString(tag)^uint64(id[0])<<32^uint64(id[11])<<40)
}

// dressedResponse: what makes a message the answer to a transaction is its transaction id, nothing else. The message
// type (any class, any method) and the attributes (a FINGERPRINT that does not verify, is too short or is not last, a
// random MESSAGE-INTEGRITY, an unknown comprehension-required attribute, a truncated ERROR-CODE) are the handler's
// business. h selects the dress; half of the values give the plain Binding success response.
func dressedResponse(id [12]byte, tag string, h uint64) []byte {
	typ := stun.BindingSuccess
	switch h % 8 {
	case 0:
		typ = stun.BindingError
	case 1:
		typ = stun.NewType(stun.MethodBinding, stun.ClassIndication)
	case 2:
		typ = stun.NewType(stun.MethodBinding, stun.ClassRequest)
	case 3:
		typ = stun.NewType(stun.Method(h>>8%0x1000), stun.MessageClass(h>>20%4))
	}
	m := stun.MustBuild(typ, stun.NewTransactionIDSetter(id), stun.NewSoftware(tag))
	switch h >> 24 % 12 {
	case 0:
		m.Add(stun.AttrFingerprint, []byte{byte(h), byte(h >> 8), byte(h >> 16), 0x5A}) // does not verify
	case 1:
		m.Add(stun.AttrFingerprint, []byte{1, 2, 3}) // wrong size
	case 2:
		_ = stun.Fingerprint.AddTo(m)             // correct ...
		m.Add(stun.AttrSoftware, []byte("after")) // ... but no longer last
	case 3:
		m.Add(stun.AttrMessageIntegrity, bytes.Repeat([]byte{byte(h >> 3)}, 20))
	case 4:
		m.Add(stun.AttrType(0x7777), []byte{9, 9}) // unknown, comprehension-required range
	case 5:
		m.Add(stun.AttrErrorCode, []byte{0, 0}) // too short to be an ERROR-CODE
	case 6:
		_ = stun.Fingerprint.AddTo(m)
	}

	return append([]byte(nil), m.Raw...)
}

func (r *rig) newTx(kind string, id [12]byte, size int) *tx {
	t := &tx{Seq: int(atomic.AddInt32(&r.seq, 1)), ID: id, Kind: kind}
	t.msg = request(id, size, byte(t.Seq))
	r.mu.Lock()
	r.txs = append(r.txs, t)
	r.mu.Unlock()

	return t
}

// start issues Start (or Indicate when kind is "Indicate") synchronously.
func (r *rig) start(t *tx) error {
	t.Raw = append([]byte(nil), t.msg.Raw...)
	t.CallStamp = r.w.Tick()
	t.CallVTime = r.w.VNow()
	var err error
	if t.Kind == "Indicate" {
		err = r.client.Indicate(t.msg)
	} else {
		err = r.client.Start(t.msg, r.handlerFor(t))
	}
	t.RetErr = err
	t.RetStamp = r.w.Tick()
	atomic.StoreInt32(&t.Returned, 1)
	// the caller now owns the message again: scribble over it (retransmissions must not see this)
	for i := range t.msg.Raw {
		t.msg.Raw[i] ^= 0xFF
	}

	return err
}

// do issues Do synchronously (callers run it in its own goroutine).
func (r *rig) do(t *tx) error {
	t.Raw = append([]byte(nil), t.msg.Raw...)
	t.CallStamp = r.w.Tick()
	t.CallVTime = r.w.VNow()
	h := r.handlerFor(t)
	err := r.client.Do(t.msg, func(e stun.Event) { h(e) })
	t.RetErr = err
	t.RetStamp = r.w.Tick()
	atomic.StoreInt32(&t.Returned, 1)

	return err
}

// deliver hands a datagram to the reader and waits until it has been processed. id is recorded for the O2 oracle.
func (r *rig) deliver(id [12]byte, d []byte, decodable bool) bool {
	if decodable {
		r.mu.Lock()
		r.delivered[id] = append(r.delivered[id], append([]byte(nil), d...))
		r.mu.Unlock()
	}

	return r.conn.DeliverSync(d)
}

// deliverAsync hands a datagram to the reader without waiting for its processing.
func (r *rig) deliverAsync(id [12]byte, d []byte, decodable bool) bool {
	if decodable {
		r.mu.Lock()
		r.delivered[id] = append(r.delivered[id], append([]byte(nil), d...))
		r.mu.Unlock()
	}

	return r.conn.Deliver(d)
}

func (r *rig) tickAt(ns int64) bool {
	r.w.SetNow(ns)
	if r.coll == nil {
		return false
	}

	return r.coll.Tick(r.w.Now())
}

func (r *rig) close() error {
	cr := &closeRec{CallStamp: r.w.Tick()}
	r.mu.Lock()
	r.closes = append(r.closes, cr)
	r.mu.Unlock()
	if r.opts.noConnClose && r.agent == nil {
		// precondition of C15 under WithNoConnClose: the connection's Read eventually returns
		go func() { time.Sleep(time.Millisecond); r.conn.ReleaseRead() }()
	}
	err := r.client.Close()
	cr.Err = err
	cr.RetStamp = r.w.Tick()
	if !errors.Is(err, stun.ErrClientClosed) && atomic.CompareAndSwapInt32(&r.closedOnce, 0, 1) {
		atomic.AddInt32(&openRigs, -1)
	}
	atomic.StoreInt32(&cr.Returned, 1)

	return err
}

// firstCloseReturn is the stamp at which the successful Close returned (0 if none).
func (r *rig) firstCloseReturn() int64 {
	r.mu.Lock()
	defer r.mu.Unlock()
	var best int64
	for _, c := range r.closes {
		if atomic.LoadInt32(&c.Returned) == 1 && !errors.Is(c.Err, stun.ErrClientClosed) {
			if best == 0 || c.RetStamp < best {
				best = c.RetStamp
			}
		}
	}

	return best
}

func (r *rig) allTxs() []*tx {
	r.mu.Lock()
	defer r.mu.Unlock()

	return append([]*tx(nil), r.txs...)
}

// writesFor attributes writes to a transaction: same id in the header, stamped after its call and before the next
// transaction with the same id was called.
func (r *rig) writesFor(t *tx, all []sim.WriteRec) []sim.WriteRec {
	if t.returned() && neverRegistered(t.RetErr) {
		return nil // the call was refused before anything was written; writes with this id belong to the transaction in flight
	}
	var next int64 = 1 << 62
	for _, o := range r.allTxs() {
		if o != t && o.ID == t.ID && o.CallStamp > t.CallStamp && o.CallStamp < next && !(o.returned() && neverRegistered(o.RetErr)) {
			next = o.CallStamp
		}
	}
	var sameID []*tx
	for _, o := range r.allTxs() {
		if o != t && o.ID == t.ID {
			sameID = append(sameID, o)
		}
	}
	var out []sim.WriteRec
	wireID := t.ID[:] // the id on the wire is whatever the raw header held when Start was called
	if len(t.Raw) >= 20 {
		wireID = t.Raw[8:20]
	}
	for _, wr := range all {
		if len(wr.Bytes) >= 20 && bytes.Equal(wr.Bytes[8:20], wireID) && wr.Stamp > t.CallStamp && wr.Stamp < next {
			// a write still in flight for an earlier transaction with the same id (it was parked while the id was
			// restarted) carries that transaction's bytes, not ours
			foreign := false
			if !bytes.Equal(wr.Bytes, t.Raw) {
				for _, o := range sameID {
					if o.Raw != nil && bytes.Equal(wr.Bytes, o.Raw) {
						foreign = true
					}
				}
			}
			if !foreign {
				out = append(out, wr)
			}
		}
	}

	return out
}

// neverRegistered: Start/Do refused the call before registering or writing anything.
func neverRegistered(err error) bool {
	return errors.Is(err, stun.ErrTransactionExists) || errors.Is(err, stun.ErrClientClosed)
}

// ---- oracles over the ledger (interleaving-robust; evaluated at final quiescence) ----

type oracleSet struct {
	exactlyOnce bool // C10: O1, O3, O6
	identity    bool // C12: O2
	writes      bool // C11: O5
	closeRules  bool // C15: O4
}

func isWriteErr(err error) bool {
	var se stun.StopErr
	if errors.As(err, &se) {
		return errors.Is(se.Cause, sim.ErrScriptedWrite) || errors.Is(se.Cause, sim.ErrConnClosed)
	}

	return errors.Is(err, sim.ErrScriptedWrite) || errors.Is(err, sim.ErrConnClosed)
}

// judge evaluates the enabled oracles; final means the world is quiescent and the client closed (all handlers due have run).
func (r *rig) judge(o oracleSet, final bool) []rigProblem {
	r.mu.Lock()
	probs := append([]rigProblem(nil), r.problems...)
	r.mu.Unlock()
	if !o.exactlyOnce {
		// double invocations are recorded online; they belong to C10
		kept := probs[:0]
		for _, p := range probs {
			if p.Kind != "double-invocation" {
				kept = append(kept, p)
			}
		}
		probs = kept
	}
	writes := r.conn.Writes()
	closeRet := r.firstCloseReturn()
	for _, t := range r.allTxs() {
		inv := t.invocations()
		desc := fmt.Sprintf("transaction #%d %s id=%x", t.Seq, t.Kind, t.ID[:4])
		if o.exactlyOnce && t.Kind != "Indicate" {
			switch {
			case !t.returned():
				if final {
					probs = append(probs, rigProblem{"call-never-returned", "never-returned:" + t.Kind,
						fmt.Sprintf("%s: the call has not returned at final quiescence (invocations so far: %d)", desc, len(inv))})
				}
			case t.RetErr != nil && len(inv) > 0:
				key := "start-error-but-handler-invoked"
				if isWriteErr(t.RetErr) && len(inv) == 1 {
					// recorded finding KF1: the exact symptom (initial write failed, exactly one invocation by a concurrent terminator)
					key = "start-error-but-handler-invoked:initial-write-failed:" + inv[0].Class
				}
				probs = append(probs, rigProblem{"start-error-but-handler-invoked", key,
					fmt.Sprintf("%s returned %v, yet its handler was invoked %d time(s) (%s)", desc, t.RetErr, len(inv), inv[0].Class)})
			case t.Kind == "Do" && t.RetErr == nil && len(inv) == 1 && t.RetStamp < inv[0].End:
				probs = append(probs, rigProblem{"do-returned-before-handler-finished", "do-returned-before-handler-finished",
					fmt.Sprintf("%s returned at stamp %d while its handler invocation ran from %d to %d", desc, t.RetStamp, inv[0].Begin, inv[0].End)})
			case t.RetErr == nil && len(inv) == 0 && final:
				probs = append(probs, rigProblem{"handler-never-invoked", "never-invoked:" + t.Kind,
					fmt.Sprintf("%s returned nil but its handler was never invoked (client closed, world quiescent)", desc)})
			}
		}
		if o.identity {
			for _, iv := range inv {
				if iv.EventTID != t.ID {
					probs = append(probs, rigProblem{"cross-delivery", "cross-delivery",
						fmt.Sprintf("%s: handler received an event for id %x", desc, iv.EventTID[:4])})
				}
				if iv.MsgRaw != nil {
					r.mu.Lock()
					cands := r.delivered[t.ID]
					r.mu.Unlock()
					ok := false
					for _, d := range cands {
						if bytes.Equal(d, iv.MsgRaw) {
							ok = true
						}
					}
					if !ok || iv.MsgTID != t.ID {
						probs = append(probs, rigProblem{"wrong-message", "wrong-message",
							fmt.Sprintf("%s: handler saw message %x (id %x) which is not a datagram delivered for its id", desc, clip(iv.MsgRaw), iv.MsgTID[:4])})
					} else if want := refAttrList(iv.MsgRaw); iv.MsgAttrs != want {
						probs = append(probs, rigProblem{"wrong-decode", "wrong-decode",
							fmt.Sprintf("%s: the Message handed to the handler lists attributes %.120s, an independent decode of the datagram gives %.120s", desc, iv.MsgAttrs, want)})
					}
				}
			}
		}
		if o.writes && t.Kind != "Indicate" && t.returned() {
			ws := r.writesFor(t, writes)
			limit := r.maxAttempts() + 1
			if len(ws) > limit {
				probs = append(probs, rigProblem{"too-many-writes", "too-many-writes",
					fmt.Sprintf("%s: %d writes, limit %d", desc, len(ws), limit)})
			}
			for k, wr := range ws {
				if !bytes.Equal(wr.Bytes, t.Raw) {
					probs = append(probs, rigProblem{"write-differs", "write-differs",
						fmt.Sprintf("%s: transmission %d has %d bytes, the message had %d when Start was called (first difference at %d)",
							desc, k, len(wr.Bytes), len(t.Raw), firstDiff(wr.Bytes, t.Raw))})

					break
				}
			}
		}
		if o.closeRules && closeRet > 0 {
			for _, iv := range inv {
				if iv.Begin > closeRet {
					probs = append(probs, rigProblem{"handler-after-close", "handler-after-close",
						fmt.Sprintf("%s: handler invocation (%s) began at stamp %d, Close had returned at %d", desc, iv.Class, iv.Begin, closeRet)})
				}
			}
			if t.CallStamp > closeRet && t.returned() {
				if !errors.Is(t.RetErr, stun.ErrClientClosed) {
					probs = append(probs, rigProblem{"call-after-close", "call-after-close:" + t.Kind,
						fmt.Sprintf("%s issued after Close returned gave %v", desc, t.RetErr)})
				}
				if ws := r.writesFor(t, writes); len(ws) > 0 {
					probs = append(probs, rigProblem{"write-after-close", "write-after-close",
						fmt.Sprintf("%s issued after Close returned wrote %d datagram(s)", desc, len(ws))})
				}
			}
		}
	}
	if o.identity {
		r.mu.Lock()
		for _, f := range r.fallback {
			if f.MsgRaw == nil {
				continue
			}
			var wireID [12]byte
			if len(f.MsgRaw) >= 20 {
				copy(wireID[:], f.MsgRaw[8:20])
			}
			if f.EventTID != wireID || f.MsgTID != wireID {
				probs = append(probs, rigProblem{"fallback-event-id", "fallback-event-id",
					fmt.Sprintf("fallback handler got event id %x / message id %x for a datagram with id %x", f.EventTID[:4], f.MsgTID[:4], wireID[:4])})
			} else if want := refAttrList(f.MsgRaw); f.MsgAttrs != want {
				probs = append(probs, rigProblem{"wrong-decode", "wrong-decode:fallback",
					fmt.Sprintf("fallback handler saw attributes %.120s, an independent decode of the datagram gives %.120s", f.MsgAttrs, want)})
			}
		}
		r.mu.Unlock()
	}
	if r.agent != nil && atomic.LoadInt32(&r.agent.OffClock) > 0 && (o.writes || o.exactlyOnce) {
		ex, _ := r.agent.OffClockExample.Load().(string)
		probs = append(probs, rigProblem{"collect-off-clock", "collect-off-clock",
			fmt.Sprintf("the client was given a Clock, yet %d of %d Collect calls carried a time that clock never showed (first: %s)",
				atomic.LoadInt32(&r.agent.OffClock), atomic.LoadInt32(&r.agent.Collects), ex)})
	}
	if atomic.LoadInt32(&r.conn.ReaderGone) > 0 {
		probs = append(probs, rigProblem{"reader-gone", "reader-gone", "a datagram was not taken by the reader within the watchdog although the client was open"})
	}
	if o.closeRules && closeRet > 0 {
		r.mu.Lock()
		for _, f := range r.fallback {
			if f.Stamp > closeRet {
				probs = append(probs, rigProblem{"handler-after-close", "fallback-after-close",
					fmt.Sprintf("fallback handler invoked at stamp %d, Close had returned at %d", f.Stamp, closeRet)})
			}
		}
		r.mu.Unlock()
	}

	return probs
}

func firstDiff(a, b []byte) int {
	n := len(a)
	if len(b) < n {
		n = len(b)
	}
	for i := 0; i < n; i++ {
		if a[i] != b[i] {
			return i
		}
	}

	return n
}

// describe renders the ledger for a witness.
func (r *rig) describe() []string {
	type line struct {
		st int64
		s  string
	}
	var lines []line
	for _, t := range r.allTxs() {
		ret := "pending"
		if t.returned() {
			ret = fmt.Sprintf("returned %v at %d", t.RetErr, t.RetStamp)
		}
		lines = append(lines, line{t.CallStamp, fmt.Sprintf("[%d] %s #%d id=%x size=%d -> %s", t.CallStamp, t.Kind, t.Seq, t.ID[:4], len(t.Raw), ret)})
		for _, iv := range t.invocations() {
			lines = append(lines, line{iv.Begin, fmt.Sprintf("[%d..%d] handler of #%d invoked: %s %s", iv.Begin, iv.End, t.Seq, iv.Class, iv.Err)})
		}
	}
	for _, wr := range r.conn.Writes() {
		f := ""
		if wr.Failed {
			f = " FAILED"
		}
		id := []byte{}
		if len(wr.Bytes) >= 12 {
			id = wr.Bytes[8:12]
		}
		lines = append(lines, line{wr.Stamp, fmt.Sprintf("[%d] write %d bytes id=%x vtime=%v%s", wr.Stamp, len(wr.Bytes), id, time.Duration(wr.VTime), f)})
	}
	r.mu.Lock()
	for _, c := range r.closes {
		lines = append(lines, line{c.CallStamp, fmt.Sprintf("[%d..%d] Close -> %v", c.CallStamp, c.RetStamp, c.Err)})
	}
	for _, f := range r.fallback {
		lines = append(lines, line{f.Stamp, fmt.Sprintf("[%d] fallback handler: %s id=%x", f.Stamp, f.Class, f.EventTID[:4])})
	}
	r.mu.Unlock()
	sort.Slice(lines, func(i, j int) bool { return lines[i].st < lines[j].st })
	out := make([]string, 0, len(lines))
	for _, l := range lines {
		out = append(out, l.s)
	}
	if len(out) > 120 {
		out = append(out[:120], fmt.Sprintf("... (%d more)", len(out)-120))
	}

	return out
}

// closeAccounting checks, after the successful Close returned: goroutines gone, connection closed exactly once (never
// with WithNoConnClose), collector closed once.
func (r *rig) closeAccounting() []rigProblem {
	var probs []rigProblem
	if r.firstCloseReturn() == 0 {
		return nil
	}
	if atomic.LoadInt32(&openRigs) > 0 {
		leakScansSkipped.Add(1) // an abandoned client of an earlier scenario is still alive: the scan would blame this one
	} else if leaks := goroutineLeaks(); len(leaks) > 0 {
		probs = append(probs, rigProblem{"goroutine-leak", "goroutine-leak", fmt.Sprintf("still alive after Close returned: %v", leaks)})
	}
	n := atomic.LoadInt32(&r.conn.CloseCalls)
	if (r.opts.noConnClose && n != 0) || (!r.opts.noConnClose && n != 1) {
		probs = append(probs, rigProblem{"conn-close-count", "conn-close-count", fmt.Sprintf("connection Close called %d times (WithNoConnClose=%v)", n, r.opts.noConnClose)})
	}
	if h := atomic.LoadInt32(&r.conn.HalfCloses); r.opts.noConnClose && h != 0 {
		// "then never": a connection the client does not own is not shut down in part either
		probs = append(probs, rigProblem{"conn-close-count", "conn-half-closed", fmt.Sprintf("WithNoConnClose: CloseRead/CloseWrite called %d times on the caller's connection", h)})
	}
	if r.coll != nil {
		if k := atomic.LoadInt32(&r.coll.CloseCalls); k != 1 {
			probs = append(probs, rigProblem{"collector-close-count", "collector-close-count", fmt.Sprintf("collector Close called %d times", k)})
		}
	}

	return probs
}

// goroutineLeaksNow is a single scan without the grace period.
func goroutineLeaksNow() []string {
	var found []string
	for _, g := range strings.Split(allStacks(), "\n\n") {
		if strings.Contains(g, "stun/v3.(*Client).readUntilClosed") {
			found = append(found, "reader goroutine (readUntilClosed)")
		}
		if strings.Contains(g, "stun/v3.(*tickerCollector).Start.func1") {
			found = append(found, "collector goroutine (tickerCollector)")
		}
	}

	return found
}

// goroutineLeaks looks for the client's reader / collector goroutines after Close returned.
func goroutineLeaks() []string {
	var found []string
	for attempt := 0; attempt < 50; attempt++ {
		found = found[:0]
		dump := allStacks()
		for _, g := range strings.Split(dump, "\n\n") {
			if strings.Contains(g, "stun/v3.(*Client).readUntilClosed") {
				found = append(found, "reader goroutine (readUntilClosed)")
			}
			if strings.Contains(g, "stun/v3.(*tickerCollector).Start.func1") {
				found = append(found, "collector goroutine (tickerCollector)")
			}
		}
		if len(found) == 0 {
			return nil
		}
		// a goroutine that has already passed wg.Done may still be on its way out
		time.Sleep(2 * time.Millisecond)
	}

	return found
}
