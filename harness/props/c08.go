package props

import (
	"bytes"
	"fmt"
	"strings"

	"github.com/pion/stun/v3"
	"github.com/pion/stun/v3/verifharness/core"
	"github.com/pion/stun/v3/verifharness/gen"
	"github.com/pion/stun/v3/verifharness/ref"
)

// C08: reusing a Message never leaks or corrupts data across uses.
func init() { core.Register("C08", c08) }

// c08Use is one use of a message: the same operation can be applied to the reused message and to its fresh twin.
type c08Use struct {
	name     string
	apply    func(m *stun.Message) error
	scribble func() // overwrite every buffer that was handed to the operation
}

func c08Spec(r *gen.Rand, prev *gen.MsgSpec) gen.MsgSpec {
	if prev != nil && r.Chance(1, 3) {
		// derived from the previous one: same shape, shorter or longer values (every padding residue)
		s := gen.MsgSpec{Type: prev.Type, TID: r.TID()}
		for _, a := range prev.Attrs {
			n := len(a.Value) + r.Range(-3, 3)
			if n < 0 {
				n = 0
			}
			s.Attrs = append(s.Attrs, ref.Attr{Type: a.Type, Value: r.Bytes(n)})
		}
		if len(s.Attrs) > 0 && r.Bool() {
			s.Attrs = s.Attrs[:r.Intn(len(s.Attrs))]
		}

		return s
	}

	return r.Spec(8, r.PickInt([]int{8, 40, 300, 1500}))
}

// c08Rest is the tail of the datagram the last "cut short" use dropped (nil otherwise).
func c08MakeUse(r *gen.Rand, spec gen.MsgSpec, rest *[]byte) c08Use {
	wire := r.WireDirty(spec)
	if *rest != nil && r.Bool() {
		// the bytes that were missing from the previous, cut datagram arrive on their own: they are not a message, for a
		// fresh Message as little as for the one that saw the first part
		data := append([]byte(nil), *rest...)
		*rest = nil

		return c08Use{"Write(rest of the cut datagram)", func(m *stun.Message) error { _, err := m.Write(data); return err }, func() {}}
	}
	*rest = nil
	switch r.Intn(16) {
	case 0, 1:
		wire = r.Mutate(wire) // a decode that may fail: "previous use" can be a failed one
	case 2:
		if len(wire) > 24 {
			cut := 20 + r.Intn(len(wire)-20)
			*rest = append([]byte(nil), wire[cut:]...)
			wire = wire[:cut] // a datagram cut short inside its declared body
		}
	case 3:
		wire = r.Bytes(1 + r.Intn(40)) // a chunk that is not a message at all (what the rest of a cut datagram looks like)
		wire[0] |= 0x04
	}
	data := append([]byte(nil), wire...)
	scribbleData := func() {
		for i := range data {
			data[i] ^= 0x5A
		}
	}
	switch r.Intn(9) {
	case 0:
		return c08Use{"Decode", func(m *stun.Message) error { return stun.Decode(data, m) }, scribbleData}
	case 1:
		return c08Use{"Write", func(m *stun.Message) error { _, err := m.Write(data); return err }, scribbleData}
	case 2:
		if r.Bool() {
			// the gob entry point of the same operation (a decoder or framing layer that recycles its buffer hands it over)
			return c08Use{"GobDecode", func(m *stun.Message) error { return m.GobDecode(data) }, scribbleData}
		}

		return c08Use{"UnmarshalBinary", func(m *stun.Message) error { return m.UnmarshalBinary(data) }, scribbleData}
	case 3:
		return c08Use{"ReadFrom", func(m *stun.Message) error {
			_, err := m.ReadFrom(bytes.NewReader(data))

			return err
		}, scribbleData}
	case 4:
		return c08Use{"CloneTo(into)", func(m *stun.Message) error {
			src := &stun.Message{Raw: data}

			return src.CloneTo(m)
		}, scribbleData}
	case 5, 6: // Build with setters
		var setters []stun.Setter
		var bufs [][]byte
		names := []string{}
		if r.Bool() {
			mt, cl := ref.SplitType(spec.Type)
			setters = append(setters, stun.NewType(stun.Method(mt), stun.MessageClass(cl)))
			names = append(names, "type")
		}
		if r.Bool() {
			setters = append(setters, stun.NewTransactionIDSetter(spec.TID))
			names = append(names, "tid")
		}
		for _, a := range spec.Attrs {
			v := append([]byte(nil), a.Value...)
			bufs = append(bufs, v)
			switch {
			case a.Type == 0x0009 && len(v) <= 763: // typed setters write their own value layout into the (reused) buffer
				if len(v)%2 == 0 {
					setters = append(setters, stun.ErrorCodeAttribute{Code: stun.ErrorCode(300 + len(v)%400), Reason: v})
				} else {
					setters = append(setters, stun.CodeStaleNonce)
				}
			case a.Type == 0x0020 || a.Type == 0x0001:
				ip := make([]byte, 4+12*(len(v)%2))
				copy(ip, v)
				if a.Type == 0x0020 {
					setters = append(setters, &stun.XORMappedAddress{IP: ip, Port: len(v) * 257 % 65536})
				} else {
					setters = append(setters, &stun.MappedAddress{IP: ip, Port: len(v) * 257 % 65536})
				}
			case a.Type == 0x000A:
				ua := make(stun.UnknownAttributes, len(v)%9)
				for k := range ua {
					ua[k] = stun.AttrType(uint16(v[k])<<8 | uint16(k))
				}
				setters = append(setters, ua)
			case a.Type == 0x0014 && len(v) <= 763:
				setters = append(setters, stun.Realm(v))
			case a.Type == 0x0015 && len(v) <= 763:
				setters = append(setters, stun.Nonce(v))
			case a.Type == 0x8022 && len(v) <= 763:
				setters = append(setters, stun.Software(v))
			case a.Type == 0x0006 && len(v) <= 513:
				setters = append(setters, stun.Username(v))
			default:
				setters = append(setters, stun.RawAttribute{Type: stun.AttrType(a.Type), Value: v})
			}
		}
		if r.Chance(1, 4) && !hasType(spec, 0x8028) {
			setters = append(setters, stun.NewShortTermIntegrity("key"))
			names = append(names, "integrity")
		}
		if r.Chance(1, 4) {
			setters = append(setters, stun.Fingerprint)
			names = append(names, "fingerprint")
		}

		return c08Use{fmt.Sprintf("Build(%s,%d attrs)", strings.Join(names, ","), len(spec.Attrs)),
			func(m *stun.Message) error { return m.Build(setters...) },
			func() {
				for _, b := range bufs {
					for i := range b {
						b[i] ^= 0x5A
					}
				}
			}}
	case 7: // Reset + WriteHeader + Add...
		var bufs [][]byte
		for _, a := range spec.Attrs {
			bufs = append(bufs, append([]byte(nil), a.Value...))
		}

		return c08Use{fmt.Sprintf("Reset;WriteHeader;Add x%d", len(spec.Attrs)),
			func(m *stun.Message) error {
				m.Reset()
				m.WriteHeader()
				for i, a := range spec.Attrs {
					m.Add(stun.AttrType(a.Type), bufs[i])
				}

				return nil
			},
			func() {
				for _, b := range bufs {
					for i := range b {
						b[i] ^= 0x5A
					}
				}
			}}
	default: // set fields then Encode
		return c08Use{fmt.Sprintf("set fields;Encode(%d attrs)", len(spec.Attrs)),
			func(m *stun.Message) error {
				mt, cl := ref.SplitType(spec.Type)
				m.Type = stun.NewType(stun.Method(mt), stun.MessageClass(cl))
				m.TransactionID = spec.TID
				m.Attributes = m.Attributes[:0]
				for _, a := range spec.Attrs {
					m.Attributes = append(m.Attributes, stun.RawAttribute{Type: stun.AttrType(a.Type), Value: append([]byte(nil), a.Value...)})
				}
				m.Encode()

				return nil
			}, func() {}}
	}
}

// c08FollowUp makes a use that depends on what the message currently holds: the same datagram arriving again after the
// application edited the decoded fields, or a re-encode after editing the attribute list in the struct.
// The second result (optional) compares the message with an absolute expectation where the fresh twin would share the fault.
func c08FollowUp(r *gen.Rand, m *stun.Message) (c08Use, func(m *stun.Message) string) {
	snapshot := make(stun.Attributes, len(m.Attributes))
	for i, a := range m.Attributes {
		snapshot[i] = stun.RawAttribute{Type: a.Type, Length: a.Length, Value: append([]byte(nil), a.Value...)}
	}
	if r.Chance(1, 3) {
		// the next input lives in the message's own buffer: the message carried in the DATA attribute it has just
		// decoded (TURN), or bytes of its own Raw behind a prefix
		inner := r.WireDirty(r.Spec(5, 60))
		outer := ref.Encode(0x0017, r.TID(), []ref.Attr{{Type: 0x8022, Value: r.Bytes(r.Intn(9))}, {Type: 0x0013, Value: inner}, {Type: 0x802b, Value: r.Bytes(8)}})
		want := new(stun.Message)
		if err := stun.Decode(append([]byte(nil), inner...), want); err != nil {
			fatalHarness("C08 inner message: " + err.Error())
		}
		wantView := viewOf(want)
		how := r.Intn(3)

		return c08Use{"Decode(outer);decode own DATA value", func(x *stun.Message) error {
				if err := stun.Decode(outer, x); err != nil {
					return err
				}
				v, err := x.Get(stun.AttrData)
				if err != nil {
					return err
				}
				switch how {
				case 0:
					return stun.Decode(v, x)
				case 1:
					_, err = x.Write(v)

					return err
				default:
					return x.UnmarshalBinary(v)
				}
			}, func() {}}, func(x *stun.Message) string {
				got := viewOf(x)
				if d := got.diff(wantView); d != "" {
					return "the message decoded out of its own DATA attribute differs from a decode of the same bytes held elsewhere: " + d
				}

				return ""
			}
	}
	if r.Bool() {
		// a retransmission: byte for byte what m.Raw holds, decoded into m after its fields were edited
		data := append([]byte(nil), m.Raw...)
		m.Type = stun.NewType(stun.Method(r.Intn(0x1000)), stun.MessageClass(r.Intn(4)))
		if r.Bool() {
			m.TransactionID = r.TID()
		}
		if len(m.Attributes) > 0 {
			m.Attributes[r.Intn(len(m.Attributes))].Type = stun.AttrType(r.AttrType())
		}
		if len(m.Attributes) > 1 && r.Bool() {
			m.Attributes[0], m.Attributes[1] = m.Attributes[1], m.Attributes[0]
		}

		return c08Use{"edit fields;Decode(same bytes)", func(x *stun.Message) error { return stun.Decode(data, x) }, func() {
			for i := range data {
				data[i] ^= 0x5A
			}
		}}, nil
	}
	retag, nt := -1, stun.AttrType(r.AttrType())
	if len(snapshot) > 0 && r.Chance(2, 3) {
		retag = r.Intn(len(snapshot))
	}

	return c08Use{fmt.Sprintf("retag attribute %d;Encode", retag), func(x *stun.Message) error {
		if x != m { // the fresh twin gets the same attribute list by value
			x.Attributes = make(stun.Attributes, len(snapshot))
			for i, a := range snapshot {
				x.Attributes[i] = stun.RawAttribute{Type: a.Type, Length: a.Length, Value: append([]byte(nil), a.Value...)}
			}
		}
		if retag >= 0 {
			x.Attributes[retag].Type = nt
		}
		x.Encode()

		return nil
	}, func() {}}, nil
}

func hasType(s gen.MsgSpec, t uint16) bool {
	for _, a := range s.Attrs {
		if a.Type == t {
			return true
		}
	}

	return false
}

// poison fills everything a previous use left behind and that must never become visible again.
func poison(m *stun.Message) {
	spare := m.Raw[len(m.Raw):cap(m.Raw)]
	for i := range spare {
		spare[i] = 0xA5 ^ byte(i&1)*0xFF
	}
	stale := m.Attributes[len(m.Attributes):cap(m.Attributes)]
	for i := range stale {
		stale[i] = stun.RawAttribute{Type: 0x7A5A, Length: 0xA5A5, Value: []byte{0xA5, 0x5A, 0xA5}}
	}
}

func c08(c *core.Ctx) {
	selfCheckOracles()
	chainMax := 8
	c.Section("chains", c.N(8000, 5000000), func(_ int64, r *gen.Rand) {
		var m *stun.Message
		switch r.Intn(3) {
		case 0:
			m = new(stun.Message)
		case 1:
			m = stun.New()
		default:
			m = &stun.Message{Raw: make([]byte, r.Intn(64), 64+r.Intn(2048))}
		}
		var prev *gen.MsgSpec
		var rest []byte
		var history []string
		lastOK := false
		n := 2 + r.Intn(chainMax-1)
		for k := 0; k < n; k++ {
			spec := c08Spec(r, prev)
			prev = &spec
			use := c08MakeUse(r, spec, &rest)
			var absCheck func(m *stun.Message) string
			if k > 0 && lastOK && r.Chance(1, 5) {
				use, absCheck = c08FollowUp(r, m)
			}
			history = append(history, use.name)
			fresh := &stun.Message{Type: m.Type, TransactionID: m.TransactionID}
			if use.name == "ReadFrom" {
				fresh.Raw = make([]byte, 0, cap(m.Raw)) // ReadFrom reads into the capacity it is given
			}
			poison(m)
			var errM, errF error
			p1, st1 := safely(func() { errM = use.apply(m) })
			p2, _ := safely(func() { errF = use.apply(fresh) })
			c.Eval(1)
			detail := func(msg string) map[string]interface{} {
				return map[string]interface{}{"history": strings.Join(history, " -> "), "problem": msg,
					"reused_raw_hex": core.Hex(m.Raw), "fresh_raw_hex": core.Hex(fresh.Raw)}
			}
			if p1 != nil || p2 != nil {
				if p1 != nil && p2 == nil {
					reportPanic(c, use.name+" on reused message", p1, st1, detail("panics only on the reused message"))
				}

				return // a panic on both is C01's business
			}
			if (errM == nil) != (errF == nil) {
				c.Violate("verdict-differs", "verdict-differs:"+opName(use.name), detail(fmt.Sprintf("reused: %v, fresh: %v", errM, errF)))

				return
			}
			lastOK = errM == nil
			if errM == nil && absCheck != nil {
				if msg := absCheck(m); msg != "" {
					c.Violate("reuse-differs", "reuse-differs:"+opName(use.name), detail(msg))

					return
				}
			}
			if errM != nil {
				c.Count("failed_uses", 1)

				continue // state after a failed use is unspecified; it is the next use's "previous content"
			}
			c.Count("successful_uses", 1)
			vm, vf := viewOf(m), viewOf(fresh)
			if d := vm.diff(vf); d != "" {
				c.Violate("reuse-differs", "reuse-differs:"+opName(use.name), detail(d))

				return
			}
			if r.Chance(1, 3) {
				// other messages are built in the same program meanwhile (their buffers grow and are dropped): the
				// attribute values of this one - also those still pointing into buffers it has outgrown - stay put
				for k := 1 + r.Intn(3); k > 0; k-- {
					o := new(stun.Message)
					o.WriteHeader()
					for j := 1 + r.Intn(6); j > 0; j-- {
						o.Add(stun.AttrType(0x7b00+j), bytes.Repeat([]byte{0x83}, r.PickInt([]int{7, 33, 70, 120, 260, 600, 1500})))
					}
				}
				if d := vm.diff(viewOf(m)); d != "" {
					c.Violate("reuse-differs", "changed-by-unrelated-messages", detail("the message changed while other, unrelated messages were being built: "+d))

					return
				}
				c.Count("bystander_rounds", 1)
			}
			// the data handed in was copied: overwrite it and look again
			use.scribble()
			if d := vm.diff(viewOf(m)); d != "" {
				c.Violate("input-aliased", "input-aliased:"+opName(use.name), detail("message changed when the caller overwrote its buffer: "+d))

				return
			}
			c.Count("scribbles", 1)
			// results of MarshalBinary / CloneTo are independent of the source
			if r.Chance(1, 3) {
				bin, _ := m.MarshalBinary()
				dst := new(stun.Message)
				if r.Bool() {
					dst = stun.New()
				}
				if err := m.CloneTo(dst); err != nil {
					c.Violate("clone-failed", "clone-failed", detail(err.Error()))

					return
				}
				binCopy := append([]byte(nil), bin...)
				vd := viewOf(dst)
				// the clone is a decode of the source's bytes: the legacy alias 0x8020 a builder put into the
				// source struct reads back as 0x0020 (tolerated by the statement)
				vmAlias := vm
				vmAlias.Attrs = append([]attrView(nil), vm.Attrs...)
				for i := range vmAlias.Attrs {
					vmAlias.Attrs[i].Type = compat(vmAlias.Attrs[i].Type)
				}
				if d := vd.diff(vmAlias); d != "" {
					c.Violate("clone-differs", "clone-differs", detail(d))

					return
				}
				saved := append([]byte(nil), m.Raw...)
				for i := range m.Raw {
					m.Raw[i] ^= 0xFF
				}
				if !bytes.Equal(bin, binCopy) {
					c.Violate("marshal-aliased", "marshal-aliased", detail("MarshalBinary result changed with the source"))

					return
				}
				if d := vd.diff(viewOf(dst)); d != "" {
					c.Violate("clone-aliased", "clone-aliased", detail("CloneTo result changed with the source: "+d))

					return
				}
				copy(m.Raw, saved)
				c.Count("clone_marshal_checks", 1)
			}
		}
		c.Distinct(gen.HashString(strings.Join(history, ">")) ^ r.U64())
		if c.WantSample() && len(history) <= 4 {
			c.Sample(strings.Join(history, " -> "))
		}
	})
}

func opName(s string) string {
	if k := strings.IndexAny(s, "(;"); k > 0 {
		return s[:k]
	}

	return s
}
