package props

import (
	"fmt"
	"time"

	"github.com/pion/stun/v3/verifharness/core"
	"github.com/pion/stun/v3/verifharness/gen"
)

// Targeted multi-pause scenarios that the pairwise grid (one pause) cannot express.

// targetedDoWaitsForHandler: Do is parked right after its initial write, the response arrives and the handler is parked
// inside the user callback, then Do is released: it must not return before the handler has finished.
func targetedDoWaitsForHandler(c *core.Ctx, noRetransmit bool) {
	c.Eval(1)
	r, err := newRig(rigOpts{useRoles: true, noRetransmit: noRetransmit})
	if err != nil {
		c.Violate("newclient", "newclient", err.Error())

		return
	}
	r.w.SetRole("driver")
	pWrite := r.w.AddPause("conn.Write.after", "A", 1)
	pHandler := r.w.AddPause("user.handler", "client-internal", 1)
	t := r.newTx("Do", seqTID(0), 24)
	done := make(chan struct{})
	go func() { r.w.SetRole("A"); _ = r.do(t); close(done) }()
	fail := func(kind, msg string) {
		c.Violate(kind, kind, map[string]interface{}{"scenario": "Do parked after its write; response handled (handler parked); Do released", "problem": msg, "ledger": r.describe()})
	}
	select {
	case <-pWrite.Parked:
	case <-time.After(10 * time.Second):
		c.Inconclusive(1)
		pWrite.Release()
		pHandler.Release()

		return
	}
	r.deliverAsync(seqTID(0), response(seqTID(0), "targeted-do"), true)
	select {
	case <-pHandler.Parked:
	case <-time.After(10 * time.Second):
		c.Inconclusive(1)
		pWrite.Release()
		pHandler.Release()

		return
	}
	pWrite.Release()
	// the handler is still inside the user callback: Do has nothing to return for yet
	early := false
	for i := 0; i < 2000 && !early; i++ {
		early = t.returned()
		if !early {
			time.Sleep(10 * time.Microsecond)
		}
	}
	pHandler.Release()
	select {
	case <-done:
	case <-time.After(15 * time.Second):
		fail("call-never-returned", "Do did not return after its handler finished")

		return
	}
	if early {
		fail("do-returned-before-handler-finished", "Do returned while its handler invocation was still running (handler parked in the callback)")
	}
	_ = r.close()
	for _, p := range r.judge(c10Oracles, true) {
		fail(p.Kind, p.Detail)
	}
	c.Count("targeted.do_waits_for_handler", 1)
}

// targetedCloseDuringCollectorTick: the library's ticker collector is inside a tick (parked in Clock.Now) when Close
// is called: Close must not return before that goroutine is done.
func targetedCloseDuringCollectorTick(c *core.Ctx, variant int) {
	c.Eval(1)
	o := rigOpts{realCollector: true, useRoles: true, defaultAgent: variant%2 == 1, noConnClose: variant/2%2 == 1}
	r, err := newRig(o)
	if err != nil {
		c.Violate("newclient", "newclient", err.Error())

		return
	}
	r.w.SetRole("driver")
	p := r.w.AddPause("clock.Now", "client-internal", 1) // only the collector goroutine reads the clock without a role
	select {
	case <-p.Parked:
	case <-time.After(10 * time.Second):
		c.Inconclusive(1)
		p.Release()
		_ = r.close()

		return
	}
	done := make(chan struct{})
	go func() { r.w.SetRole("closer"); _ = r.close(); close(done) }()
	early := false
	select {
	case <-done:
		early = true
	case <-time.After(150 * time.Millisecond):
	}
	var leaks []string
	if early {
		leaks = goroutineLeaksNow()
	}
	p.Release()
	select {
	case <-done:
	case <-time.After(15 * time.Second):
		c.Violate("stuck", "stuck:Close", map[string]interface{}{"scenario": "Close during a collector tick", "options": o.String()})

		return
	}
	if early {
		c.Violate("close-returned-during-collector-tick", "close-returned-during-collector-tick", map[string]interface{}{
			"scenario": "ticker collector goroutine parked inside its tick (Clock.Now); Close called", "options": o.String(),
			"problem": "Close returned while the collector goroutine was still inside a tick", "goroutines_alive_at_return": fmt.Sprint(leaks),
		})
	}
	for _, pr := range r.closeAccounting() {
		c.Violate(pr.Kind, pr.Key, map[string]interface{}{"options": o.String(), "problem": pr.Detail})
	}
	c.Count("targeted.close_during_collector_tick", 1)
}

func c10Targeted(c *core.Ctx) {
	c.SectionSerial("targeted-do-waits-for-handler", 4, func(i int64, _ *gen.Rand) {
		targetedDoWaitsForHandler(c, i%2 == 1)
		c.Distinct(uint64(i) | 9<<50)
	})
}

func c15Targeted(c *core.Ctx) {
	c.SectionSerial("targeted-close-during-collector-tick", 8, func(i int64, _ *gen.Rand) {
		targetedCloseDuringCollectorTick(c, int(i))
		c.Distinct(uint64(i) | 9<<50)
	})
}
