package props

import (
	"bytes"
	"errors"
	"fmt"
	"net"
	"runtime"
	"sync"
	"sync/atomic"
	"time"

	"github.com/pion/stun/v3"
	"github.com/pion/stun/v3/verifharness/core"
	"github.com/pion/stun/v3/verifharness/gen"
	"github.com/pion/stun/v3/verifharness/sim"
)

// Targeted multi-pause scenarios that the pairwise grid (one pause) cannot express.

// targetedDoWaitsForHandler: Do is parked right after its initial write, the response arrives and the handler is parked
// inside the user callback, then Do is released: it must not return before the handler has finished.
func targetedDoWaitsForHandler(c *core.Ctx, noRetransmit bool) {
	c.Eval(1)
	r, err := newRig(rigOpts{useRoles: true, noRetransmit: noRetransmit})
	if err != nil {
		c.Violate("newclient", "newclient", err.Error())

		return
	}
	r.w.SetRole("driver")
	pWrite := r.w.AddPause("conn.Write.after", "A", 1)
	pHandler := r.w.AddPause("user.handler", "client-internal", 1)
	t := r.newTx("Do", seqTID(0), 24)
	done := make(chan struct{})
	go func() { r.w.SetRole("A"); _ = r.do(t); close(done) }()
	fail := func(kind, msg string) {
		c.Violate(kind, kind, map[string]interface{}{"scenario": "Do parked after its write; response handled (handler parked); Do released", "problem": msg, "ledger": r.describe()})
	}
	select {
	case <-pWrite.Parked:
	case <-time.After(10 * time.Second):
		c.Inconclusive(1)
		pWrite.Release()
		pHandler.Release()

		return
	}
	r.deliverAsync(seqTID(0), response(seqTID(0), "targeted-do"), true)
	select {
	case <-pHandler.Parked:
	case <-time.After(10 * time.Second):
		c.Inconclusive(1)
		pWrite.Release()
		pHandler.Release()

		return
	}
	pWrite.Release()
	// the handler is still inside the user callback: Do has nothing to return for yet
	early := false
	for i := 0; i < 2000 && !early; i++ {
		early = t.returned()
		if !early {
			time.Sleep(10 * time.Microsecond)
		}
	}
	pHandler.Release()
	select {
	case <-done:
	case <-time.After(15 * time.Second):
		fail("call-never-returned", "Do did not return after its handler finished")

		return
	}
	if early {
		fail("do-returned-before-handler-finished", "Do returned while its handler invocation was still running (handler parked in the callback)")
	}
	_ = r.close()
	for _, p := range r.judge(c10Oracles, true) {
		fail(p.Kind, p.Detail)
	}
	c.Count("targeted.do_waits_for_handler", 1)
}

// targetedCloseDuringCollectorTick: the library's ticker collector is inside a tick (parked in Clock.Now) when Close
// is called: Close must not return before that goroutine is done.
func targetedCloseDuringCollectorTick(c *core.Ctx, variant int) {
	c.Eval(1)
	o := rigOpts{realCollector: true, useRoles: true, defaultAgent: variant%2 == 1, noConnClose: variant/2%2 == 1}
	cp := "clock.Now" // only the collector goroutine reads the clock without a role
	if variant >= 8 {
		// deeper inside the tick: a retransmission is under way (the transaction has just been registered with the agent
		// again, or its datagram is about to be written)
		o.defaultAgent = false
		o.rto = time.Second
		cp = []string{"agent.Start.after", "conn.Write.before"}[variant%2]
	}
	r, err := newRig(o)
	if err != nil {
		c.Violate("newclient", "newclient", err.Error())

		return
	}
	r.w.SetRole("driver")
	var due *tx
	if variant >= 8 {
		due = r.newTx("Start", seqTID(0), 24)
		if err := r.start(due); err != nil {
			c.Violate("start-failed", "start-failed", err.Error())

			return
		}
	}
	p := r.w.AddPause(cp, "client-internal", 1)
	if variant >= 8 {
		r.w.SetNow(int64(1500 * time.Millisecond)) // past the first deadline: the next tick retransmits
	}
	select {
	case <-p.Parked:
	case <-time.After(10 * time.Second):
		c.Inconclusive(1)
		p.Release()
		_ = r.close()

		return
	}
	done := make(chan struct{})
	go func() { r.w.SetRole("closer"); _ = r.close(); close(done) }()
	early := false
	select {
	case <-done:
		early = true
	case <-time.After(time.Second): // generous: on a loaded machine a Close that does not wait still needs a moment to return
	}
	var leaks []string
	if early {
		leaks = goroutineLeaksNow()
	}
	p.Release()
	select {
	case <-done:
	case <-time.After(15 * time.Second):
		c.Violate("stuck", "stuck:Close", map[string]interface{}{"scenario": "Close during a collector tick", "options": o.String()})

		return
	}
	if early {
		c.Violate("close-returned-during-collector-tick", "close-returned-during-collector-tick", map[string]interface{}{
			"scenario": "ticker collector goroutine parked inside its tick (Clock.Now); Close called", "options": o.String(),
			"problem": "Close returned while the collector goroutine was still inside a tick", "goroutines_alive_at_return": fmt.Sprint(leaks),
		})
	}
	for _, pr := range r.closeAccounting() {
		c.Violate(pr.Kind, pr.Key, map[string]interface{}{"options": o.String(), "problem": pr.Detail})
	}
	if due != nil {
		// nothing is written for the transaction once Close has returned; its handler ran exactly once
		closeRet := r.firstCloseReturn()
		for _, wr := range r.conn.Writes() {
			if wr.Stamp > closeRet {
				c.Violate("write-after-close", "write-after-close", map[string]interface{}{"options": o.String(), "parked_at": cp,
					"problem": fmt.Sprintf("a datagram was written at stamp %d, Close had returned at %d", wr.Stamp, closeRet), "ledger": r.describe()})
			}
		}
		for _, pr := range r.judge(oracleSet{exactlyOnce: true, writes: true, closeRules: true}, true) {
			c.Violate(pr.Kind, pr.Key, map[string]interface{}{"options": o.String(), "parked_at": cp, "problem": pr.Detail})
		}
	}
	c.Count("targeted.close_during_collector_tick", 1)
}

// targetedCloseFromHandler: library ticker collector; two transactions expire in the same tick; the first timeout
// handler asks for Close (from another goroutine) and lingers: the second transaction must still complete exactly once.
func targetedCloseFromHandler(c *core.Ctx, variant int) {
	c.Eval(1)
	o := rigOpts{realCollector: true, noRetransmit: true, rto: time.Second, defaultAgent: variant%2 == 1}
	r, err := newRig(o)
	if err != nil {
		c.Violate("newclient", "newclient", err.Error())

		return
	}
	closed := make(chan struct{})
	var once sync.Once
	mk := func(id [12]byte) *tx {
		t := r.newTx("Start", id, 24)
		t.Raw = append([]byte(nil), t.msg.Raw...)
		t.CallStamp = r.w.Tick()
		h := r.handlerFor(t)
		t.RetErr = r.client.Start(t.msg, func(e stun.Event) {
			h(e)
			once.Do(func() { go func() { _ = r.close(); close(closed) }() })
			time.Sleep(5 * time.Millisecond) // linger inside the handler while Close runs
		})
		t.RetStamp = r.w.Tick()
		atomic.StoreInt32(&t.Returned, 1)

		return t
	}
	a, b := mk(seqTID(0)), mk(seqTID(1))
	r.w.SetNow(int64(10 * time.Second)) // both deadlines are in the past now; the next tick collects both
	select {
	case <-closed:
	case <-time.After(15 * time.Second):
		c.Violate("stuck", "stuck:Close-from-handler", map[string]interface{}{"options": o.String(), "ledger": r.describe()})

		return
	}
	time.Sleep(10 * time.Millisecond)
	for _, t := range []*tx{a, b} {
		if t.RetErr == nil && len(t.invocations()) != 1 {
			c.Violate("handler-never-invoked", "never-invoked:close-from-handler", map[string]interface{}{
				"options": o.String(), "problem": fmt.Sprintf("transaction #%d: handler invocations %v after Close returned", t.Seq, classesOf(t.invocations())), "ledger": r.describe()})

			return
		}
	}
	c.Count("targeted.close_from_handler", 1)
}

// targetedResponseVsTimeout: for one transaction at a time, its response (reader goroutine) and its final timeout
// (collector tick) are released at the same instant, over and over; afterwards the pooled objects must still be sound.
func targetedResponseVsTimeout(c *core.Ctx, rounds int, oracles oracleSet) {
	r, err := newRig(rigOpts{noRetransmit: true, rto: time.Millisecond, fallback: true})
	if err != nil {
		c.Violate("newclient", "newclient", err.Error())

		return
	}
	now := int64(0)
	for k := 0; k < rounds; k++ {
		id := seqTID(int8(k % 3))
		id[3], id[4] = byte(k), byte(k>>8)
		t := r.newTx("Start", id, 24)
		if err := r.start(t); err != nil {
			c.Violate("start-failed", "start-failed", err.Error())

			return
		}
		now += int64(time.Second)
		var start int32
		var wg sync.WaitGroup
		wg.Add(2)
		go func() {
			defer wg.Done()
			for atomic.LoadInt32(&start) == 0 { // spin barrier (yielding)
				runtime.Gosched()
			}
			r.tickAt(now)
		}()
		resp := response(id, fmt.Sprintf("collision-%d", k))
		go func() {
			defer wg.Done()
			for atomic.LoadInt32(&start) == 0 { // spin barrier (yielding)
				runtime.Gosched()
			}
			r.deliver(id, resp, true)
		}()
		atomic.StoreInt32(&start, 1)
		wg.Wait()
		inv := t.invocations()
		if len(inv) != 1 || (inv[0].Class != "response" && inv[0].Class != "timeout") {
			c.Violate("collision", "response-vs-timeout", map[string]interface{}{
				"round": k, "problem": fmt.Sprintf("handler invocations %v, exactly one of response/timeout expected", classesOf(inv)), "ledger_tail": tailOf(r.describe(), 12)})

			return
		}
		if k%64 == 63 {
			// pooled objects still sound? two fresh transactions answered correctly
			for j := 0; j < 2; j++ {
				fid := seqTID(int8(4 + j))
				fid[5] = byte(k)
				ft := r.newTx("Start", fid, 28)
				_ = r.start(ft)
				r.deliver(fid, response(fid, "collision-follow-up"), true)
				if iv := ft.invocations(); len(iv) != 1 || iv[0].Class != "response" || iv[0].MsgTID != fid {
					c.Violate("follow-up-not-served", "follow-up-not-served", map[string]interface{}{"round": k, "invocations": classesOf(iv), "ledger_tail": tailOf(r.describe(), 12)})

					return
				}
			}
			for _, p := range r.judge(oracles, false) {
				c.Violate(p.Kind, p.Key, map[string]interface{}{"round": k, "problem": p.Detail})

				return
			}
			r.mu.Lock()
			r.txs, r.delivered, r.fallback = r.txs[:0], map[[12]byte][][]byte{}, r.fallback[:0]
			r.mu.Unlock()
		}
	}
	c.Eval(int64(rounds))
	c.Count("targeted.response_vs_timeout_rounds", int64(rounds))
	_ = r.close()
}

// targetedMassTimeout: n transactions whose last deadline passes on the same collector tick; every single one gets its
// timeout (or, for the retransmitting variant, its retransmission), none is forgotten.
func targetedMassTimeout(c *core.Ctx, n int, retransmit bool) {
	c.Eval(1)
	o := rigOpts{noRetransmit: !retransmit, rto: time.Second}
	r, err := newRig(o)
	if err != nil {
		c.Violate("newclient", "newclient", err.Error())

		return
	}
	txs := make([]*tx, n)
	for i := range txs {
		id := seqTID(int8(i % 3))
		id[3], id[4], id[5] = byte(i), byte(i>>8), 0x4D
		txs[i] = r.newTx("Start", id, 20+4*(i%5))
		if err := r.start(txs[i]); err != nil {
			c.Violate("start-failed", "start-failed", err.Error())

			return
		}
	}
	fail := func(kind, msg string) {
		c.Violate(kind, kind+":mass-timeout", map[string]interface{}{"transactions": n, "options": o.String(), "problem": msg, "ledger_tail": tailOf(r.describe(), 12)})
	}
	now := int64(0)
	ticks := 1
	if retransmit {
		ticks = r.maxAttempts() + 1
	}
	for k := 1; k <= ticks; k++ {
		now += int64(k+1) * int64(time.Second) // past the k-th deadline of every transaction
		r.tickAt(now)
		wantW := n * (1 + k)
		if k == ticks {
			wantW = n * ticks
		}
		if !retransmit {
			wantW = n
		}
		if got := r.conn.NWrites(); got != wantW {
			fail("write-count", fmt.Sprintf("after tick %d the connection has seen %d writes, the schedule of %d transactions says %d", k, got, n, wantW))

			return
		}
		for _, t := range txs {
			inv := t.invocations()
			if k < ticks && len(inv) != 0 {
				fail("termination", fmt.Sprintf("after tick %d transaction #%d has invocations %v", k, t.Seq, classesOf(inv)))

				return
			}
			if k == ticks && (len(inv) != 1 || inv[0].Class != "timeout") {
				fail("handler-never-invoked", fmt.Sprintf("after the tick past the last deadline transaction #%d has invocations %v; one timeout expected", t.Seq, classesOf(inv)))

				return
			}
		}
	}
	_ = r.close()
	for _, p := range r.judge(oracleSet{exactlyOnce: true, writes: true}, true) {
		fail(p.Kind, p.Detail)

		return
	}
	c.Count("targeted.mass_timeout_transactions", int64(n))
}

func c10Targeted(c *core.Ctx) {
	c.Section("targeted-do-outlasts-wall-clock", 2, func(i int64, _ *gen.Rand) {
		if c.Config != "rel" {
			return // 11 s of waiting: once is enough
		}
		targetedDoOutlastsWallClock(c, int(i))
		c.Distinct(uint64(i) | 33<<50)
	})
	c.Section("targeted-external-stop", 24, func(i int64, _ *gen.Rand) {
		targetedExternalStop(c, int(i))
		c.Distinct(uint64(i) | 16<<50)
	})
	c.Section("targeted-short-write", 4, func(i int64, _ *gen.Rand) {
		targetedShortWrite(c, int(i))
		c.Distinct(uint64(i) | 17<<50)
	})
	c.SectionSerial("targeted-restart-while-first-write-fails", 1, func(i int64, _ *gen.Rand) {
		targetedRestartWhileFirstWriteFails(c, int(c.N(24, 1000)))
		c.Distinct(uint64(i) | 23<<50)
	})
	c.Section("targeted-nested-collect-from-handler", 4, func(i int64, _ *gen.Rand) {
		targetedNestedCollectFromHandler(c, int(i))
		c.Distinct(uint64(i) | 24<<50)
	})
	c.Section("targeted-ticker-follows-clock", 3, func(i int64, _ *gen.Rand) {
		targetedTickerFollowsClock(c, int(i))
		c.Distinct(uint64(i) | 18<<50)
	})
	c.Section("targeted-mass-timeout", 10, func(i int64, _ *gen.Rand) {
		targetedMassTimeout(c, []int{99, 100, 101, 150, 250, 300, 1000, 101, 205, 330}[i], i >= 7)
		c.Distinct(uint64(i) | 14<<50)
	})
	c.SectionSerial("targeted-close-from-handler", 6, func(i int64, _ *gen.Rand) {
		targetedCloseFromHandler(c, int(i))
		c.Distinct(uint64(i) | 12<<50)
	})
	c.Section("targeted-response-vs-timeout", 16, func(i int64, _ *gen.Rand) {
		targetedResponseVsTimeout(c, int(c.N(1500, 40000)), c10Oracles)
		c.Distinct(uint64(i) | 13<<50)
	})
	c.SectionSerial("targeted-do-waits-for-handler", 4, func(i int64, _ *gen.Rand) {
		targetedDoWaitsForHandler(c, i%2 == 1)
		c.Distinct(uint64(i) | 9<<50)
	})
}

// targetedSimultaneousClose: many goroutines enter Close at the same instant, again and again: exactly one succeeds.
func targetedSimultaneousClose(c *core.Ctx, rounds int, o rigOpts) {
	for k := 0; k < rounds; k++ {
		r, err := newRig(o)
		if err != nil {
			c.Violate("newclient", "newclient", err.Error())

			return
		}
		_ = r.start(r.newTx("Start", seqTID(0), 24))
		const g = 6
		var ready, wg sync.WaitGroup
		var start int32
		results := make([]error, g)
		panics := make([]string, g)
		for i := 0; i < g; i++ {
			ready.Add(1)
			wg.Add(1)
			go func(i int) {
				defer wg.Done()
				defer func() {
					if p := recover(); p != nil {
						panics[i] = fmt.Sprint(p)
					}
				}()
				ready.Done()
				for atomic.LoadInt32(&start) == 0 { // spin barrier (yielding: the releasing goroutine needs a CPU too)
					runtime.Gosched()
				}
				results[i] = r.client.Close()
			}(i)
		}
		ready.Wait()
		atomic.StoreInt32(&start, 1)
		if o.noConnClose {
			// precondition under WithNoConnClose: the pending Read eventually returns
			go func() { time.Sleep(200 * time.Microsecond); r.conn.ReleaseRead() }()
		}
		wg.Wait()
		c.Eval(1)
		ok, closedErr := 0, 0
		for i := 0; i < g; i++ {
			switch {
			case panics[i] != "":
				c.Violate("close-panic", "close-panic", map[string]interface{}{"panic": panics[i], "options": o.String()})

				return
			case results[i] == nil:
				ok++
			case errors.Is(results[i], stun.ErrClientClosed):
				closedErr++
			}
		}
		n := atomic.LoadInt32(&r.conn.CloseCalls)
		wantConn := int32(1)
		if o.noConnClose {
			wantConn = 0
		}
		if ok != 1 || closedErr != g-1 || n != wantConn {
			c.Violate("simultaneous-close", "simultaneous-close", map[string]interface{}{
				"options": o.String(), "round": k, "calls_returning_nil": ok, "calls_returning_ErrClientClosed": closedErr, "connection_close_calls": n})

			return
		}
	}
	c.Count("targeted.simultaneous_close_rounds", int64(rounds))
}

// targetedNoConnCloseWaitsForReader: under WithNoConnClose the connection stays open, so Close has to wait until the
// pending Read returns (the precondition says it eventually does) - it must not return while the reader is still in Read.
func targetedNoConnCloseWaitsForReader(c *core.Ctx, defaultAgent bool) {
	c.Eval(1)
	o := rigOpts{noConnClose: true, defaultAgent: defaultAgent}
	r, err := newRig(o)
	if err != nil {
		c.Violate("newclient", "newclient", err.Error())

		return
	}
	if r.agent != nil {
		r.agent.OnClosed = nil // this scenario releases the Read itself
	}
	// the scenario is about a reader that sits in Read when Close is called (a reader that has not got that far yet sees
	// the close flag first and leaves at once, and Close rightly returns)
	if !waitFor(r.conn.ReaderWaiting) || atomic.LoadInt32(&openRigs) != 1 {
		c.Inconclusive(1) // no reader in Read yet, or another client of an earlier scenario is still around: the goroutine scan would not be about this client
		r.conn.ReleaseRead()
		_ = r.close()

		return
	}
	done := make(chan struct{})
	cr := &closeRec{CallStamp: r.w.Tick()}
	r.mu.Lock()
	r.closes = append(r.closes, cr)
	r.mu.Unlock()
	go func() {
		cr.Err = r.client.Close()
		cr.RetStamp = r.w.Tick()
		if atomic.CompareAndSwapInt32(&r.closedOnce, 0, 1) {
			atomic.AddInt32(&openRigs, -1)
		}
		atomic.StoreInt32(&cr.Returned, 1)
		close(done)
	}()
	early := false
	select {
	case <-done:
		early = true
	case <-time.After(time.Second): // generous: on a loaded machine a Close that does not wait still needs a moment to return
	}
	var alive []string
	if early {
		alive = goroutineLeaksNow()
	}
	r.conn.ReleaseRead()
	select {
	case <-done:
	case <-time.After(15 * time.Second):
		c.Violate("stuck", "stuck:Close", map[string]interface{}{"scenario": "WithNoConnClose: Close, then the Read returns", "options": o.String()})

		return
	}
	if early && len(alive) > 0 {
		c.Violate("close-returned-before-reader-exit", "close-returned-before-reader-exit", map[string]interface{}{
			"options": o.String(), "problem": "Close returned while the reader goroutine was still blocked in Read", "goroutines_alive_at_return": fmt.Sprint(alive)})
	}
	c.Count("targeted.noconnclose_waits_for_reader", 1)
}

// targetedCloseFromClosedHandler: transactions are in flight, Close is called, and the handler that is told "closed"
// reacts the usual way - it calls client.Close() (and Start) itself. The nested calls return ErrClientClosed at once.
func targetedCloseFromClosedHandler(c *core.Ctx, variant int) {
	c.Eval(1)
	o := rigOpts{noRetransmit: variant&1 == 1, defaultAgent: variant&2 != 0, noConnClose: variant&4 != 0, fallback: variant&8 != 0}
	r, err := newRig(o)
	if err != nil {
		c.Violate("newclient", "newclient", err.Error())

		return
	}
	var nestedClose, nestedStart, nestedIndicate atomic.Value
	var nestedCalls int32
	mk := func(id [12]byte) *tx {
		t := r.newTx("Start", id, 24)
		t.Raw = append([]byte(nil), t.msg.Raw...)
		t.CallStamp = r.w.Tick()
		h := r.handlerFor(t)
		t.RetErr = r.client.Start(t.msg, func(e stun.Event) {
			h(e)
			if classifyEvent(e) != "closed" {
				return
			}
			atomic.AddInt32(&nestedCalls, 1)
			nestedClose.Store(fmt.Sprint(r.client.Close()))
			nestedStart.Store(fmt.Sprint(r.client.Start(request(seqTID(2), 20, 1), func(stun.Event) {})))
			nestedIndicate.Store(fmt.Sprint(r.client.Indicate(request(seqTID(2), 20, 2))))
		})
		t.RetStamp = r.w.Tick()
		atomic.StoreInt32(&t.Returned, 1)

		return t
	}
	a, b := mk(seqTID(0)), mk(seqTID(1))
	done := make(chan error, 1)
	go func() { done <- r.close() }()
	select {
	case err := <-done:
		if msg := checkCloseResult(o, err); msg != "" {
			c.Violate("close-result", "close-result", map[string]interface{}{"options": o.String(), "problem": msg})
		}
	case <-time.After(15 * time.Second):
		c.Violate("stuck", "stuck:Close-from-closed-handler", map[string]interface{}{
			"options": o.String(), "scenario": "two transactions in flight; Close; the handler receiving the closed event calls client.Close()", "goroutines_inside_the_library": agentFrames(allStacks()), "ledger": r.describe()})

		return
	}
	want := stun.ErrClientClosed.Error()
	for name, v := range map[string]*atomic.Value{"Close": &nestedClose, "Start": &nestedStart, "Indicate": &nestedIndicate} {
		if got, _ := v.Load().(string); got != want {
			c.Violate("call-after-close", "call-after-close:nested-"+name, map[string]interface{}{"options": o.String(), "problem": fmt.Sprintf("%s called from the closed-event handler returned %q, expected ErrClientClosed", name, got)})
		}
	}
	for _, t := range []*tx{a, b} {
		if inv := t.invocations(); t.RetErr == nil && (len(inv) != 1 || inv[0].Class != "closed") {
			c.Violate("handler-never-invoked", "never-invoked:close-from-closed-handler", map[string]interface{}{"options": o.String(), "invocations": classesOf(inv)})
		}
	}
	for _, p := range r.judge(c15Oracles, true) {
		c.Violate(p.Kind, p.Key, map[string]interface{}{"options": o.String(), "problem": p.Detail})
	}
	for _, p := range r.closeAccounting() {
		c.Violate(p.Kind, p.Key, map[string]interface{}{"options": o.String(), "problem": p.Detail})
	}
	c.Count("targeted.close_from_closed_handler", 1)
	c.Count("targeted.nested_calls_from_closed_handlers", int64(atomic.LoadInt32(&nestedCalls)))
}

func c15Targeted(c *core.Ctx) {
	c.Section("targeted-close-while-start-writes", 4, func(i int64, _ *gen.Rand) {
		targetedCloseWhileStartWrites(c, int(i))
		c.Distinct(uint64(i) | 26<<50)
	})
	c.SectionSerial("targeted-closed-client-collected", 2, func(i int64, _ *gen.Rand) {
		targetedClosedClientCollected(c, int(i))
		c.Distinct(uint64(i) | 22<<50)
	})
	c.Section("targeted-noconnclose-timeout-reads", 2, func(i int64, _ *gen.Rand) {
		targetedNoConnCloseTimeoutReads(c, int(i))
		c.Distinct(uint64(i) | 19<<50)
	})
	c.Section("targeted-fallback-handler-calls-client", 4, func(i int64, _ *gen.Rand) {
		targetedFallbackHandlerCallsClient(c, int(i))
		c.Distinct(uint64(i) | 20<<50)
	})
	c.SectionSerial("targeted-close-from-closed-handler", 16, func(i int64, _ *gen.Rand) {
		targetedCloseFromClosedHandler(c, int(i))
		c.Distinct(uint64(i) | 15<<50)
	})
	c.Section("targeted-simultaneous-close", 16, func(i int64, _ *gen.Rand) {
		targetedSimultaneousClose(c, int(c.N(400, 6000)), rigOpts{noConnClose: i%2 == 1, defaultAgent: i/2%2 == 1})
		c.Distinct(uint64(i) | 10<<50)
	})
	c.SectionSerial("targeted-noconnclose-waits-for-reader", 2, func(i int64, _ *gen.Rand) {
		targetedNoConnCloseWaitsForReader(c, i == 1)
		c.Distinct(uint64(i) | 11<<50)
	})
	c.Section("targeted-close-during-collector-tick", 16, func(i int64, _ *gen.Rand) {
		targetedCloseDuringCollectorTick(c, int(i))
		c.Distinct(uint64(i) | 9<<50)
	})
}

// ---- scenarios added against the sixth wave of seeded changes ----

// targetedExternalStop: the application shares the agent with the client (WithAgent) and stops a transaction on it
// directly. Whatever the client makes of that event, the transaction's handler runs exactly once by the time the client
// is closed.
func targetedExternalStop(c *core.Ctx, variant int) {
	c.Eval(1)
	o := rigOpts{noRetransmit: variant&1 == 1, rto: time.Second, fallback: variant&2 != 0}
	r, err := newRig(o)
	if err != nil {
		c.Violate("newclient", "newclient", err.Error())

		return
	}
	a, b := r.newTx("Start", seqTID(0), 24), r.newTx("Start", seqTID(1), 28)
	_ = r.start(a)
	_ = r.start(b)
	var serr error
	if variant&4 == 0 {
		serr = r.agent.Inner.Stop(seqTID(0))
	} else {
		serr = r.agent.Inner.StopWithError(seqTID(0), stun.ErrTransactionStopped)
	}
	if serr != nil {
		c.Violate("external-stop", "external-stop", map[string]interface{}{"problem": "Agent.Stop of a transaction in flight returned " + serr.Error()})
	}
	switch variant / 8 % 3 {
	case 0: // nothing else happens until Close
	case 1:
		r.deliver(seqTID(0), response(seqTID(0), "after-external-stop"), true)
	default:
		now := int64(0)
		for k := 0; k <= r.maxAttempts()+1; k++ {
			now += int64(100 * time.Second)
			r.tickAt(now)
		}
	}
	_ = r.close()
	for _, t := range []*tx{a, b} {
		if inv := t.invocations(); len(inv) != 1 {
			c.Violate("handler-never-invoked", "exactly-once:external-stop", map[string]interface{}{"options": o.String(), "variant": variant,
				"problem": fmt.Sprintf("transaction #%d (stopped on the shared agent by the application: %v): handler invocations %v after Close returned, exactly one expected", t.Seq, t == a, classesOf(inv)), "ledger": r.describe()})

			return
		}
	}
	c.Count("targeted.external_stop", 1)
}

// targetedShortWrite: the connection reports one byte less than it was given, without an error. Whatever Start makes of
// it: if it returns an error the handler never runs, otherwise it runs exactly once.
func targetedShortWrite(c *core.Ctx, variant int) {
	c.Eval(1)
	o := rigOpts{noRetransmit: variant&1 == 1, rto: time.Second}
	r, err := newRig(o)
	if err != nil {
		c.Violate("newclient", "newclient", err.Error())

		return
	}
	kind := "Start"
	if variant&2 != 0 {
		kind = "Do"
	}
	t := r.newTx(kind, seqTID(0), 24+4*variant)
	r.conn.ShortNext(1)
	done := make(chan struct{})
	if kind == "Do" {
		pre := r.conn.NWrites()
		go func() { _ = r.do(t); close(done) }()
		waitFor(func() bool { return t.returned() || r.conn.NWrites() > pre })
	} else {
		_ = r.start(t)
		close(done)
	}
	earlyReturn := t.returned()
	earlyErr := t.RetErr
	r.deliver(seqTID(0), response(seqTID(0), "after-short-write"), true)
	now := int64(0)
	for k := 0; k <= r.maxAttempts()+1; k++ {
		now += int64(100 * time.Second)
		r.tickAt(now)
	}
	_ = r.close()
	if !waitFor(t.returned) {
		c.Violate("call-never-returned", "never-returned:"+kind+":short-write", map[string]interface{}{"options": o.String()})

		return
	}
	<-done
	inv := t.invocations()
	problem := ""
	switch {
	case t.RetErr != nil && len(inv) != 0:
		problem = fmt.Sprintf("%s returned %v, yet the handler was invoked: %v", kind, t.RetErr, classesOf(inv))
	case t.RetErr == nil && len(inv) != 1:
		problem = fmt.Sprintf("%s returned nil, handler invocations %v", kind, classesOf(inv))
	case kind == "Do" && earlyReturn && earlyErr == nil && len(inv) == 0:
		problem = "Do returned before its handler ran"
	}
	if problem != "" {
		c.Violate("start-error-but-handler-invoked", "short-write:"+kind, map[string]interface{}{"options": o.String(), "problem": problem, "ledger": r.describe()})

		return
	}
	// the write log: whatever the client makes of a short count, every datagram it hands to the connection is the request,
	// whole, and there are at most n+1 of them
	ws := r.conn.Writes()
	for k, wr := range ws {
		if !bytes.Equal(wr.Bytes, t.Raw) {
			c.Violate("write-differs", "write-differs:after-short-write", map[string]interface{}{"options": o.String(),
				"problem": fmt.Sprintf("write %d of %d carries %d bytes, the request has %d (first difference at byte %d)", k, len(ws), len(wr.Bytes), len(t.Raw), firstDiff(wr.Bytes, t.Raw)), "ledger": r.describe()})

			return
		}
	}
	if limit := r.maxAttempts() + 1; len(ws) > limit {
		c.Violate("too-many-writes", "too-many-writes:after-short-write", map[string]interface{}{"options": o.String(), "writes": len(ws), "limit": limit, "ledger": r.describe()})

		return
	}
	c.Count("targeted.short_write", 1)
}

// targetedTickerFollowsClock: the client is given a Clock and keeps the library's own ticker collector. The clock jumps
// an hour past every deadline: the ticker's next collections, which must read that clock, time the transaction out.
func targetedTickerFollowsClock(c *core.Ctx, variant int) {
	c.Eval(1)
	o := rigOpts{realCollector: true, noRetransmit: true, rto: time.Second}
	r, err := newRig(o)
	if err != nil {
		c.Violate("newclient", "newclient", err.Error())

		return
	}
	// the ticker collector reads the client's Clock on every tick: control points passed are the measure of ticks
	ticks := func(n int64) bool {
		base := r.w.CPCount()

		return waitFor(func() bool { return r.w.CPCount() >= base+n })
	}
	if variant == 1 {
		r.w.SetNow(-int64(40 * 365 * 24 * time.Hour)) // the clock is decades behind the wall clock ...
	}
	if variant == 2 {
		// the clock once showed a much later time (a wrong wall clock that was then corrected): "now" is what the clock
		// says now
		r.w.SetNow(int64(5 * time.Hour))
		ticks(20)
		r.w.SetNow(int64(time.Second))
		ticks(20)
	}
	t := r.newTx("Start", seqTID(0), 24)
	_ = r.start(t)
	if !ticks(60) {
		c.Inconclusive(1)
		_ = r.close()

		return
	}
	if inv := t.invocations(); len(inv) != 0 || r.conn.NWrites() != 1 {
		c.Violate("termination", "timeout-before-deadline:ticker-collector-with-clock", map[string]interface{}{"options": o.String(), "variant": variant,
			"problem": fmt.Sprintf("the client's clock has not reached the deadline (it stands still), yet after 60 collector ticks: handler invocations %v, %d writes", classesOf(inv), r.conn.NWrites()), "ledger": r.describe()})
		_ = r.close()

		return
	}
	r.w.SetNow(r.w.VNow() + int64(time.Hour)) // ... or ahead of it; either way it has now passed the deadline
	base := r.w.CPCount()
	ok := waitFor(func() bool { return len(t.invocations()) > 0 || r.w.CPCount() > base+600 })
	passed := r.w.CPCount() - base
	inv := t.invocations()
	off := atomic.LoadInt32(&r.agent.OffClock)
	_ = r.close()
	switch {
	case off > 0:
		ex, _ := r.agent.OffClockExample.Load().(string)
		c.Violate("collect-off-clock", "collect-off-clock", map[string]interface{}{"options": o.String(), "variant": variant,
			"problem": fmt.Sprintf("%d Collect calls of the ticker collector carried a time the client's Clock never showed (first: %s)", off, ex)})
	case len(inv) == 0 && passed > 600:
		c.Violate("handler-never-invoked", "never-invoked:ticker-collector-with-clock", map[string]interface{}{"options": o.String(), "variant": variant,
			"problem": fmt.Sprintf("the client's clock is an hour past the deadline and the ticker collector has read it some %d times since, no timeout was delivered", passed)})
	case !ok || len(inv) == 0:
		c.Inconclusive(1)
	default:
		if inv[0].Class != "timeout" {
			c.Violate("handler-never-invoked", "never-invoked:ticker-collector-with-clock", map[string]interface{}{"problem": "invocations " + fmt.Sprint(classesOf(inv))})
		}
		c.Count("targeted.ticker_follows_clock", 1)
	}
}

// targetedClockMovesInsideTick: two requests fall due in the same tick; writing the first retransmission takes ten RTOs
// of clock time. The second request's retransmission goes out at the later clock reading, and its next deadline counts
// from there: a further tick without any clock movement repeats nothing.
func targetedClockMovesInsideTick(c *core.Ctx, variant int) {
	c.Eval(1)
	rto := []time.Duration{time.Second, 300 * time.Millisecond, time.Hour}[variant%3]
	o := rigOpts{rto: rto}
	r, err := newRig(o)
	if err != nil {
		c.Violate("newclient", "newclient", err.Error())

		return
	}
	a, b := r.newTx("Start", seqTID(0), 24), r.newTx("Start", seqTID(1), 28)
	_ = r.start(a)
	_ = r.start(b)
	var moved int32
	r.conn.OnWrite = func(n int) {
		if n == 3 && atomic.CompareAndSwapInt32(&moved, 0, 1) { // the first retransmission of the tick
			r.w.SetNow(r.w.VNow() + 10*int64(rto))
		}
	}
	r.tickAt(int64(rto) + 1) // both first deadlines have passed
	if n := r.conn.NWrites(); n != 4 || atomic.LoadInt32(&moved) != 1 {
		c.Violate("write-count", "write-count:clock-moves-inside-tick", map[string]interface{}{"problem": fmt.Sprintf("%d writes after the first tick, 4 expected", n), "ledger": r.describe()})

		return
	}
	r.conn.OnWrite = nil
	for k := 0; k < 3; k++ {
		r.tickAt(r.w.VNow()) // the clock stands still
	}
	// the request retransmitted AFTER the clock moved was last transmitted at the later reading; its next deadline is 2*RTO
	// after that and cannot be due while the clock stands still. (The one retransmitted before the move is 10 RTOs old by
	// now and legitimately due.)
	late := b
	if ws := r.writesFor(a, r.conn.Writes()); len(ws) >= 2 && ws[1].VTime > int64(rto)+1 {
		late = a // the tick happened to serve the requests in the other order
	}
	if ws := r.writesFor(late, r.conn.Writes()); len(ws) != 2 {
		c.Violate("write-count", "early-retransmission:clock-moves-inside-tick", map[string]interface{}{
			"problem": fmt.Sprintf("the request retransmitted after the clock had moved was transmitted %d times in all; ticks without clock movement must not repeat it (2 expected)", len(ws)), "rto": rto.String(), "ledger": r.describe()})

		return
	}
	_ = r.close()
	c.Count("targeted.clock_moves_inside_tick", 1)
}

// targetedIdleReadErrors: the socket is idle and its read deadline expires over and over (hundreds of Reads return a
// timeout error, no data). The reader stays; the answer that finally arrives reaches its transaction.
func targetedIdleReadErrors(c *core.Ctx, n int) {
	c.Eval(1)
	o := rigOpts{fallback: true, noRetransmit: true, rto: time.Hour}
	r, err := newRig(o)
	if err != nil {
		c.Violate("newclient", "newclient", err.Error())

		return
	}
	t1 := r.newTx("Start", seqTID(0), 24)
	_ = r.start(t1)
	r.deliver(seqTID(0), response(seqTID(0), "before-idle"), true)
	r.conn.FailReads(n)
	if !waitFor(func() bool { return int(atomic.LoadInt32(&r.conn.ReadErrsServed)) >= n }) {
		c.Inconclusive(1)
		_ = r.close()

		return
	}
	t2 := r.newTx("Start", seqTID(1), 28)
	_ = r.start(t2)
	delivered := r.deliver(seqTID(1), response(seqTID(1), "after-idle"), true)
	inv := t2.invocations()
	_ = r.close()
	if !delivered || len(inv) != 1 || inv[0].Class != "response" {
		c.Violate("not-delivered", "not-delivered:after-read-errors", map[string]interface{}{"options": o.String(),
			"problem": fmt.Sprintf("after %d consecutive Reads that returned a timeout error and no data, the response to a new transaction was taken by the reader: %v; handler invocations: %v", n, delivered, classesOf(inv))})

		return
	}
	c.Count("targeted.idle_read_errors", int64(n))
}

// targetedNoConnCloseTimeoutReads: WithNoConnClose, and the owner wakes the reader the usual way: from Close on, every
// Read returns a timeout error. Read does return, so Close returns too, with the reader gone.
func targetedNoConnCloseTimeoutReads(c *core.Ctx, variant int) {
	c.Eval(1)
	o := rigOpts{noConnClose: true, fallback: variant&1 == 1}
	r, err := newRig(o)
	if err != nil {
		c.Violate("newclient", "newclient", err.Error())

		return
	}
	r.agent.OnClosed = r.conn.ReleaseReadWithTimeouts
	t := r.newTx("Start", seqTID(0), 24)
	_ = r.start(t)
	done := make(chan error, 1)
	go func() { done <- r.close() }()
	select {
	case <-done:
	case <-time.After(15 * time.Second):
		c.Violate("stuck", "stuck:Close:reads-return-timeouts", map[string]interface{}{"options": o.String(),
			"problem":                       "WithNoConnClose; from Close on every Read of the connection returns a timeout error (it does return); Close did not return",
			"goroutines_inside_the_library": agentFrames(allStacks())})
		r.conn.ReleaseRead()

		return
	}
	for _, p := range r.closeAccounting() {
		c.Violate(p.Kind, p.Key, map[string]interface{}{"options": o.String(), "problem": p.Detail})
	}
	c.Count("targeted.noconnclose_timeout_reads", 1)
}

// targetedFallbackHandlerCallsClient: the WithHandler handler is running (an unmatched message arrived) when another
// goroutine calls Close; the handler then uses the client (Indicate, Start without handler). Everybody returns.
func targetedFallbackHandlerCallsClient(c *core.Ctx, variant int) {
	c.Eval(1)
	var r *rig
	inHandler, goOn := make(chan struct{}), make(chan struct{})
	var once sync.Once
	var nested atomic.Value
	o := rigOpts{fallback: true, noConnClose: variant&1 == 1, noRetransmit: variant&2 != 0}
	// the rig's own fallback handler is replaced by one that calls back into the client
	w := sim.NewWorld()
	rr := &rig{w: w, opts: o, delivered: map[[12]byte][][]byte{}}
	rr.conn = sim.NewConn(w)
	rr.coll = &sim.Collector{W: w}
	rr.agent = sim.NewTapAgent(w)
	rr.agent.VirtualClock = true
	if o.noConnClose {
		rr.agent.OnClosed = rr.conn.ReleaseRead
	}
	options := []stun.ClientOption{stun.WithClock(sim.Clock{W: w}), stun.WithCollector(rr.coll), stun.WithAgent(rr.agent), stun.WithHandler(func(e stun.Event) {
		once.Do(func() {
			close(inHandler)
			<-goOn
			e1 := rr.client.Indicate(request(seqTID(5), 20, 1))
			e2 := rr.client.Start(request(seqTID(6), 20, 2), nil)
			nested.Store(fmt.Sprintf("Indicate: %v, Start(nil handler): %v", e1, e2))
		})
	})}
	if o.noConnClose {
		options = append(options, stun.WithNoConnClose())
	}
	cl, err := stun.NewClient(rr.conn, options...)
	if err != nil {
		c.Violate("newclient", "newclient", err.Error())

		return
	}
	runtime.SetFinalizer(cl, nil)
	rr.client = cl
	atomic.AddInt32(&openRigs, 1)
	r = rr
	go r.conn.Deliver(response(seqTID(9), "unmatched")) // nobody waits for this id: it goes to the fallback handler
	select {
	case <-inHandler:
	case <-time.After(10 * time.Second):
		c.Inconclusive(1)
		close(goOn)
		_ = r.close()

		return
	}
	done := make(chan error, 1)
	go func() { done <- r.close() }()
	// let Close get as far as it can while the handler is still running on the reader goroutine: it cannot return,
	// "when it returns the reader goroutine has exited"
	select {
	case <-done:
		c.Violate("close-returned-before-reader-exit", "close-returned-while-reader-in-handler", map[string]interface{}{"options": o.String(),
			"problem": "Close (called from another goroutine) returned while the reader goroutine was still inside the WithHandler handler", "goroutines_alive": fmt.Sprint(goroutineLeaksNow())})
		close(goOn)

		return
	case <-time.After(300 * time.Millisecond):
	}
	close(goOn)
	select {
	case <-done:
	case <-time.After(15 * time.Second):
		c.Violate("stuck", "stuck:Close:fallback-handler-uses-client", map[string]interface{}{"options": o.String(),
			"problem":                       "the WithHandler handler was running when Close was called from another goroutine; the handler then called Indicate and Start(msg, nil); nobody returned",
			"goroutines_inside_the_library": agentFrames(allStacks())})

		return
	}
	c.Count("targeted.fallback_handler_calls_client", 1)
	if v, _ := nested.Load().(string); v == "" {
		c.Violate("stuck", "stuck:fallback-handler", map[string]interface{}{"problem": "the handler's own calls did not return"})
	}
}

// targetedBuffersNotShared: client C abandons a retransmission (its agent refuses the re-registration); client A's
// retransmission is parked right before its Write; client B retransmits meanwhile. Every client writes its own request.
func targetedBuffersNotShared(c *core.Ctx, rounds int) {
	for k := 0; k < rounds; k++ {
		c.Eval(1)
		which := 0
		mk := func(roles bool) (*rig, *tx) {
			r, err := newRig(rigOpts{rto: time.Second, useRoles: roles})
			if err != nil {
				fatalHarness("newclient: " + err.Error())
			}
			id := seqTID(int8(which)) // every client has its own id, size and content
			id[5], id[6] = byte(k), byte(which)
			t := r.newTx("Start", id, 24+4*(k%7)+8*which)
			for j := 20; j < len(t.msg.Raw); j++ {
				t.msg.Raw[j] ^= byte(0x31 * (which + 1))
			}
			which++
			_ = r.start(t)

			return r, t
		}
		rc, _ := mk(false)
		ra, ta := mk(true)
		rb, tb := mk(false)
		// C: the retransmission is abandoned
		atomic.StoreInt32(&rc.agent.FailStarts, 1)
		rc.tickAt(int64(time.Second) + 1)
		// A: parked before the Write of its retransmission
		p := ra.w.AddPause("conn.Write.before", "ticker-A", 1)
		doneA := make(chan struct{})
		go func() { ra.w.SetRole("ticker-A"); ra.tickAt(int64(time.Second) + 1); close(doneA) }()
		select {
		case <-p.Parked:
		case <-time.After(10 * time.Second):
			c.Inconclusive(1)
			p.Release()
			<-doneA
			_, _, _ = rc.close(), ra.close(), rb.close()

			continue
		}
		// B: retransmits in full
		rb.tickAt(int64(time.Second) + 1)
		p.Release()
		<-doneA
		for name, pair := range map[string]struct {
			r *rig
			t *tx
		}{"A (parked before its Write)": {ra, ta}, "B": {rb, tb}} {
			for _, wr := range pair.r.conn.Writes() {
				if !bytes.Equal(wr.Bytes, pair.t.Raw) {
					c.Violate("write-differs", "write-differs:across-clients", map[string]interface{}{
						"problem": fmt.Sprintf("client %s wrote %d bytes with transaction id %x; its only request has id %x", name, len(wr.Bytes), clip(wr.Bytes[8:]), pair.t.ID[:4]), "round": k})
					_, _, _ = rc.close(), ra.close(), rb.close()

					return
				}
			}
		}
		_, _, _ = rc.close(), ra.close(), rb.close()
	}
	c.Count("targeted.buffers_not_shared_rounds", int64(rounds))
}

// targetedClosedClientCollected: a client that was closed properly is dropped and garbage collected (its finalizer, which
// the rigs otherwise switch off, is left in place): the connection has been closed exactly once and stays that way.
func targetedClosedClientCollected(c *core.Ctx, variant int) {
	c.Eval(1)
	conns := make([]*sim.Conn, 8)
	for k := range conns {
		w := sim.NewWorld()
		conn := sim.NewConn(w)
		conns[k] = conn
		// the library's own agent and collector (an injected collector that keeps the callback it was given would keep the
		// client reachable from itself, and an object on a cycle through its finalizer is never finalized)
		opts := []stun.ClientOption{stun.WithClock(sim.Clock{W: w})}
		if variant&1 == 1 {
			opts = append(opts, stun.WithNoRetransmit)
		}
		cl, err := stun.NewClient(conn, opts...)
		if err != nil {
			c.Violate("newclient", "newclient", err.Error())

			return
		}
		_ = cl.Start(request(seqTID(int8(k%3)), 24, byte(k)), func(stun.Event) {})
		if err := cl.Close(); err != nil {
			c.Violate("close-result", "close-result", map[string]interface{}{"problem": err.Error()})

			return
		}
	}
	for round := 0; round < 4; round++ {
		runtime.GC()
		time.Sleep(5 * time.Millisecond)
	}
	for k, conn := range conns {
		if n := atomic.LoadInt32(&conn.CloseCalls); n != 1 {
			c.Violate("conn-close-count", "conn-close-count:after-collection", map[string]interface{}{
				"problem": fmt.Sprintf("client %d was closed once by its owner and then dropped; after garbage collection its connection has seen %d Close calls", k, n)})

			return
		}
	}
	c.Count("targeted.closed_clients_collected", int64(len(conns)))
}

// targetedClosedClientsLeaveNothing: "leak-free" counted in heap objects. Thousands of clients are created (library agent
// and collector), used once and closed; after garbage collection the process holds as many objects as before them. What a
// closed client left armed in the runtime (a ticker that was not stopped stays in the timer heap of a process whose main
// module predates Go 1.23, with its channel) shows as growth proportional to the number of clients.
func targetedClosedClientsLeaveNothing(c *core.Ctx, variant int) {
	c.Eval(1)
	const n = 3000
	cycle := func() bool {
		for k := 0; k < n; k++ {
			w := sim.NewWorld()
			conn := sim.NewConn(w)
			opts := []stun.ClientOption{}
			if variant&1 == 1 {
				opts = append(opts, stun.WithNoRetransmit, stun.WithClock(sim.Clock{W: w}))
			}
			cl, err := stun.NewClient(conn, opts...)
			if err != nil {
				c.Violate("newclient", "newclient", err.Error())

				return false
			}
			if k%4 == 0 {
				_ = cl.Start(request(seqTID(int8(k%3)), 24, byte(k)), func(stun.Event) {})
			}
			if err := cl.Close(); err != nil {
				c.Violate("close-result", "close-result", map[string]interface{}{"problem": err.Error()})

				return false
			}
		}

		return true
	}
	objects := func() int64 {
		var ms runtime.MemStats
		for round := 0; round < 4; round++ {
			runtime.GC()
			time.Sleep(5 * time.Millisecond)
		}
		runtime.ReadMemStats(&ms)

		return int64(ms.HeapObjects)
	}
	if !cycle() { // warm-up: pools, goroutine stacks, the runtime's own tables
		return
	}
	var counts []int64
	counts = append(counts, objects())
	for round := 0; round < 3; round++ {
		if !cycle() {
			return
		}
		counts = append(counts, objects())
	}
	minGrowth := counts[1] - counts[0]
	for k := 2; k < len(counts); k++ {
		if g := counts[k] - counts[k-1]; g < minGrowth {
			minGrowth = g
		}
	}
	c.Max("targeted.heap_objects_growth_per_3000_closed_clients", minGrowth)
	if minGrowth >= n { // every one of three rounds of n clients left at least n objects behind
		c.Violate("leak", "leak:heap-objects-per-closed-client", map[string]interface{}{
			"problem":           "live heap objects after garbage collection grow with the number of clients that were created and closed",
			"clients_per_round": n, "live_objects_after_each_round": fmt.Sprint(counts), "variant": variant})
	}
	c.Count("targeted.closed_clients_counted_in_heap_objects", 4*n)
}

// targetedDoOutlastsWallClock: the life of a transaction is measured on the client's Clock. With a clock that stands still
// (a simulation between two steps, a collector that runs on demand) nothing times out, however much wall-clock time
// passes: a Do that is neither answered nor timed out has not returned after 10.6 s, and returns - after exactly one
// handler invocation - once the response arrives.
func targetedDoOutlastsWallClock(c *core.Ctx, variant int) {
	c.Eval(1)
	o := rigOpts{rto: time.Millisecond, noRetransmit: variant%2 == 1}
	r, err := newRig(o)
	if err != nil {
		c.Violate("newclient", "newclient", err.Error())

		return
	}
	id := seqTID(5)
	t := r.newTx("Do", id, 24)
	done := make(chan error, 1)
	go func() { done <- r.do(t) }()
	select {
	case err := <-done:
		c.Violate("do-returned-early", "do-returned-before-its-handler", map[string]interface{}{"options": o.String(), "ledger": r.describe(),
			"problem": fmt.Sprintf("Do returned %v at once although its transaction was neither answered nor timed out on the client's clock", err)})
		_ = r.close()

		return
	case <-time.After(10600 * time.Millisecond):
	}
	if len(t.invocations()) != 0 {
		c.Violate("invocations", "handler-invoked-while-clock-stood-still", map[string]interface{}{"options": o.String(), "ledger": r.describe()})
		_ = r.close()

		return
	}
	r.deliver(id, response(id, "late-but-in-time"), true)
	select {
	case <-done:
	case <-time.After(5 * time.Second):
		c.Violate("call-never-returned", "never-returned:Do", map[string]interface{}{"options": o.String(), "ledger": r.describe(), "problem": "Do did not return after the response was delivered"})
	}
	_ = r.close()
	for _, p := range r.judge(c10Oracles, true) {
		c.Violate(p.Kind, p.Key, map[string]interface{}{"options": o.String(), "scenario": "Do across 10.6 s of wall-clock time on a standing clock", "problem": p.Detail, "ledger": r.describe()})
	}
	c.Count("targeted.do_outlasts_wall_clock", 1)
}

// fixedClock is a client Clock that does not follow the wall clock (a simulation's clock, a coarse cached clock).
type fixedClock struct{ t time.Time }

func (f fixedClock) Now() time.Time { return f.t }

// framedUDP is the wrapper NewClient's documentation asks for when a socket is shared or framed: it embeds the socket and
// overrides Read and Write (4 bytes of framing in front of every datagram). Everything else - ReadFrom, RemoteAddr, the
// deadline setters - is promoted from the socket and talks to the RAW socket.
type framedUDP struct{ *net.UDPConn }

func (f framedUDP) Write(b []byte) (int, error) {
	n, err := f.UDPConn.Write(append([]byte{0xF0, 0x0D, byte(len(b) >> 8), byte(len(b))}, b...))
	if n >= 4 {
		n -= 4
	}

	return n, err
}

func (f framedUDP) Read(p []byte) (int, error) {
	buf := make([]byte, len(p)+4)
	n, err := f.UDPConn.Read(buf)
	if err != nil || n < 4 {
		return 0, err
	}

	return copy(p, buf[4:n]), nil
}

// targetedRealConnections: the client on real connections of the standard library (which have deadlines, addresses and
// the packet-connection methods), with a Clock that does not follow the wall clock. "Received" is what the Connection's
// Read returns: the response is delivered to the transaction, and what the handler sees is its decode.
//
//	variant 0: framed wrapper around a connected UDP socket, clock far behind the wall clock
//	variant 1: the same with the system clock
//	variant 2: one end of a net.Pipe, clock far behind
//	variant 3: one end of a net.Pipe, clock far ahead
func targetedRealConnections(c *core.Ctx, variant int) {
	c.Eval(1)
	var (
		conn   stun.Connection
		serve  func() // reads one request, answers it
		finish func()
		answer = make(chan []byte, 8)
	)
	respond := func(req []byte) []byte {
		if len(req) < 20 {
			return nil
		}
		var id [12]byte
		copy(id[:], req[8:20])
		resp := response(id, fmt.Sprintf("real-%d-%x", variant, id[:2]))
		answer <- resp

		return resp
	}
	switch variant {
	case 0, 1:
		srv, err := net.ListenUDP("udp", &net.UDPAddr{IP: net.IPv4(127, 0, 0, 1)})
		if err != nil {
			c.Inconclusive(1)

			return
		}
		cli, err := net.DialUDP("udp", nil, srv.LocalAddr().(*net.UDPAddr)) //nolint:forcetypeassert
		if err != nil {
			_ = srv.Close()
			c.Inconclusive(1)

			return
		}
		conn = framedUDP{cli}
		serve = func() {
			buf := make([]byte, 2048)
			_ = srv.SetReadDeadline(time.Now().Add(3 * time.Second))
			n, from, err := srv.ReadFromUDP(buf)
			if err != nil || n < 4 {
				return
			}
			if resp := respond(buf[4:n]); resp != nil {
				_, _ = srv.WriteToUDP(append([]byte{0xF0, 0x0D, byte(len(resp) >> 8), byte(len(resp))}, resp...), from)
			}
		}
		finish = func() { _ = srv.Close() }
	default:
		a, b := net.Pipe()
		conn = a
		serve = func() {
			buf := make([]byte, 2048)
			_ = b.SetReadDeadline(time.Now().Add(3 * time.Second))
			n, err := b.Read(buf)
			if err != nil {
				return
			}
			if resp := respond(buf[:n]); resp != nil {
				_ = b.SetWriteDeadline(time.Now().Add(3 * time.Second))
				_, _ = b.Write(resp)
			}
		}
		finish = func() { _ = b.Close() }
	}
	defer finish()
	// no retransmissions, and a timeout (on the clock of variant 1, the system's) far beyond the wait below
	opts := []stun.ClientOption{stun.WithNoRetransmit, stun.WithRTO(30 * time.Second)}
	switch variant {
	case 0, 2:
		opts = append(opts, stun.WithClock(fixedClock{time.Unix(1000000000, 0)}))
	case 3:
		opts = append(opts, stun.WithClock(fixedClock{time.Unix(4000000000, 0)}))
	}
	cl, err := stun.NewClient(conn, opts...)
	if err != nil {
		c.Violate("newclient", "newclient", err.Error())

		return
	}
	defer func() { _ = cl.Close() }()
	delivered := 0
	const attempts = 3 // a datagram may be lost, three in a row on the loopback interface are not
	for k := 0; k < attempts && delivered == 0; k++ {
		id := seqTID(int8(4 + k))
		got := make(chan stun.Event, 4)
		go serve()
		if err := cl.Start(request(id, 28, byte(k)), func(e stun.Event) {
			if e.Message != nil {
				cp := new(stun.Message)
				_ = e.Message.CloneTo(cp)
				e.Message = cp
			}
			got <- e
		}); err != nil {
			c.Violate("start-failed", "start-failed", map[string]interface{}{"variant": variant, "problem": err.Error()})

			return
		}
		select {
		case e := <-got:
			var want []byte
			select {
			case want = <-answer:
			default:
			}
			if errors.Is(e.Error, stun.ErrTransactionTimeOut) {
				continue // counted as not delivered
			}
			if e.Error != nil || e.Message == nil || e.TransactionID != id || !bytes.Equal(e.Message.Raw, want) {
				c.Violate("misrouted", "real-connection:wrong-event", map[string]interface{}{"variant": variant, "attempt": k,
					"problem": fmt.Sprintf("the handler got error=%v, a message of %d bytes; the peer answered with %d bytes through the connection's Read", e.Error, lenRaw(e.Message), len(want))})

				return
			}
			delivered++
		case <-time.After(4 * time.Second):
			select {
			case <-answer:
			default:
			}
		}
	}
	if delivered == 0 {
		c.Violate("lost-response", "real-connection:response-never-delivered", map[string]interface{}{"variant": variant,
			"problem": fmt.Sprintf("%d requests in a row were answered by the peer (through the Connection the client was given) and none of the responses reached its transaction", attempts)})

		return
	}
	c.Count("targeted.real_connections", 1)
}

func lenRaw(m *stun.Message) int {
	if m == nil {
		return -1
	}

	return len(m.Raw)
}

// targetedRestartWhileFirstWriteFails: Start(id) is parked right before its Write; the response arrives and is handled;
// the application starts id again (a fresh transaction object: the pools were just flushed by the garbage collector); then
// the first Start's write fails. The second transaction is nobody else's to release.
func targetedRestartWhileFirstWriteFails(c *core.Ctx, rounds int) {
	// one P: every goroutine shares one sync.Pool cache, so the completed transaction's object is the one handed out next
	defer runtime.GOMAXPROCS(runtime.GOMAXPROCS(1))
	for k := 0; k < rounds; k++ {
		c.Eval(1)
		if k%8 < 2 {
			runtime.GC()
			runtime.GC() // sync.Pool: two collections empty primary and victim caches, the next transactions are brand new objects
		}
		o := rigOpts{useRoles: true, rto: time.Second, noRetransmit: k%2 == 1}
		r, err := newRig(o)
		if err != nil {
			c.Violate("newclient", "newclient", err.Error())

			return
		}
		r.w.SetRole("driver")
		id := seqTID(0)
		id[4] = byte(k)
		first := r.newTx("Start", id, 24)
		p := r.w.AddPause("conn.Write.before", "starter", 1)
		firstDone := make(chan struct{})
		go func() { r.w.SetRole("starter"); _ = r.start(first); close(firstDone) }()
		select {
		case <-p.Parked:
		case <-time.After(10 * time.Second):
			c.Inconclusive(1)
			p.Release()
			<-firstDone
			_ = r.close()

			continue
		}
		r.deliver(id, response(id, fmt.Sprintf("first-%d", k)), true) // completes the first transaction: its handler runs
		// a number of other transactions come and go in between (the completed transaction's pooled object is recycled
		// that many times: 255, 256, 257 - a recycling counter of any narrow width comes round)
		cycles := []int{0, 0, 254, 255, 256, 257, 511, 512}[k%8]
		for j := 0; j < cycles; j++ {
			oid := seqTID(1)
			oid[5], oid[6], oid[7] = byte(j), byte(j>>8), byte(k)
			ot := r.newTx("Start", oid, 24)
			_ = r.start(ot)
			r.deliver(oid, response(oid, "in-between"), true)
		}
		if cycles > 0 {
			r.mu.Lock()
			r.txs = append(r.txs[:0], first) // keep the ledger small
			r.delivered = map[[12]byte][][]byte{}
			r.mu.Unlock()
		}
		second := r.newTx("Start", id, 28)
		if err := r.start(second); err != nil {
			c.Violate("start-failed", "start-failed:restart", map[string]interface{}{"problem": "restarting an id whose transaction has completed returned " + err.Error(), "ledger": r.describe()})
			p.Release()
			<-firstDone
			_ = r.close()

			return
		}
		r.conn.FailNext(1) // the parked write of the FIRST Start is the next write
		p.Release()
		<-firstDone
		r.deliver(id, response(id, fmt.Sprintf("second-%d", k)), true)
		_ = r.close()
		if inv := second.invocations(); len(inv) != 1 {
			c.Violate("handler-never-invoked", "never-invoked:restart-while-first-write-fails", map[string]interface{}{"options": o.String(), "round": k,
				"problem": fmt.Sprintf("the second transaction for the id: handler invocations %v after its response was delivered and the client closed; the first Start returned %v", classesOf(inv), first.RetErr), "ledger": r.describe()})

			return
		}
		if inv := first.invocations(); len(inv) != 1 || (first.RetErr != nil && len(inv) > 0) {
			c.Violate("start-error-but-handler-invoked", "restart-while-first-write-fails:first", map[string]interface{}{"options": o.String(), "round": k,
				"problem": fmt.Sprintf("the first Start returned %v, its handler invocations: %v", first.RetErr, classesOf(inv)), "ledger": r.describe()})

			return
		}
	}
	c.Count("targeted.restart_while_first_write_fails", int64(rounds))
}

// targetedNestedCollectFromHandler: three transactions time out in one tick; the first handler starts two more, moves the
// clock on and collects again (on the agent it shares with the client) before the outer tick has delivered the rest.
func targetedNestedCollectFromHandler(c *core.Ctx, variant int) {
	c.Eval(1)
	o := rigOpts{noRetransmit: variant&1 == 0, rto: time.Second}
	r, err := newRig(o)
	if err != nil {
		c.Violate("newclient", "newclient", err.Error())

		return
	}
	var nested int32
	var all []*tx
	var mu sync.Mutex
	var mk func(i int8) *tx
	mk = func(i int8) *tx {
		t := r.newTx("Start", seqTID(i), 24)
		t.Raw = append([]byte(nil), t.msg.Raw...)
		t.CallStamp = r.w.Tick()
		h := r.handlerFor(t)
		t.RetErr = r.client.Start(t.msg, func(e stun.Event) {
			h(e)
			if atomic.CompareAndSwapInt32(&nested, 0, 1) { // (not sync.Once: the nested collection re-enters this handler)
				d, e2 := mk(3), mk(4)
				mu.Lock()
				all = append(all, d, e2)
				mu.Unlock()
				r.w.SetNow(r.w.VNow() + int64(time.Hour))
				_ = r.agent.Collect(r.w.Now()) // a collection like the collector's, issued from inside the handler
			}
		})
		t.RetStamp = r.w.Tick()
		atomic.StoreInt32(&t.Returned, 1)

		return t
	}
	for i := int8(0); i < 3; i++ {
		all = append(all, mk(i))
	}
	now := int64(0)
	for k := 0; k <= r.maxAttempts()+1; k++ {
		now = r.w.VNow() + int64(100*time.Second)
		r.tickAt(now)
	}
	_ = r.close()
	mu.Lock()
	defer mu.Unlock()
	for _, t := range all {
		if inv := t.invocations(); t.RetErr == nil && len(inv) != 1 {
			c.Violate("handler-never-invoked", "exactly-once:nested-collect-from-handler", map[string]interface{}{"options": o.String(),
				"problem": fmt.Sprintf("transaction #%d: handler invocations %v after the client was closed, exactly one expected", t.Seq, classesOf(inv)), "ledger": r.describe()})

			return
		}
	}
	c.Count("targeted.nested_collect_from_handler", 1)
}

// targetedOverlappingRetransmissions: two requests of one client are retransmitted by two overlapping collections (Agent.
// Collect is documented as safe to call concurrently): the first one's Write is parked while the second one's
// retransmission runs in full. Each transmission carries its own request.
func targetedOverlappingRetransmissions(c *core.Ctx, variant int) {
	c.Eval(1)
	o := rigOpts{rto: time.Second, useRoles: true}
	r, err := newRig(o)
	if err != nil {
		c.Violate("newclient", "newclient", err.Error())

		return
	}
	r.w.SetRole("driver")
	size := 24 + 8*variant
	a := r.newTx("Start", seqTID(0), size)
	_ = r.start(a)
	r.w.SetNow(int64(500 * time.Millisecond))
	b := r.newTx("Start", seqTID(1), size) // same size, other content
	_ = r.start(b)
	p := r.w.AddPause("conn.Write.before", "collector-1", 1)
	r.w.SetNow(int64(1200 * time.Millisecond)) // only the first request is due
	done1 := make(chan struct{})
	go func() { r.w.SetRole("collector-1"); _ = r.agent.Collect(r.w.Now()); close(done1) }()
	select {
	case <-p.Parked:
	case <-time.After(10 * time.Second):
		c.Inconclusive(1)
		p.Release()
		<-done1
		_ = r.close()

		return
	}
	r.w.SetNow(int64(1700 * time.Millisecond)) // now the second one is due too
	_ = r.agent.Collect(r.w.Now())             // its retransmission runs to completion on this goroutine
	p.Release()
	<-done1
	for _, t := range []*tx{a, b} {
		ws := r.writesFor(t, r.conn.Writes())
		for k, wr := range ws {
			if !bytes.Equal(wr.Bytes, t.Raw) {
				c.Violate("write-differs", "write-differs:overlapping-retransmissions", map[string]interface{}{
					"problem": fmt.Sprintf("transmission %d of request #%d differs from the request as it was when Start was called (first difference at byte %d)", k, t.Seq, firstDiff(wr.Bytes, t.Raw)), "ledger": r.describe()})
				_ = r.close()

				return
			}
		}
		if len(ws) != 2 {
			c.Violate("write-count", "write-count:overlapping-retransmissions", map[string]interface{}{
				"problem": fmt.Sprintf("request #%d was transmitted %d times, the schedule says 2", t.Seq, len(ws)), "ledger": r.describe()})
			_ = r.close()

			return
		}
	}
	_ = r.close()
	c.Count("targeted.overlapping_retransmissions", 1)
}

// targetedStopsAndBudget: the application stops a transaction on the shared agent a few times along its schedule. However
// the client treats those events, the request is on the wire at most n+1 times.
func targetedStopsAndBudget(c *core.Ctx, variant int) {
	c.Eval(1)
	o := rigOpts{rto: time.Second}
	r, err := newRig(o)
	if err != nil {
		c.Violate("newclient", "newclient", err.Error())

		return
	}
	t := r.newTx("Start", seqTID(0), 24)
	_ = r.start(t)
	now := int64(0)
	stops := 0
	for k := 0; k < 40 && len(t.invocations()) == 0; k++ {
		if k%3 == variant%3 && stops < 2+variant {
			_ = r.agent.Inner.Stop(seqTID(0))
			stops++

			continue
		}
		now += int64(100 * time.Second)
		r.tickAt(now)
	}
	_ = r.close()
	ws := r.writesFor(t, r.conn.Writes())
	if limit := r.maxAttempts() + 1; len(ws) > limit {
		c.Violate("too-many-writes", "too-many-writes:external-stops", map[string]interface{}{"options": o.String(),
			"problem": fmt.Sprintf("the request was written %d times; with %d retransmissions allowed the limit is %d (the application stopped the transaction on the shared agent %d times along the way)", len(ws), r.maxAttempts(), limit, stops), "ledger": r.describe()})

		return
	}
	if inv := t.invocations(); len(inv) != 1 {
		c.Violate("handler-never-invoked", "exactly-once:stops-and-budget", map[string]interface{}{"invocations": classesOf(inv), "ledger": r.describe()})
	}
	c.Count("targeted.stops_and_budget", 1)
}

// targetedResponseDuringClose: Close has marked the client closed and is waiting inside the collector's Close; the
// transaction is still in flight and its response arrives. The handler gets that response (the decode of that datagram).
func targetedResponseDuringClose(c *core.Ctx, variant int) {
	c.Eval(1)
	o := rigOpts{useRoles: true, fallback: variant&1 == 1, noRetransmit: variant&2 != 0}
	r, err := newRig(o)
	if err != nil {
		c.Violate("newclient", "newclient", err.Error())

		return
	}
	r.w.SetRole("driver")
	t := r.newTx("Start", seqTID(0), 24)
	_ = r.start(t)
	p := r.w.AddPause("collector.Close.before", "closer", 1)
	done := make(chan struct{})
	go func() { r.w.SetRole("closer"); _ = r.close(); close(done) }()
	select {
	case <-p.Parked:
	case <-time.After(10 * time.Second):
		c.Inconclusive(1)
		p.Release()
		<-done

		return
	}
	resp := response(seqTID(0), fmt.Sprintf("during-close-%d", variant))
	taken := r.deliver(seqTID(0), resp, true)
	inv := t.invocations()
	p.Release()
	<-done
	if taken && (len(inv) != 1 || inv[0].Class != "response" || !bytes.Equal(inv[0].MsgRaw, resp)) {
		c.Violate("not-delivered", "not-delivered:response-during-close", map[string]interface{}{"options": o.String(),
			"problem": fmt.Sprintf("the response arrived while Close was still waiting for the collector (agent and connection open, transaction in flight); handler invocations: %v", classesOf(inv)), "ledger": r.describe()})

		return
	}
	c.Count("targeted.response_during_close", 1)
}

// targetedCloseWhileStartWrites: a Start is inside the connection's Write (which takes its time); Close is called. Close
// does not depend on that Write: it returns while the Write is still in progress.
func targetedCloseWhileStartWrites(c *core.Ctx, variant int) {
	c.Eval(1)
	o := rigOpts{useRoles: true, noConnClose: variant&1 == 1, noRetransmit: variant&2 != 0}
	r, err := newRig(o)
	if err != nil {
		c.Violate("newclient", "newclient", err.Error())

		return
	}
	r.w.SetRole("driver")
	t := r.newTx("Start", seqTID(0), 24)
	p := r.w.AddPause("conn.Write.before", "starter", 1)
	started := make(chan struct{})
	go func() { r.w.SetRole("starter"); _ = r.start(t); close(started) }()
	select {
	case <-p.Parked:
	case <-time.After(10 * time.Second):
		c.Inconclusive(1)
		p.Release()
		<-started
		_ = r.close()

		return
	}
	done := make(chan struct{})
	go func() { _ = r.close(); close(done) }()
	returnedWhileWriting := false
	select {
	case <-done:
		returnedWhileWriting = true
	case <-time.After(10 * time.Second):
	}
	p.Release()
	<-started
	if !returnedWhileWriting {
		select {
		case <-done:
			c.Violate("stuck", "close-waits-for-concurrent-write", map[string]interface{}{"options": o.String(),
				"problem": "Close did not return for 10 s while a concurrent Start was inside the connection's Write, and returned as soon as that Write was let go: Close depends on a Write that may never finish"})
		case <-time.After(15 * time.Second):
			c.Violate("stuck", "stuck:Close", map[string]interface{}{"options": o.String(), "goroutines_inside_the_library": agentFrames(allStacks())})
		}

		return
	}
	c.Count("targeted.close_while_start_writes", 1)
}

// ---- scenarios added against the eighth wave ----

// targetedSimultaneousStartSameID: several goroutines Start the same transaction id at the same instant, again and again.
// Exactly one Start succeeds, the others report that the transaction exists; the response reaches the winner's handler
// and nobody else.
func targetedSimultaneousStartSameID(c *core.Ctx, rounds int) {
	r, err := newRig(rigOpts{fallback: true, noRetransmit: true, rto: time.Hour})
	if err != nil {
		c.Violate("newclient", "newclient", err.Error())

		return
	}
	const g = 4
	for k := 0; k < rounds; k++ {
		id := seqTID(0)
		id[3], id[4], id[5] = byte(k), byte(k>>8), byte(k>>16)
		var start int32
		var wg sync.WaitGroup
		txs := make([]*tx, g)
		for i := range txs {
			txs[i] = r.newTx("Start", id, 24+4*i)
		}
		for i := 0; i < g; i++ {
			wg.Add(1)
			go func(i int) {
				defer wg.Done()
				for atomic.LoadInt32(&start) == 0 {
					runtime.Gosched()
				}
				_ = r.start(txs[i])
			}(i)
		}
		atomic.StoreInt32(&start, 1)
		wg.Wait()
		won := 0
		for _, t := range txs {
			if t.RetErr == nil {
				won++
			} else if !errors.Is(t.RetErr, stun.ErrTransactionExists) {
				c.Violate("start-failed", "start-failed:simultaneous-same-id", map[string]interface{}{"round": k, "err": t.RetErr.Error()})
				_ = r.close()

				return
			}
		}
		resp := response(id, fmt.Sprintf("same-id-%d", k))
		r.deliver(id, resp, true)
		invoked := 0
		for _, t := range txs {
			inv := t.invocations()
			if t.RetErr == nil && len(inv) == 1 && inv[0].Class == "response" && bytes.Equal(inv[0].MsgRaw, resp) {
				invoked++
			} else if len(inv) != 0 {
				invoked += 100
			}
		}
		c.Eval(1)
		if won != 1 || invoked != 1 {
			c.Violate("not-delivered", "simultaneous-start-same-id", map[string]interface{}{"round": k,
				"problem":     fmt.Sprintf("%d goroutines started one id at the same instant: %d Start calls returned nil (exactly one may); after the response, handlers that got it: %d (100s = invocations on a refused Start)", g, won, invoked),
				"ledger_tail": tailOf(r.describe(), 14)})
			_ = r.close()

			return
		}
		if k%64 == 63 {
			r.mu.Lock()
			r.txs, r.delivered, r.fallback = r.txs[:0], map[[12]byte][][]byte{}, r.fallback[:0]
			r.mu.Unlock()
		}
	}
	_ = r.close()
	c.Count("targeted.simultaneous_start_same_id_rounds", int64(rounds))
}

// targetedResponsesDuringRetransmittingTick: eight requests fall due in one tick; while the first one is being
// retransmitted (inside its Write) the responses to the other seven arrive. Those seven are still in flight for the
// client: each response reaches its handler.
func targetedResponsesDuringRetransmittingTick(c *core.Ctx, variant int) {
	c.Eval(1)
	o := rigOpts{rto: time.Second, fallback: variant&1 == 1}
	r, err := newRig(o)
	if err != nil {
		c.Violate("newclient", "newclient", err.Error())

		return
	}
	const n = 8
	txs := make([]*tx, n)
	for i := range txs {
		id := seqTID(int8(i % 3))
		id[6] = byte(i + 1)
		txs[i] = r.newTx("Start", id, 24+4*i)
		_ = r.start(txs[i])
	}
	var once int32
	resps := map[[12]byte][]byte{}
	r.conn.OnWrite = func(nw int) {
		if nw == n+1 && atomic.CompareAndSwapInt32(&once, 0, 1) { // the first retransmission of the tick
			first := r.conn.Writes()[nw-1].Bytes
			for _, t := range txs {
				if bytes.Equal(first[8:20], t.ID[:]) {
					continue // the one being retransmitted right now
				}
				resp := response(t.ID, fmt.Sprintf("during-tick-%x", t.ID[6]))
				resps[t.ID] = resp
				r.deliver(t.ID, resp, true)
			}
		}
	}
	r.tickAt(int64(time.Second) + 1)
	r.conn.OnWrite = nil
	got := 0
	for _, t := range txs {
		if resp, ok := resps[t.ID]; ok {
			inv := t.invocations()
			if len(inv) == 1 && inv[0].Class == "response" && bytes.Equal(inv[0].MsgRaw, resp) {
				got++
			}
		}
	}
	_ = r.close()
	if atomic.LoadInt32(&once) == 1 && got != len(resps) {
		c.Violate("not-delivered", "not-delivered:responses-during-retransmitting-tick", map[string]interface{}{"options": o.String(),
			"problem":     fmt.Sprintf("%d requests fell due in one tick; while the first was being retransmitted the responses to the other %d arrived; %d of them reached their handlers", n, len(resps), got),
			"ledger_tail": tailOf(r.describe(), 30)})

		return
	}
	c.Count("targeted.responses_during_retransmitting_tick", 1)
}
