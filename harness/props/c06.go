package props

import (
	"bytes"
	"fmt"
	"net"
	"runtime"
	"strings"
	"sync"
	"sync/atomic"

	"github.com/pion/stun/v3"
	"github.com/pion/stun/v3/verifharness/core"
	"github.com/pion/stun/v3/verifharness/gen"
	"github.com/pion/stun/v3/verifharness/ref"
)

// C06: typed attributes round-trip and use the RFC wire formats.
func init() { core.Register("C06", c06) }

type addrKind struct {
	name string
	typ  uint16
	xor  bool
	set  func(m *stun.Message, ip net.IP, port int, t uint16) error
	get  func(m *stun.Message, dst *net.IP, port *int, t uint16) error
}

func addrKinds() []addrKind {
	return []addrKind{
		{"XOR-MAPPED-ADDRESS", 0x0020, true,
			func(m *stun.Message, ip net.IP, port int, _ uint16) error {
				return stun.XORMappedAddress{IP: ip, Port: port}.AddTo(m)
			},
			func(m *stun.Message, dst *net.IP, port *int, _ uint16) error {
				a := stun.XORMappedAddress{IP: *dst}
				err := a.GetFrom(m)
				*dst, *port = a.IP, a.Port

				return err
			}},
		{"XORMappedAddress.AddToAs", 0, true,
			func(m *stun.Message, ip net.IP, port int, t uint16) error {
				return stun.XORMappedAddress{IP: ip, Port: port}.AddToAs(m, stun.AttrType(t))
			},
			func(m *stun.Message, dst *net.IP, port *int, t uint16) error {
				a := stun.XORMappedAddress{IP: *dst}
				err := a.GetFromAs(m, stun.AttrType(t))
				*dst, *port = a.IP, a.Port

				return err
			}},
		{"MAPPED-ADDRESS", 0x0001, false,
			func(m *stun.Message, ip net.IP, port int, _ uint16) error {
				return (&stun.MappedAddress{IP: ip, Port: port}).AddTo(m)
			},
			func(m *stun.Message, dst *net.IP, port *int, _ uint16) error {
				a := stun.MappedAddress{IP: *dst}
				err := a.GetFrom(m)
				*dst, *port = a.IP, a.Port

				return err
			}},
		{"MappedAddress.AddToAs", 0, false,
			func(m *stun.Message, ip net.IP, port int, t uint16) error {
				return (&stun.MappedAddress{IP: ip, Port: port}).AddToAs(m, stun.AttrType(t))
			},
			func(m *stun.Message, dst *net.IP, port *int, t uint16) error {
				a := stun.MappedAddress{IP: *dst}
				err := a.GetFromAs(m, stun.AttrType(t))
				*dst, *port = a.IP, a.Port

				return err
			}},
		// the setter taken as a method value from the server's long-lived address variable before the address of this
		// response is filled in (`add := addr.AddTo`, `defer addr.AddTo(m)`): it adds what the variable holds when it runs
		{"MAPPED-ADDRESS (setter bound before the fields were set)", 0x0001, false,
			func(m *stun.Message, ip net.IP, port int, _ uint16) error {
				a := stun.MappedAddress{IP: net.IP{9, 9, 9, 9}, Port: 9}
				add := a.AddTo
				a.IP, a.Port = ip, port

				return add(m)
			},
			func(m *stun.Message, dst *net.IP, port *int, _ uint16) error {
				a := stun.MappedAddress{IP: *dst}
				get := a.GetFrom
				err := get(m)
				*dst, *port = a.IP, a.Port

				return err
			}},
		{"MappedAddress.AddToAs (setter bound before the fields were set)", 0, false,
			func(m *stun.Message, ip net.IP, port int, t uint16) error {
				a := stun.MappedAddress{IP: net.IP{9, 9, 9, 9, 9, 9, 9, 9, 9, 9, 9, 9, 9, 9, 9, 9}, Port: 9}
				add := a.AddToAs
				a.IP, a.Port = ip, port

				return add(m, stun.AttrType(t))
			},
			func(m *stun.Message, dst *net.IP, port *int, t uint16) error {
				a := stun.MappedAddress{IP: *dst}
				get := a.GetFromAs
				err := get(m, stun.AttrType(t))
				*dst, *port = a.IP, a.Port

				return err
			}},
		{"ALTERNATE-SERVER", 0x8023, false,
			func(m *stun.Message, ip net.IP, port int, _ uint16) error {
				return (&stun.AlternateServer{IP: ip, Port: port}).AddTo(m)
			},
			func(m *stun.Message, dst *net.IP, port *int, _ uint16) error {
				a := stun.AlternateServer{IP: *dst}
				err := a.GetFrom(m)
				*dst, *port = a.IP, a.Port

				return err
			}},
		{"RESPONSE-ORIGIN", 0x802b, false,
			func(m *stun.Message, ip net.IP, port int, _ uint16) error {
				return (&stun.ResponseOrigin{IP: ip, Port: port}).AddTo(m)
			},
			func(m *stun.Message, dst *net.IP, port *int, _ uint16) error {
				a := stun.ResponseOrigin{IP: *dst}
				err := a.GetFrom(m)
				*dst, *port = a.IP, a.Port

				return err
			}},
		{"OTHER-ADDRESS", 0x802c, false,
			func(m *stun.Message, ip net.IP, port int, _ uint16) error {
				return (&stun.OtherAddress{IP: ip, Port: port}).AddTo(m)
			},
			func(m *stun.Message, dst *net.IP, port *int, _ uint16) error {
				a := stun.OtherAddress{IP: *dst}
				err := a.GetFrom(m)
				*dst, *port = a.IP, a.Port

				return err
			}},
	}
}

var c06AsTypes = []uint16{0x0012, 0x0016, 0x0020, 0x0001, 0x802b, 0x7e01, 0xfff0, 0x0004, 0x0005, 0x802c, 0x8023} //nolint:gochecknoglobals

func c06Addr(c *core.Ctx, r *gen.Rand, k addrKind, port int, fam int) {
	c.Eval(1)
	tid := r.TID()
	var ip net.IP
	var wire4 []byte // the address bytes expected on the wire
	switch fam {
	case 0:
		ip = net.IP(r.Bytes(4))
		wire4 = ip
	case 1:
		ip = net.IP(r.Bytes(16))
		if ip[10] == 0xff && ip[11] == 0xff {
			ip[0] |= 1 // keep it a genuine IPv6 address
		}
		wire4 = ip
	case 2:
		ip = make(net.IP, 16)
		ip[10], ip[11] = 0xff, 0xff
		copy(ip[12:], r.Bytes(4))
		wire4 = ip[12:]
	default:
		// near misses of the IPv4-mapped prefix ::ffff:0:0/96: genuine IPv6 addresses that differ from it in one byte
		ip = make(net.IP, 16)
		ip[10], ip[11] = 0xff, 0xff
		copy(ip[12:], r.Bytes(4))
		k := r.Intn(12)
		ip[k] ^= byte(1 + r.Intn(255))
		wire4 = ip
	}
	typ := k.typ
	if typ == 0 {
		typ = c06AsTypes[r.Intn(len(c06AsTypes))]
	}
	detail := func(msg string) map[string]interface{} {
		return map[string]interface{}{"attr": k.name, "type": typ, "ip": ip.String(), "iplen": len(ip), "port": port, "tid_hex": core.Hex(tid[:]), "problem": msg}
	}
	// library encoder
	m := new(stun.Message)
	fieldTID := r.Chance(1, 4)
	if fieldTID {
		// header written first (with another id), the transaction id then assigned to the field and encoded at the end
		m.TransactionID = r.TID()
		m.WriteHeader()
		m.TransactionID = tid
	} else {
		_ = m.Build(stun.BindingSuccess, stun.NewTransactionIDSetter(tid))
		if r.Bool() {
			m.Add(stun.AttrSoftware, r.Bytes(r.Intn(9)))
		}
		if r.Chance(1, 5) {
			// the message the attribute is added to was received: decoded in place from a buffer that holds more bytes
			// than the message. What is sent afterwards is the message, nothing else.
			m = &stun.Message{Raw: append(append([]byte(nil), m.Raw...), r.Bytes(1+r.Intn(40))...)}
			if err := m.Decode(); err != nil {
				fatalHarness("C06 re-decode: " + err.Error())
			}
		}
	}
	ipCopy := append(net.IP(nil), ip...)
	if err := k.set(m, ip, port, typ); err != nil {
		c.Violate("setter-error", "setter-error:"+k.name, detail(err.Error()))

		return
	}
	if !bytes.Equal(ip, ipCopy) {
		c.Violate("setter-mutated-input", "setter-mutated-input:"+k.name, detail("IP changed by AddTo"))
	}
	if fieldTID {
		m.Encode() // now the wire carries the assigned id; the address must have been XOR-ed with that one
	}
	var want []byte
	if k.xor {
		want = ref.EncXORAddr(wire4, port, tid)
	} else {
		want = ref.EncAddr(wire4, port)
	}
	rm, why := ref.Parse(m.Raw)
	if rm == nil {
		c.Violate("unparseable", "unparseable", detail(why))

		return
	}
	if len(m.Raw) != 20+rm.Length {
		c.Violate("wire-format", "wire-format:bytes-behind-the-message:"+k.name, detail(fmt.Sprintf("after the setter Raw has %d bytes, the message it holds has %d", len(m.Raw), 20+rm.Length)))

		return
	}
	last := rm.TLVs[len(rm.TLVs)-1]
	got := m.Raw[last.Off : last.Off+last.Len]
	if last.Wire != typ || !bytes.Equal(got, want) {
		d := detail("library bytes differ from the RFC encoding")
		d["lib_hex"], d["rfc_hex"] = core.Hex(got), core.Hex(want)
		c.Violate("wire-format", "wire-format:"+k.name, d)

		return
	}
	// independent decoder on the library's bytes
	var (
		rip   []byte
		rport int
		ok    bool
	)
	if k.xor {
		rip, rport, ok = ref.DecXORAddr(got, tid)
	} else {
		rip, rport, ok = ref.DecAddr(got)
	}
	if !ok || rport != port || !bytes.Equal(rip, wire4) {
		c.Violate("rfc-decoder", "rfc-decoder:"+k.name, detail("independent decoder reads another value"))

		return
	}
	// library decoder on the re-decoded library bytes and on reference-encoded bytes; destination reused across families
	dst := net.IP(nil)
	if r.Bool() {
		dst = make(net.IP, r.PickInt([]int{0, 4, 16}), 16)
	}
	refWire := ref.Encode(0x0101, tid, []ref.Attr{{Type: 0x8022, Value: []byte("x")}, {Type: typ, Value: want}})
	for pass, wire := range [][]byte{m.Raw, refWire} {
		dec := new(stun.Message)
		if err := stun.Decode(wire, dec); err != nil {
			c.Violate("redecode", "redecode", detail(err.Error()))

			return
		}
		var gport int
		if err := k.get(dec, &dst, &gport, compat(typ)); err != nil {
			c.Violate("getter-error", "getter-error:"+k.name, detail(fmt.Sprintf("pass %d: %v", pass, err)))

			return
		}
		if gport != port || !dst.Equal(ip) || len(dst) != len(wire4) {
			c.Violate("roundtrip", "roundtrip:"+k.name, detail(fmt.Sprintf("pass %d: read back %v:%d (len %d)", pass, dst, gport, len(dst))))

			return
		}
	}
	if r.Chance(1, 4) {
		// one receiver (fresh at first) carried over three reads: message A, another message B, then A again - A's
		// value is what it was, and A's bytes were not touched by reading B
		decA, decB := new(stun.Message), new(stun.Message)
		_ = stun.Decode(refWire, decA)
		other := r.Bytes(len(wire4))
		var wantB []byte
		if k.xor {
			wantB = ref.EncXORAddr(other, port^0x5555, tid)
		} else {
			wantB = ref.EncAddr(other, port^0x5555)
		}
		_ = stun.Decode(ref.Encode(0x0101, tid, []ref.Attr{{Type: typ, Value: wantB}}), decB)
		var rcv net.IP
		var p1, p2, p3 int
		e1 := k.get(decA, &rcv, &p1, compat(typ))
		e2 := k.get(decB, &rcv, &p2, compat(typ))
		rawAfterB := append([]byte(nil), decA.Raw...)
		e3 := k.get(decA, &rcv, &p3, compat(typ))
		c.Count("receivers_carried_over_three_reads", 1)
		switch {
		case e1 != nil || e2 != nil || e3 != nil:
			c.Violate("getter-error", "getter-error:"+k.name, detail(fmt.Sprintf("A, B, A with one receiver: %v / %v / %v", e1, e2, e3)))
		case !bytes.Equal(rawAfterB, refWire):
			c.Violate("getter-changed-earlier-message", "getter-changed-earlier-message:"+k.name, detail("reading message B through the receiver that had read message A changed A's raw bytes"))
		case p3 != port || !rcv.Equal(ip):
			c.Violate("roundtrip", "roundtrip:"+k.name, detail(fmt.Sprintf("A, B, A with one receiver: the second read of A gives %v:%d", rcv, p3)))
		}
	}
}

type textKind struct {
	name  string
	typ   uint16
	limit int
	set   func(m *stun.Message, v []byte) error
	get   func(m *stun.Message) ([]byte, error)
}

func textKinds() []textKind {
	return []textKind{
		{"USERNAME", 0x0006, 513, func(m *stun.Message, v []byte) error { return stun.Username(v).AddTo(m) },
			func(m *stun.Message) ([]byte, error) { var u stun.Username; err := u.GetFrom(m); return u, err }},
		{"REALM", 0x0014, 763, func(m *stun.Message, v []byte) error { return stun.Realm(v).AddTo(m) },
			func(m *stun.Message) ([]byte, error) { var u stun.Realm; err := u.GetFrom(m); return u, err }},
		{"NONCE", 0x0015, 763, func(m *stun.Message, v []byte) error { return stun.Nonce(v).AddTo(m) },
			func(m *stun.Message) ([]byte, error) { var u stun.Nonce; err := u.GetFrom(m); return u, err }},
		{"SOFTWARE", 0x8022, 763, func(m *stun.Message, v []byte) error { return stun.Software(v).AddTo(m) },
			func(m *stun.Message) ([]byte, error) { var u stun.Software; err := u.GetFrom(m); return u, err }},
	}
}

func c06(c *core.Ctx) {
	selfCheckOracles()
	// What a value looks like on the wire does not depend on which message was the first in the process to carry it, nor
	// on what became of that message: each variant is the first thing its process does with the library.
	c.SectionFirst("first-use-then-reuse", 3, func(i int64, r *gen.Rand) {
		var keep []*stun.Message
		for code := 300; code < 700; code++ {
			m1 := &stun.Message{Raw: make([]byte, 0, 2048)} // a long-lived message object: room for everything below
			_ = m1.Build(stun.BindingError, stun.NewTransactionIDSetter(r.TID()))
			if i == 1 {
				m1 = stun.New() // the pre-allocated flavour
				m1.Type = stun.BindingError
				m1.WriteHeader()
			}
			if err := stun.ErrorCode(code).AddTo(m1); err != nil {
				continue
			}
			rm, _ := ref.Parse(m1.Raw)
			if rm == nil || len(rm.TLVs) != 1 {
				c.Violate("wire-format", "wire-format:ErrorCode-first-use", map[string]interface{}{"code": code, "problem": "the first message of the process to carry this code is not one ERROR-CODE attribute", "raw_hex": core.Hex(m1.Raw)})

				return
			}
			first := append([]byte(nil), m1.Raw[rm.TLVs[0].Off:rm.TLVs[0].Off+rm.TLVs[0].Len]...)
			// the first message goes on to other uses (a pooled server message)
			switch i {
			case 0, 1:
				m1.Reset()
				_ = m1.Build(stun.BindingRequest, stun.NewTransactionIDSetter(r.TID()), stun.Nonce(bytes.Repeat([]byte{0xEE}, 96)))
			case 2:
				_ = stun.Decode(ref.Encode(0x0001, r.TID(), []ref.Attr{{Type: 0x0015, Value: bytes.Repeat([]byte{0xEE}, 96)}}), m1)
			}
			keep = append(keep, m1)
			for round := 0; round < 2; round++ {
				m2 := new(stun.Message)
				_ = m2.Build(stun.BindingError, stun.NewTransactionIDSetter(r.TID()))
				if err := stun.ErrorCode(code).AddTo(m2); err != nil {
					c.Violate("wire-format", "wire-format:ErrorCode-first-use", map[string]interface{}{"code": code, "problem": "accepted for the first message, refused for a later one", "err": err.Error()})

					return
				}
				c.Eval(1)
				rm2, _ := ref.Parse(m2.Raw)
				var got []byte
				if rm2 != nil && len(rm2.TLVs) == 1 {
					got = m2.Raw[rm2.TLVs[0].Off : rm2.TLVs[0].Off+rm2.TLVs[0].Len]
				}
				gc, _, ok := ref.DecErrorCode(got)
				if !ok || gc != code || !bytes.Equal(got, first) {
					c.Violate("wire-format", "wire-format:ErrorCode-first-use", map[string]interface{}{"code": code, "variant": i,
						"problem":           "ERROR-CODE written for this code after the first message that carried it was reused differs from what that first message got",
						"first_message_hex": core.Hex(first), "later_message_hex": core.Hex(got)})

					return
				}
			}
		}
		c.Count("codes_first_used_then_reused", int64(len(keep)))
		runtime.KeepAlive(keep)
	})
	kinds := addrKinds()
	// (1) every port, three address shapes, every address attribute
	c.Section("addresses", 256, func(i int64, r *gen.Rand) {
		for lo := 0; lo < 256; lo++ {
			port := int(i)<<8 | lo
			for fam := 0; fam < 4; fam++ {
				for _, k := range kinds {
					c06Addr(c, r, k, port, fam)
				}
			}
			c.Distinct(uint64(port) | 1<<40)
		}
		if i == 3 {
			c.Sample(map[string]interface{}{"section": "addresses", "ports": "768..1023", "families": "IPv4, IPv6, IPv4-mapped IPv6, one-byte near misses of the mapped prefix", "attributes": len(kinds)})
		}
	})
	c.MarkExhaustive("ports")
	// (1b) extra random transaction ids / addresses
	c.Section("addresses-random", c.N(2000, 3000000), func(_ int64, r *gen.Rand) {
		for _, k := range kinds {
			c06Addr(c, r, k, r.Intn(65536), r.Intn(4))
		}
		c.Distinct(r.U64())
	})
	// (1c) XOR addresses encoded and decoded by several goroutines at once, each on its own messages and transaction ids
	c.Section("concurrent-xor-addresses", c.N(30, 3000), func(i int64, _ *gen.Rand) {
		const g = 8
		var wg sync.WaitGroup
		var bad atomic.Value
		for w := 0; w < g; w++ {
			wg.Add(1)
			rk := gen.Derive(c.Seed, uint64(i), uint64(w), 0xC06C)
			go func() {
				defer wg.Done()
				for n := 0; n < 200; n++ {
					tid := rk.TID()
					ip := net.IP(rk.Bytes(4 + 12*(n%2)))
					if len(ip) == 16 && ip[10] == 0xff && ip[11] == 0xff {
						ip[0] |= 1
					}
					port := rk.Intn(65536)
					m := new(stun.Message)
					_ = m.Build(stun.BindingSuccess, stun.NewTransactionIDSetter(tid))
					if err := (&stun.XORMappedAddress{IP: ip, Port: port}).AddTo(m); err != nil {
						bad.Store(err.Error())

						return
					}
					want := ref.EncXORAddr(ip, port, tid)
					if got := m.Raw[24:]; !bytes.Equal(got, want) {
						bad.Store(fmt.Sprintf("XOR-MAPPED-ADDRESS of %v:%d under id %x encoded as %x, RFC 5389 says %x", ip, port, tid, got, want))

						return
					}
					dec := new(stun.Message)
					var back stun.XORMappedAddress
					if err := stun.Decode(m.Raw, dec); err != nil || back.GetFrom(dec) != nil || !back.IP.Equal(ip) || back.Port != port {
						bad.Store(fmt.Sprintf("XOR-MAPPED-ADDRESS of %v:%d under id %x read back as %v:%d", ip, port, tid, back.IP, back.Port))

						return
					}
				}
			}()
		}
		wg.Wait()
		c.Eval(g * 200)
		c.Count("concurrent_xor_round_trips", g*200)
		if v, _ := bad.Load().(string); v != "" {
			c.Violate("concurrent-mismatch", "concurrent-mismatch:XOR-MAPPED-ADDRESS", map[string]interface{}{"goroutines": g, "problem": v})
		}
		c.Distinct(uint64(i) | 7<<50)
	})
	// (2) text attributes: every length up to the limit, and limit+1
	for _, tk := range textKinds() {
		tk := tk
		c.Section("text-"+tk.name, int64(2*(tk.limit+2)), func(i int64, r *gen.Rand) {
			c.Eval(1)
			n := int(i) % (tk.limit + 2)
			second := int(i) >= tk.limit+2
			v := r.Bytes(n)
			m := new(stun.Message)
			detail := map[string]interface{}{"attr": tk.name, "length": n}
			if second {
				// second pass over every length: content that means something to some STUN dialect (it is still just the
				// value), in a message built in a caller-supplied buffer whose capacity ends inside or right at the
				// attribute (pooled packet buffers are not multiples of 8)
				word := c06Words[r.Intn(len(c06Words))]
				switch r.Intn(3) {
				case 0:
					copy(v, word)
				case 1:
					if n >= len(word) {
						copy(v[n-len(word):], word)
					}
				default:
					for k := 0; k < n; k++ {
						v[k] = word[k%len(word)]
					}
				}
				capacity := 20 + 4 + n + r.Intn(5) - 1
				if r.Chance(1, 4) {
					capacity = 20 + r.Intn(4+n+8)
				}
				if capacity < 0 {
					capacity = 0
				}
				m.Raw = make([]byte, 0, capacity)
				detail["raw_capacity"] = capacity
				detail["value_hex"] = core.Hex(v)
			}
			_ = m.Build(stun.BindingRequest, stun.NewTransactionIDSetter(r.TID()))
			err := tk.set(m, v)
			if n > tk.limit {
				if err == nil {
					c.Violate("limit", "limit:"+tk.name, detail)
				}

				return
			}
			c.Distinct(uint64(n) | uint64(tk.typ)<<32 | uint64(i/int64(tk.limit+2))<<48)
			if err != nil {
				detail["err"] = err.Error()
				c.Violate("setter-error", "setter-error:"+tk.name, detail)

				return
			}
			rm, _ := ref.Parse(m.Raw)
			if rm == nil || len(rm.TLVs) != 1 || rm.TLVs[0].Wire != tk.typ || !bytes.Equal(m.Raw[rm.TLVs[0].Off:rm.TLVs[0].Off+rm.TLVs[0].Len], v) {
				c.Violate("wire-format", "wire-format:"+tk.name, detail)

				return
			}
			if n > 0 && int(i)%7 == 0 {
				// a value read earlier and kept by the application stays what it was when the same variable reads another message
				w := r.Bytes(1 + r.Intn(tk.limit))
				d1, d2 := new(stun.Message), new(stun.Message)
				_ = stun.Decode(ref.Encode(0x0001, [12]byte{5}, []ref.Attr{{Type: tk.typ, Value: v}}), d1)
				_ = stun.Decode(ref.Encode(0x0001, [12]byte{6}, []ref.Attr{{Type: tk.typ, Value: w}}), d2)
				var u stun.TextAttribute
				e1 := u.GetFromAs(d1, stun.AttrType(tk.typ))
				first := u
				// the Go string made from the value is a string: it never changes, whatever happens to the message
				var str string
				switch tk.typ {
				case 0x0006:
					str = stun.Username(u).String()
				case 0x0014:
					str = stun.Realm(u).String()
				case 0x0015:
					str = stun.Nonce(u).String()
				case 0x8022:
					str = stun.Software(u).String()
				default:
					str = stun.Username(u).String()
				}
				strCopy := strings.Clone(str)
				e2 := u.GetFromAs(d2, stun.AttrType(tk.typ))
				keep := append([]byte(nil), d1.Raw...)
				_, _ = d1.Write(ref.Encode(0x0001, [12]byte{7}, []ref.Attr{{Type: tk.typ, Value: bytes.Repeat([]byte{'Z'}, n)}})) // d1 is reused for the next datagram
				if str != strCopy || str != string(v) {
					detail["problem"] = fmt.Sprintf("the string obtained from the value read %q when it was made and reads %q after the message was reused", clipS(strCopy), clipS(str))
					c.Violate("roundtrip", "roundtrip:string-changed:"+tk.name, detail)

					return
				}
				_, _ = d1.Write(keep)
				first = first[:len(first):len(first)]
				c.Count("kept_text_values_checked", 1)
				if e1 != nil || e2 != nil || !bytes.Equal(first, v) || !bytes.Equal(u, w) {
					detail["problem"] = fmt.Sprintf("value kept from the first read is now %d bytes %x..., it was %d bytes %x...", len(first), clip(first), len(v), clip(v))
					c.Violate("roundtrip", "roundtrip:kept-value:"+tk.name, detail)

					return
				}
			}
			for _, wire := range [][]byte{m.Raw, ref.Encode(0x0001, [12]byte{1}, []ref.Attr{{Type: tk.typ, Value: v}})} {
				dec := new(stun.Message)
				if derr := stun.Decode(wire, dec); derr != nil {
					c.Violate("redecode", "redecode", detail)

					return
				}
				got, gerr := tk.get(dec)
				if gerr != nil || !bytes.Equal(got, v) {
					c.Violate("roundtrip", "roundtrip:"+tk.name, detail)

					return
				}
			}
		})
		c.MarkExhaustive("text-" + tk.name)
	}
	// (3) ERROR-CODE: every code 300..699 with reasons of several lengths
	c.Section("error-codes", 400, func(i int64, r *gen.Rand) {
		code := 300 + int(i)
		for ri, n := range []int{0, 1, 2, 3, r.Intn(128), r.Intn(764), 763, 1 + r.Intn(40), 4, -1} {
			c.Eval(1)
			var reason []byte // n == -1: a nil reason is the empty reason
			if n >= 0 {
				reason = r.Bytes(n)
			} else {
				n = 0
			}
			if ri == 7 || ri == 8 {
				reason[n-1] = 0 // a reason whose last octet is NUL is still part of the value
			}
			detail := map[string]interface{}{"code": code, "reason_len": n}
			m := new(stun.Message)
			_ = m.Build(stun.BindingError, stun.NewTransactionIDSetter(r.TID()))
			if err := (stun.ErrorCodeAttribute{Code: stun.ErrorCode(code), Reason: reason}).AddTo(m); err != nil {
				detail["err"] = err.Error()
				c.Violate("setter-error", "setter-error:ERROR-CODE", detail)

				return
			}
			want := ref.EncErrorCode(code, reason)
			rm, _ := ref.Parse(m.Raw)
			if rm == nil || len(rm.TLVs) != 1 || rm.TLVs[0].Wire != 0x0009 || !bytes.Equal(m.Raw[rm.TLVs[0].Off:rm.TLVs[0].Off+rm.TLVs[0].Len], want) {
				detail["raw_hex"] = core.Hex(m.Raw)
				c.Violate("wire-format", "wire-format:ERROR-CODE", detail)

				return
			}
			rc, rr, ok := ref.DecErrorCode(m.Raw[rm.TLVs[0].Off : rm.TLVs[0].Off+rm.TLVs[0].Len])
			if !ok || rc != code || !bytes.Equal(rr, reason) {
				c.Violate("rfc-decoder", "rfc-decoder:ERROR-CODE", detail)

				return
			}
			for _, wire := range [][]byte{m.Raw, ref.Encode(0x0111, [12]byte{2}, []ref.Attr{{Type: 0x0009, Value: want}})} {
				dec := new(stun.Message)
				if derr := stun.Decode(wire, dec); derr != nil {
					c.Violate("redecode", "redecode", detail)

					return
				}
				var ec stun.ErrorCodeAttribute
				if gerr := ec.GetFrom(dec); gerr != nil || int(ec.Code) != code || !bytes.Equal(ec.Reason, reason) {
					detail["got_code"] = int(ec.Code)
					c.Violate("roundtrip", "roundtrip:ERROR-CODE", detail)

					return
				}
			}
		}
		// the library's own reason phrase for this code (if it has one) is the same before and after an application
		// read it from a message and edited what it got, in place
		phrase := func() ([]byte, bool) {
			m := new(stun.Message)
			_ = m.Build(stun.BindingError, stun.NewTransactionIDSetter(r.TID()))
			if err := stun.ErrorCode(code).AddTo(m); err != nil {
				return nil, false
			}
			rm, _ := ref.Parse(m.Raw)
			if rm == nil || len(rm.TLVs) != 1 {
				return nil, false
			}
			_, rr, ok := ref.DecErrorCode(m.Raw[rm.TLVs[0].Off : rm.TLVs[0].Off+rm.TLVs[0].Len])

			return append([]byte(nil), rr...), ok
		}
		if before, ok := phrase(); ok {
			dec := new(stun.Message)
			_ = stun.Decode(ref.Encode(0x0111, [12]byte{4}, []ref.Attr{{Type: 0x0009, Value: ref.EncErrorCode(code, before)}}), dec)
			var ec stun.ErrorCodeAttribute
			if err := ec.GetFrom(dec); err == nil {
				for k := range ec.Reason {
					ec.Reason[k] ^= 0x20 // what the application got is the application's
				}
			}
			after, ok2 := phrase()
			c.Count("default_phrases_checked", 1)
			if !ok2 || !bytes.Equal(before, after) {
				c.Violate("wire-format", "wire-format:ErrorCode-default-phrase", map[string]interface{}{"code": code,
					"problem": "the reason ErrorCode.AddTo writes changed after an application edited the Reason it had read from a message", "before": string(before), "after": string(after)})

				return
			}
			pinned := map[int]string{300: "Try Alternate", 400: "Bad Request", 401: "Unauthorized", 420: "Unknown Attribute", 438: "Stale Nonce", 500: "Server Error"}
			if want, has := pinned[code]; has && string(before) != want {
				c.Violate("wire-format", "wire-format:ErrorCode-default-phrase", map[string]interface{}{"code": code, "written": string(before), "rfc_phrase": want})

				return
			}
		}
		c.Distinct(uint64(code) | 2<<40)
	})
	c.MarkExhaustive("error-codes")
	// (4) UNKNOWN-ATTRIBUTES: lists of 0..64 types
	c.Section("unknown-attributes", c.N(65*12, 65*5000), func(i int64, r *gen.Rand) {
		c.Eval(1)
		n := int(i % 65)
		if i%65 == 64 {
			// long lists too: the count is limited by the 16-bit length field only (2 bytes per entry)
			long := []int{255, 256, 257, 4095, 4096, 8191, 8192, 16383, 16384, 16385, 20000, 32760}
			n = long[int(i/65)%len(long)]
		}
		types := make([]uint16, n)
		ua := make(stun.UnknownAttributes, n)
		for k := range types {
			types[k] = r.AttrType()
			if k > 0 && i%3 == 1 && r.Bool() {
				types[k] = types[k-1] // repeated entries are ordinary entries
			}
			ua[k] = stun.AttrType(types[k])
		}
		if n >= 2 && i%3 == 1 {
			types[n-1], ua[n-1] = types[n-2], ua[n-2]
		}
		detail := map[string]interface{}{"count": n, "types": fmt.Sprint(types)}
		m := new(stun.Message)
		_ = m.Build(stun.BindingError, stun.NewTransactionIDSetter(r.TID()))
		if err := ua.AddTo(m); err != nil {
			c.Violate("setter-error", "setter-error:UNKNOWN-ATTRIBUTES", detail)

			return
		}
		c.Distinct(gen.HashString(fmt.Sprint(types)))
		want := ref.EncUnknown(types)
		rm, _ := ref.Parse(m.Raw)
		if rm == nil || len(rm.TLVs) != 1 || rm.TLVs[0].Wire != 0x000A {
			c.Violate("unparseable", "unparseable", detail)

			return
		}
		got := m.Raw[rm.TLVs[0].Off : rm.TLVs[0].Off+rm.TLVs[0].Len]
		// round trip through the library alone
		dec := new(stun.Message)
		_ = stun.Decode(m.Raw, dec)
		var back stun.UnknownAttributes
		if gerr := back.GetFrom(dec); gerr != nil || !sameTypes(back, types) {
			c.Violate("roundtrip", "roundtrip:UNKNOWN-ATTRIBUTES", detail)

			return
		}
		// the same read through receivers that are not fresh: made with spare capacity and a shorter length, or
		// carried over reads of a longer and then a shorter list (the value read is the list in the message, whatever
		// the receiver held before)
		if n <= 64 {
			made := make(stun.UnknownAttributes, r.Intn(n+1), n+r.Intn(9))
			for k := range made {
				made[k] = stun.AttrType(0x7700 + k)
			}
			carried := stun.UnknownAttributes(nil)
			history := []int{n + 1 + r.Intn(8), r.Intn(n + 1)}
			for _, hn := range history {
				hv := make([]uint16, hn)
				for k := range hv {
					hv[k] = uint16(0x6600 + k)
				}
				hm := new(stun.Message)
				_ = stun.Decode(ref.Encode(0x0111, [12]byte{5}, []ref.Attr{{Type: 0x000A, Value: ref.EncUnknown(hv)}}), hm)
				_ = carried.GetFrom(hm)
			}
			c.Count("unknown_attribute_lists_read_into_used_receivers", 2)
			for ri, rcv := range []*stun.UnknownAttributes{&made, &carried} {
				name := []string{"made-with-spare-capacity", "carried-over-longer-then-shorter"}[ri]
				before := fmt.Sprintf("len %d cap %d", len(*rcv), cap(*rcv))
				if gerr := rcv.GetFrom(dec); gerr != nil || !sameTypes(*rcv, types) {
					detail["receiver"], detail["receiver_before"], detail["read"], detail["history"] = name, before, fmt.Sprint(*rcv), fmt.Sprint(history)
					c.Violate("roundtrip", "roundtrip:UNKNOWN-ATTRIBUTES:used-receiver", detail)

					return
				}
			}
		}
		if !bytes.Equal(got, want) {
			detail["lib_hex"], detail["rfc_hex"] = core.Hex(got), core.Hex(want)
			c.Violate("wire-format", "wire-format:UNKNOWN-ATTRIBUTES", detail)

			return
		}
		// reference-encoded list read by the library
		dec2 := new(stun.Message)
		_ = stun.Decode(ref.Encode(0x0111, [12]byte{3}, []ref.Attr{{Type: 0x000A, Value: want}}), dec2)
		var back2 stun.UnknownAttributes
		if gerr := back2.GetFrom(dec2); gerr != nil || !sameTypes(back2, types) {
			detail["read"] = fmt.Sprint(back2)
			c.Violate("rfc-encoded-misread", "rfc-encoded-misread:UNKNOWN-ATTRIBUTES", detail)
		}
	})
}

// c06Words are byte strings that carry meaning in some STUN dialect or text convention; inside a text attribute they
// are content like any other.
var c06Words = [][]byte{ //nolint:gochecknoglobals
	[]byte("obMatJos2AAAA"), []byte("obMatJos2"), []byte("obMatJos2////+"), []byte("\xef\xbb\xbf"), []byte("\x00"), []byte(" "), []byte("\""),
	[]byte("\r\n"), []byte("stun:"), []byte("realm=\"x\""), []byte(":"), []byte("%00"), []byte("\\"), []byte("\xc0\x80"), []byte("\xff"),
	[]byte("\t"), []byte("=?utf-8?"), []byte("\x21\x12\xa4\x42"), []byte("\x00\x00\x00\x00"), []byte("\x80\x28\x00\x04"),
}

func clipS(s string) string {
	if len(s) > 24 {
		return s[:24]
	}

	return s
}

func sameTypes(a stun.UnknownAttributes, b []uint16) bool {
	if len(a) != len(b) {
		return false
	}
	for i := range a {
		if uint16(a[i]) != b[i] {
			return false
		}
	}

	return true
}
