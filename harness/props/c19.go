package props

import (
	"bytes"
	"encoding/gob"
	"encoding/json"
	"fmt"
	"sync"

	"github.com/pion/stun/v3"
	"github.com/pion/stun/v3/verifharness/core"
	"github.com/pion/stun/v3/verifharness/gen"
	"github.com/pion/stun/v3/verifharness/ref"
)

// C19: message type encoding is the RFC 5389 bit layout and a bijection.
// The workload is the complete domain in both tiers.
func init() { core.Register("C19", c19) }

// c19Holder is an application struct that carries message types the way exported Go values are usually persisted.
type c19Holder struct {
	One  stun.MessageType
	List []stun.MessageType
	By   map[string]stun.MessageType
}

func c19(c *core.Ctx) {
	// What the process does FIRST with the codec must not matter: each variant runs in a process of its own, before
	// anything else has used the package, and then sweeps the complete domain in both directions.
	c.SectionFirst("first-use-order", 4, func(i int64, _ *gen.Rand) {
		switch i {
		case 0: // the first use is a read of a wire value
			var t stun.MessageType
			t.ReadValue(0x0111)
		case 1: // the first use is a decode of a datagram
			m := new(stun.Message)
			b := make([]byte, 20)
			b[0], b[1] = 0x01, 0x01
			b[4], b[5], b[6], b[7] = 0x21, 0x12, 0xa4, 0x42
			_ = stun.Decode(b, m)
		case 2: // the first use is the formatting of a type
			_ = stun.MessageType{Method: 0xabc, Class: 3}.String()
		case 3: // the first use is an encode
			_ = stun.MessageType{Method: 0xabc, Class: 3}.Value()
		}
		for v := 0; v < 65536; v++ {
			var t stun.MessageType
			t.ReadValue(uint16(v))
			m, cl := ref.SplitType(uint16(v))
			c.Eval(1)
			if uint16(t.Method) != m || uint8(t.Class) != cl {
				c.Violate("readvalue-mismatch", "ReadValue:first-use", map[string]interface{}{"first_use": i, "v": v, "got_method": t.Method, "got_class": t.Class, "want_method": m, "want_class": cl})

				return
			}
		}
		for mth := 0; mth < 4096; mth++ {
			for cl := 0; cl < 4; cl++ {
				t := stun.MessageType{Method: stun.Method(mth), Class: stun.MessageClass(cl)}
				c.Eval(1)
				if got, want := t.Value(), ref.JoinType(uint16(mth), uint8(cl)); got != want {
					c.Violate("value-mismatch", "Value:first-use", map[string]interface{}{"first_use": i, "method": mth, "class": cl, "got": got, "want": want})

					return
				}
			}
		}
		c.Count("first_use_variants_swept", 1)
	})
	// Types travel inside exported application values through encoding/gob and encoding/json: what comes back is what
	// went in, over the whole domain (the encoders pick up any marshalling methods the type has).
	c.SectionSerial("persisted-forms", 4, func(i int64, _ *gen.Rand) {
		h := c19Holder{By: map[string]stun.MessageType{}}
		for mth := int(i); mth < 4096; mth += 4 {
			for cl := 0; cl < 4; cl++ {
				t := stun.MessageType{Method: stun.Method(mth), Class: stun.MessageClass(cl)}
				h.List = append(h.List, t)
				if mth%64 == int(i) {
					h.By[fmt.Sprintf("%03x/%d", mth, cl)] = t
				}
			}
		}
		h.One = h.List[len(h.List)-1]
		check := func(form string, back c19Holder) {
			c.Eval(int64(len(h.List)))
			if back.One != h.One || len(back.List) != len(h.List) || len(back.By) != len(h.By) {
				c.Violate("persisted-form", "persisted:"+form, map[string]interface{}{"form": form, "one_before": h.One.String(), "one_after": back.One.String(), "list_len": len(back.List), "map_len": len(back.By)})

				return
			}
			for k := range h.List {
				if back.List[k] != h.List[k] {
					c.Violate("persisted-form", "persisted:"+form, map[string]interface{}{"form": form, "before": fmt.Sprintf("%#x/%d", uint16(h.List[k].Method), h.List[k].Class), "after": fmt.Sprintf("%#x/%d", uint16(back.List[k].Method), back.List[k].Class)})

					return
				}
			}
			for k, v := range h.By {
				if back.By[k] != v {
					c.Violate("persisted-form", "persisted:"+form, map[string]interface{}{"form": form, "key": k})

					return
				}
			}
		}
		var buf bytes.Buffer
		var g c19Holder
		if err := gob.NewEncoder(&buf).Encode(h); err != nil {
			c.Violate("persisted-form", "persisted:gob-encode", map[string]interface{}{"err": err.Error()})
		} else if err := gob.NewDecoder(&buf).Decode(&g); err != nil {
			c.Violate("persisted-form", "persisted:gob-decode", map[string]interface{}{"err": err.Error()})
		} else {
			check("gob", g)
		}
		var j c19Holder
		if raw, err := json.Marshal(h); err != nil {
			c.Violate("persisted-form", "persisted:json-encode", map[string]interface{}{"err": err.Error()})
		} else if err := json.Unmarshal(raw, &j); err != nil {
			c.Violate("persisted-form", "persisted:json-decode", map[string]interface{}{"err": err.Error()})
		} else {
			check("json", j)
		}
		c.Count("persisted_round_trips", 2)
	})
	// Value(): all 4096 methods x 4 classes, one case per method.
	c.Section("value", 4096, func(i int64, _ *gen.Rand) {
		method := uint16(i)
		for class := uint8(0); class < 4; class++ {
			t := stun.MessageType{Method: stun.Method(method), Class: stun.MessageClass(class)}
			if nt := stun.NewType(stun.Method(method), stun.MessageClass(class)); nt != t {
				c.Violate("newtype", "NewType", map[string]interface{}{"method": method, "class": class, "got": fmt.Sprintf("%+v", nt)})
			}
			got := t.Value()
			want := ref.JoinType(method, class)
			c.Eval(1)
			c.Distinct(uint64(got) | 1<<32)
			if got != want {
				c.Violate("value-mismatch", "Value", map[string]interface{}{"method": method, "class": class, "got": got, "want": want})
			}
			if got&0xC000 != 0 {
				c.Violate("leading-bits", "Value-leading", map[string]interface{}{"method": method, "class": class, "got": got})
			}
			var back stun.MessageType
			back.ReadValue(got)
			if back != t {
				c.Violate("roundtrip", "ReadValue(Value)", map[string]interface{}{"method": method, "class": class, "back": back.String()})
			}
			if i == 1 && class == 2 {
				c.Sample(map[string]interface{}{"method": method, "class": class, "value": got})
			}
		}
	})
	c.MarkExhaustive("value")
	// ReadValue(): all 65536 wire values, 256 per case.
	c.Section("readvalue", 256, func(i int64, _ *gen.Rand) {
		for lo := 0; lo < 256; lo++ {
			v := uint16(i)<<8 | uint16(lo)
			var t stun.MessageType
			t.ReadValue(v)
			m, cl := ref.SplitType(v)
			c.Eval(1)
			c.Distinct(uint64(v) | 2<<32)
			if uint16(t.Method) != m || uint8(t.Class) != cl {
				c.Violate("readvalue-mismatch", "ReadValue", map[string]interface{}{"v": v, "got_method": t.Method, "got_class": t.Class, "want_method": m, "want_class": cl})
			}
			if t.Value() != v&0x3fff {
				c.Violate("inverse", "Value(ReadValue)", map[string]interface{}{"v": v, "got": t.Value()})
			}
			// the same reading through the decoder: a 20-byte datagram whose first two bytes are v (the two leading bits
			// are not part of the type; a datagram is a STUN message only when they are zero, so they are cleared here)
			hdr := [20]byte{byte(v>>8) & 0x3f, byte(v), 0, 0, 0x21, 0x12, 0xa4, 0x42}
			var dm stun.Message
			if err := stun.Decode(hdr[:], &dm); err != nil || uint16(dm.Type.Method) != m || uint8(dm.Type.Class) != cl {
				c.Violate("readvalue-mismatch", "Decode:type", map[string]interface{}{"v": v & 0x3fff, "err": fmt.Sprint(err), "got_method": dm.Type.Method, "got_class": dm.Type.Class, "want_method": m, "want_class": cl})
			}
			if v == 0x0111 {
				c.Sample(map[string]interface{}{"wire": v, "method": uint16(t.Method), "class": uint8(t.Class)})
			}
			// receivers that already hold something, including field values no wire value produces (the fields are
			// exported: Method is a uint16, Class a byte) and that agree with v in their low bits
			for k, pre := range []stun.MessageType{
				{Method: stun.Method(m | 0x1000), Class: stun.MessageClass(cl)},
				{Method: stun.Method(m), Class: stun.MessageClass(cl | 4)},
				{Method: stun.Method(m | 0xF000), Class: stun.MessageClass(cl | 0xFC)},
				{Method: stun.Method(m ^ 0x8001), Class: stun.MessageClass(cl ^ 0x81)},
				{Method: stun.Method(m | uint16(1)<<(12+uint(lo)%4)), Class: stun.MessageClass(cl | uint8(1)<<(2+uint(lo)%6))},
			} {
				t2 := pre
				t2.ReadValue(v)
				c.Eval(1)
				if uint16(t2.Method) != m || uint8(t2.Class) != cl {
					c.Violate("readvalue-mismatch", "ReadValue:used-receiver", map[string]interface{}{"v": v, "receiver_before": fmt.Sprintf("%#x/%#x", uint16(pre.Method), uint8(pre.Class)),
						"variant": k, "got_method": t2.Method, "got_class": t2.Class, "want_method": m, "want_class": cl})
				}
			}
		}
	})
	c.MarkExhaustive("readvalue")
	// one receiver carried across all values in scrambled orders: ReadValue must overwrite both fields every time
	c.SectionSerial("readvalue-reused-receiver", 8, func(i int64, _ *gen.Rand) {
		var t stun.MessageType
		mult := []int{1, 3, 7, 4099, 32771, 65535, 12345, 54321}[i] | 1
		for x := 0; x < 65536; x++ {
			v := uint16(x*mult + int(i)*977)
			t.ReadValue(v)
			m, cl := ref.SplitType(v)
			c.Eval(1)
			if uint16(t.Method) != m || uint8(t.Class) != cl {
				c.Violate("readvalue-mismatch", "ReadValue:reused-receiver", map[string]interface{}{"v": v, "got_method": t.Method, "got_class": t.Class, "want_method": m, "want_class": cl, "order_multiplier": mult})

				return
			}
		}
	})
	// the package's exported message-type VARIABLES (BindingRequest, BindingSuccess, BindingError) hold what an
	// application puts there; the encoding is a function of the MessageType value alone
	c.SectionSerial("exported-type-variables-reassigned", 3, func(i int64, _ *gen.Rand) {
		saved := [3]stun.MessageType{stun.BindingRequest, stun.BindingSuccess, stun.BindingError}
		defer func() { stun.BindingRequest, stun.BindingSuccess, stun.BindingError = saved[0], saved[1], saved[2] }()
		switch i {
		case 0:
			stun.BindingRequest = stun.NewType(stun.MethodBinding, stun.ClassIndication)
			stun.BindingSuccess = stun.NewType(stun.MethodAllocate, stun.ClassSuccessResponse)
			stun.BindingError = stun.NewType(stun.MethodRefresh, stun.ClassErrorResponse)
		case 1:
			stun.BindingRequest, stun.BindingSuccess, stun.BindingError = saved[1], saved[2], saved[0]
		default:
			stun.BindingRequest = stun.MessageType{Method: 0xfff, Class: 3}
			stun.BindingSuccess = stun.MessageType{}
			stun.BindingError = stun.NewType(0x800, stun.ClassRequest)
		}
		for method := 0; method < 4096; method++ {
			for cl := 0; cl < 4; cl++ {
				t := stun.NewType(stun.Method(method), stun.MessageClass(cl))
				want := ref.JoinType(uint16(method), uint8(cl))
				c.Eval(1)
				got := t.Value()
				var back stun.MessageType
				back.ReadValue(got)
				if got != want || back != t {
					c.Violate("value-mismatch", "Value:after-reassigning-exported-variables", map[string]interface{}{"method": method, "class": cl, "got": got, "want": want, "variant": i})

					return
				}
				m := new(stun.Message)
				m.SetType(t)
				if w := uint16(m.Raw[0])<<8 | uint16(m.Raw[1]); w != want {
					c.Violate("value-mismatch", "SetType:after-reassigning-exported-variables", map[string]interface{}{"method": method, "class": cl, "wire": w, "want": want, "variant": i})

					return
				}
			}
		}
		c.Distinct(uint64(i) | 9<<40)
	})
	// the same tables from several goroutines at once (each with its own MessageType values): the mapping is a pure function
	c.SectionSerial("concurrent-sweep", 4, func(i int64, _ *gen.Rand) {
		const g = 8
		bad := make([]string, g)
		var wg sync.WaitGroup
		for k := 0; k < g; k++ {
			wg.Add(1)
			go func(k int) {
				defer wg.Done()
				for round := 0; round < 4 && bad[k] == ""; round++ {
					for x := 0; x < 65536 && bad[k] == ""; x++ {
						v := uint16(x*(2*k+1) + int(i)*7919) // every goroutine walks the domain in its own order
						var t stun.MessageType
						t.ReadValue(v)
						m, cl := ref.SplitType(v)
						if uint16(t.Method) != m || uint8(t.Class) != cl {
							bad[k] = fmt.Sprintf("ReadValue(%#04x) = (%#x,%d), reference (%#x,%d)", v, uint16(t.Method), t.Class, m, cl)
						} else if got := t.Value(); got != v&0x3fff {
							bad[k] = fmt.Sprintf("Value() after ReadValue(%#04x) = %#04x", v, got)
						}
					}
				}
			}(k)
		}
		wg.Wait()
		c.Eval(g * 4 * 65536)
		c.Count("concurrent_decodes", g*4*65536)
		for _, b := range bad {
			if b != "" {
				c.Violate("concurrent-mismatch", "concurrent-mismatch", b)

				return
			}
		}
	})
}
