package props

import (
	"errors"
	"fmt"
	"runtime"
	"sort"
	"strings"
	"time"

	"github.com/pion/stun/v3"
	"github.com/pion/stun/v3/verifharness/sim"
)

// Sequential histories of the client: each event is driven to completion
// (quiescence) before the next, and compared with an executable model.

type hEvent struct {
	Kind byte // S start, D do, I indicate, R response, U unknown id, G garbage, T tick, F fail next write, C close, O SetRTO, M caller mutates nothing (placeholder)
	ID   int8
	Arg  int8
	Size int // request size for S/D/I (0: default 20+4*id)
}

func (e hEvent) String() string {
	switch e.Kind {
	case 'S':
		return fmt.Sprintf("Start(id%d)", e.ID)
	case 'D':
		return fmt.Sprintf("Do(id%d)", e.ID)
	case 'I':
		return "Indicate"
	case 'R':
		return fmt.Sprintf("Resp(id%d)", e.ID)
	case 'U':
		return "RespUnknownID"
	case 'G':
		return "Garbage"
	case 'T':
		return "Tick(" + [...]string{"just-before-deadline", "at-deadline", "just-after-deadline", "past-all"}[e.Arg] + ")"
	case 'F':
		return "FailNextWrite"
	case 'C':
		return "Close"
	case 'O':
		return fmt.Sprintf("SetRTO(x%d)", e.Arg)
	}

	return "?"
}

func histString(h []hEvent) string {
	s := make([]string, len(h))
	for i, e := range h {
		s[i] = e.String()
	}

	return strings.Join(s, " ; ")
}

func seqTID(i int8) (t [12]byte) {
	if i == 1 {
		// the all-zero id: as legal as any other (it is what a message built without a transaction id setter carries)
		return t
	}
	for k := range t {
		t[k] = 0xC0 + byte(i)
	}
	t[11] = byte(i)

	return t
}

type cmTx struct {
	t        *tx
	attempt  int
	deadline int64
	rto      int64
	expect   []string // expected invocation classes so far
}

type cmodel struct {
	inflight map[int8]*cmTx
	all      []*cmTx
	closed   bool
	failNext int
	now      int64
	rto      int64
	maxAtt   int
	fallback bool
	fbExpect int
	writes   int // expected total write count
}

type seqStats struct {
	events, invocations, writes, fallbacks int64
	classes                                map[string]int64
}

// runHistory executes a history against a fresh client; returns problems (empty: held) and whether the run was inconclusive.
func runHistory(o rigOpts, h []hEvent, oracles oracleSet, st *seqStats) (probs []rigProblem, inconclusive bool, r *rig) {
	r, err := newRig(o)
	if err != nil {
		return []rigProblem{{"newclient", "newclient", err.Error()}}, false, nil
	}
	m := &cmodel{inflight: map[int8]*cmTx{}, rto: int64(r.rto()), maxAtt: r.maxAttempts(), fallback: o.fallback}
	var doTxs []*cmTx
	fail := func(kind, key, msg string, at int) {
		probs = append(probs, rigProblem{kind, key, fmt.Sprintf("after event %d (%s) of [%s]: %s", at+1, h[at], histString(h), msg)})
	}
	closedOnce := false
	for i, e := range h {
		if st != nil {
			st.events++
		}
		preWrites := r.conn.NWrites()
		switch e.Kind {
		case 'S', 'D', 'I':
			size := e.Size
			if size == 0 {
				size = 20 + 4*int(e.ID)
			}
			kind := map[byte]string{'S': "Start", 'D': "Do", 'I': "Indicate"}[e.Kind]
			id := seqTID(e.ID)
			if e.Kind == 'I' {
				id = seqTID(9)
			}
			t := r.newTx(kind, id, size)
			ct := &cmTx{t: t, rto: m.rto}
			m.all = append(m.all, ct)
			// model
			var wantErr string
			wantWrite := false
			switch {
			case m.closed:
				wantErr = "client-closed"
			case e.Kind != 'I' && m.inflight[e.ID] != nil:
				wantErr = "exists"
			default:
				wantWrite = true
				if m.failNext > 0 {
					m.failNext--
					wantErr = "write-error"
				} else if e.Kind != 'I' {
					ct.deadline = m.now + ct.rto
					m.inflight[e.ID] = ct
				}
			}
			if wantWrite {
				m.writes++
			}
			if e.Kind == 'D' {
				doTxs = append(doTxs, ct)
				done := make(chan struct{})
				go func() { _ = r.do(t); close(done) }()
				// complete when the initial transmission has been written or Do has returned
				if !waitFor(func() bool { return t.returned() || r.conn.NWrites() > preWrites }) {
					fail("do-stuck", "do-stuck", "Do neither wrote nor returned", i)

					return probs, false, r
				}
				if wantErr != "" {
					select {
					case <-done:
					case <-time.After(10 * time.Second):
						fail("call-never-returned", "never-returned:Do", "Do did not return although its Start failed", i)

						return probs, false, r
					}
				}
			} else {
				_ = r.start(t)
			}
			if wantErr != "" || e.Kind != 'D' {
				got := startErrClass(t.RetErr)
				if !t.returned() {
					got = "pending"
				}
				if got != orNil(wantErr) {
					fail("start-result", "start-result:"+kind, fmt.Sprintf("%s returned %q, model says %q", kind, got, orNil(wantErr)), i)

					return probs, false, r
				}
			}
		case 'R', 'U', 'G':
			if m.closed {
				continue // the reader is gone: nothing can be delivered
			}
			var d []byte
			var id [12]byte
			switch e.Kind {
			case 'R':
				id = seqTID(e.ID)
				d = response(id, fmt.Sprintf("resp-%d-%d", e.ID, i))
			case 'U':
				id = seqTID(7)
				d = response(id, fmt.Sprintf("unknown-%d", i))
			default:
				d = []byte("this is not a STUN message at all, just garbage bytes .........")
			}
			if !r.deliver(id, d, e.Kind != 'G') {
				fail("reader-gone", "reader-gone", "the reader does not take datagrams although the client is open", i)

				return probs, false, r
			}
			if e.Kind == 'R' && m.inflight[e.ID] != nil {
				ct := m.inflight[e.ID]
				ct.expect = append(ct.expect, "response")
				delete(m.inflight, e.ID)
			} else if e.Kind != 'G' && m.fallback {
				m.fbExpect++
			}
		case 'T':
			if m.closed {
				continue
			}
			t := m.now + int64(time.Millisecond)
			if len(m.inflight) > 0 {
				earliest, latest := int64(1<<62), int64(0)
				for _, ct := range m.inflight {
					if ct.deadline < earliest {
						earliest = ct.deadline
					}
					if ct.deadline > latest {
						latest = ct.deadline
					}
				}
				switch e.Arg {
				case 0:
					t = earliest - 1
				case 1:
					t = earliest
				case 2:
					t = earliest + 1
				default:
					t = latest + int64(time.Second)
				}
			}
			if t < m.now {
				t = m.now
			}
			m.now = t
			// model: strictly-before deadlines expire
			var retrans []*cmTx
			var keys []int8
			for k := range m.inflight {
				keys = append(keys, k)
			}
			sort.Slice(keys, func(a, b int) bool { return keys[a] < keys[b] })
			for _, k := range keys {
				ct := m.inflight[k]
				if ct.deadline >= t {
					continue
				}
				if ct.attempt >= m.maxAtt {
					ct.expect = append(ct.expect, "timeout")
					delete(m.inflight, k)

					continue
				}
				ct.attempt++
				ct.deadline = t + int64(ct.attempt+1)*ct.rto
				m.writes++
				retrans = append(retrans, ct)
			}
			r.tickAt(t)
			// scripted write failures hit the retransmissions of this tick in map order: accept any assignment of the right size
			nf := m.failNext
			if nf > len(retrans) {
				nf = len(retrans)
			}
			m.failNext -= nf
			if nf > 0 {
				failed := 0
				for _, ct := range retrans {
					inv := ct.t.invocations()
					if len(inv) > len(ct.expect) && inv[len(inv)-1].Class == "write-error" {
						ct.expect = append(ct.expect, "write-error")
						for k, v := range m.inflight {
							if v == ct {
								delete(m.inflight, k)
							}
						}
						failed++
					}
				}
				if failed != nf {
					fail("write-failure-handling", "write-failure-handling", fmt.Sprintf("%d scripted write failures hit %d retransmissions, %d handlers saw a write error", nf, len(retrans), failed), i)

					return probs, false, r
				}
			}
		case 'F':
			if m.closed {
				continue
			}
			m.failNext++
			r.conn.FailNext(1)
		case 'O':
			m.rto = int64(time.Duration(e.Arg) * 100 * time.Millisecond)
			r.client.SetRTO(time.Duration(m.rto))
		case 'C':
			err := r.close()
			if m.closed {
				if !errors.Is(err, stun.ErrClientClosed) {
					fail("close-result", "close-result", fmt.Sprintf("second Close returned %v", err), i)

					return probs, false, r
				}

				continue
			}
			closedOnce = true
			m.closed = true
			if msg := checkCloseResult(o, err); msg != "" {
				fail("close-result", "close-result", msg, i)

				return probs, false, r
			}
			for k, ct := range m.inflight {
				ct.expect = append(ct.expect, "closed")
				delete(m.inflight, k)
			}
		}
		// observation at quiescence vs model
		if got := r.conn.NWrites(); got != m.writes && (oracles.writes || oracles.exactlyOnce) {
			fail("write-count", "write-count", fmt.Sprintf("%d writes so far, model says %d", got, m.writes), i)

			return probs, false, r
		}
		for _, ct := range m.all {
			inv := ct.t.invocations()
			if oracles.exactlyOnce && !sameClasses(inv, ct.expect) {
				key := "invocations"
				if len(inv) < len(ct.expect) {
					key = "missing-invocation:" + ct.expect[len(ct.expect)-1]
				} else if len(inv) > len(ct.expect) {
					key = "unexpected-invocation:" + inv[len(inv)-1].Class
				}
				fail("invocations", key, fmt.Sprintf("transaction #%d (%s id%x): handler invocations %v, model says %v", ct.t.Seq, ct.t.Kind, ct.t.ID[11], classesOf(inv), ct.expect), i)

				return probs, false, r
			}
		}
		r.mu.Lock()
		nfb := len(r.fallback)
		r.mu.Unlock()
		if oracles.identity && nfb != m.fbExpect {
			fail("fallback-count", "fallback-count", fmt.Sprintf("fallback handler invoked %d times, model says %d", nfb, m.fbExpect), i)

			return probs, false, r
		}
		// a Do whose handler has run must return
		for _, ct := range doTxs {
			if len(ct.expect) > 0 && !ct.t.returned() {
				if !waitFor(ct.t.returned) {
					if oracles.exactlyOnce {
						fail("call-never-returned", "never-returned:Do", fmt.Sprintf("Do #%d has not returned although its handler ran (%v) and the world is quiescent", ct.t.Seq, ct.expect), i)
					}

					return probs, false, r
				}
			}
		}
	}
	// final quiescence: close (if the history did not) and evaluate the interleaving-robust oracles too
	if !closedOnce {
		_ = r.close()
		for _, ct := range m.inflight {
			ct.expect = append(ct.expect, "closed")
		}
	}
	for _, ct := range doTxs {
		if !waitFor(ct.t.returned) && oracles.exactlyOnce {
			probs = append(probs, rigProblem{"call-never-returned", "never-returned:Do", fmt.Sprintf("[%s]: Do #%d never returned after Close (handler invocations %v)", histString(h), ct.t.Seq, classesOf(ct.t.invocations()))})

			return probs, false, r
		}
	}
	if oracles.exactlyOnce {
		for _, ct := range m.all {
			if inv := ct.t.invocations(); !sameClasses(inv, ct.expect) {
				key := "invocations"
				if len(inv) < len(ct.expect) {
					key = "missing-invocation:" + ct.expect[len(ct.expect)-1]
				}
				probs = append(probs, rigProblem{"invocations", key, fmt.Sprintf("[%s] then Close: transaction #%d: handler invocations %v, model says %v", histString(h), ct.t.Seq, classesOf(inv), ct.expect)})

				return probs, false, r
			}
		}
	}
	for _, p := range r.judge(oracles, true) {
		p.Detail = "[" + histString(h) + "]: " + p.Detail
		probs = append(probs, p)
	}
	if oracles.closeRules {
		for _, p := range r.closeAccounting() {
			p.Detail = "[" + histString(h) + "]: " + p.Detail
			probs = append(probs, p)
		}
	}
	if st != nil {
		for _, ct := range m.all {
			for _, iv := range ct.t.invocations() {
				st.invocations++
				st.classes[iv.Class]++
			}
		}
		st.writes += int64(r.conn.NWrites())
		st.fallbacks += int64(m.fbExpect)
	}

	return probs, false, r
}

func checkCloseResult(o rigOpts, err error) string {
	wantAgent, wantConn := o.agentCloseErr, o.connCloseErr
	if o.noConnClose {
		wantConn = nil // the connection is never closed, so its error cannot appear
	}
	if wantAgent == nil && wantConn == nil {
		if err != nil {
			return fmt.Sprintf("first Close returned %v", err)
		}

		return ""
	}
	var ce stun.CloseErr
	if !errors.As(err, &ce) {
		return fmt.Sprintf("Close returned %v, expected a CloseErr carrying the injected errors", err)
	}
	if !errors.Is(ce.AgentErr, wantAgent) || (wantAgent == nil && ce.AgentErr != nil) {
		return fmt.Sprintf("CloseErr.AgentErr = %v, injected %v", ce.AgentErr, wantAgent)
	}
	if !errors.Is(ce.ConnectionErr, wantConn) || (wantConn == nil && ce.ConnectionErr != nil) {
		return fmt.Sprintf("CloseErr.ConnectionErr = %v, injected %v", ce.ConnectionErr, wantConn)
	}

	return ""
}

func orNil(s string) string {
	if s == "" {
		return "nil"
	}

	return s
}

func startErrClass(err error) string {
	switch {
	case err == nil:
		return "nil"
	case errors.Is(err, stun.ErrClientClosed), errors.Is(err, stun.ErrAgentClosed):
		return "client-closed"
	case errors.Is(err, stun.ErrTransactionExists):
		return "exists"
	case isWriteErr(err):
		return "write-error"
	default:
		return "other:" + err.Error()
	}
}

func classesOf(inv []invocation) []string {
	out := make([]string, len(inv))
	for i, v := range inv {
		out[i] = v.Class
	}

	return out
}

func sameClasses(inv []invocation, want []string) bool {
	if len(inv) != len(want) {
		return false
	}
	for i := range inv {
		if inv[i].Class != want[i] {
			return false
		}
	}

	return true
}

// waitFor polls a condition that another goroutine is about to make true. The watchdog (10 s against microseconds)
// only decides that something is stuck; callers turn that into the proper verdict.
func waitFor(cond func() bool) bool {
	for i := 0; i < 20000; i++ {
		if cond() {
			return true
		}
		runtime.Gosched()
	}
	deadline := time.Now().Add(10 * time.Second)
	for time.Now().Before(deadline) {
		if cond() {
			return true
		}
		time.Sleep(time.Millisecond)
	}

	return cond()
}

// enumerateHistories calls f for every history of exactly `depth` events over nIDs ids (symmetry-reduced, no-op events pruned).
func enumerateHistories(depth, nIDs int, withSetRTO bool, prefix []hEvent, f func(h []hEvent) bool) {
	h := append([]hEvent(nil), prefix...)
	var rec func(used int, inflightMask int, closed bool, failNext int) bool
	// the enumeration tracks only what is needed to prune: ids used so far, closed, pending failures
	rec = func(used int, _ int, closed bool, failNext int) bool {
		if len(h) == depth {
			return f(h)
		}
		try := func(e hEvent, used2 int, closed2 bool, fail2 int) bool {
			h = append(h, e)
			ok := rec(used2, 0, closed2, fail2)
			h = h[:len(h)-1]

			return ok
		}
		maxNew := used
		if maxNew >= nIDs {
			maxNew = nIDs - 1
		}
		for id := 0; id <= maxNew; id++ {
			u2 := used
			if id == used {
				u2 = used + 1
			}
			if !try(hEvent{Kind: 'S', ID: int8(id)}, u2, closed, failNext) || !try(hEvent{Kind: 'D', ID: int8(id)}, u2, closed, failNext) {
				return false
			}
		}
		if !try(hEvent{Kind: 'I'}, used, closed, failNext) || !try(hEvent{Kind: 'C'}, used, true, failNext) {
			return false
		}
		if closed {
			return true
		}
		for id := 0; id < used; id++ {
			if !try(hEvent{Kind: 'R', ID: int8(id)}, used, closed, failNext) {
				return false
			}
		}
		if !try(hEvent{Kind: 'U'}, used, closed, failNext) || !try(hEvent{Kind: 'G'}, used, closed, failNext) {
			return false
		}
		for a := 0; a < 4; a++ {
			if used == 0 && a != 3 {
				continue
			}
			if !try(hEvent{Kind: 'T', Arg: int8(a)}, used, closed, failNext) {
				return false
			}
		}
		if failNext < 2 {
			if !try(hEvent{Kind: 'F'}, used, closed, failNext+1) {
				return false
			}
		}
		if withSetRTO {
			if !try(hEvent{Kind: 'O', Arg: 1}, used, closed, failNext) {
				return false
			}
		}

		return true
	}
	used, closed, failNext := 0, false, 0
	for _, e := range prefix {
		switch e.Kind {
		case 'S', 'D':
			if int(e.ID) >= used {
				used = int(e.ID) + 1
			}
		case 'C':
			closed = true
		case 'F':
			failNext++
		}
	}
	rec(used, 0, closed, failNext)
}

// firstEvents lists the possible first two events (used to split the exhaustive exploration into cases).
func historyPrefixes(nIDs int) [][]hEvent {
	var out [][]hEvent
	enumerateHistories(2, nIDs, false, nil, func(h []hEvent) bool {
		out = append(out, append([]hEvent(nil), h...))

		return true
	})

	return out
}

var _ = sim.Epoch
