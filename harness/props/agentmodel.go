package props

import (
	"bytes"
	"errors"
	"fmt"
	"runtime"
	"sort"
	"strconv"

	"github.com/pion/stun/v3"
)

// Executable sequential specification of the Agent (C13, C14): a transaction
// table id -> deadline, a closed flag and the identity of the current handler.
// Small and comparable so that porcupine can use it as a state.

const amIDs = 3

type amState struct {
	Present  [amIDs]bool
	Deadline [amIDs]int8
	Closed   bool
	Handler  int8
}

type amKind uint8

const (
	amStart amKind = iota
	amStop
	amStopErr
	amProcess
	amCollect
	amSetHandler
	amClose
)

func (k amKind) String() string {
	return [...]string{"Start", "Stop", "StopWithError", "Process", "Collect", "SetHandler", "Close"}[k]
}

// amCall is one call. T is the deadline (Start) or the collect time, as an abstract time point.
type amCall struct {
	Kind amKind
	ID   int8
	T    int8
	H    int8 // handler tag for SetHandler
}

func (c amCall) String() string {
	switch c.Kind {
	case amStart:
		return fmt.Sprintf("Start(id%d,t%d)", c.ID, c.T)
	case amStop, amStopErr, amProcess:
		return fmt.Sprintf("%v(id%d)", c.Kind, c.ID)
	case amCollect:
		return fmt.Sprintf("Collect(t%d)", c.T)
	case amSetHandler:
		return fmt.Sprintf("SetHandler(h%d)", c.H)
	default:
		return "Close()"
	}
}

// event classes
const (
	evMessage  = "message"
	evStopped  = "stopped"
	evCustom   = "custom-error"
	evNilError = "stop-with-nil-error" // StopWithError(id, nil): the event carries what the caller passed, nil included
	evTimeout  = "timeout"
	evClosed   = "closed"
)

// amEvent is an observed or predicted handler event.
type amEvent struct {
	ID      int8
	Class   string
	Handler int8
}

// amResult is the observable outcome of a call: error class + multiset of events.
type amResult struct {
	Err    string
	Events string // canonical (sorted) rendering of the event multiset
}

func canonEvents(evs []amEvent) string {
	s := make([]string, len(evs))
	for i, e := range evs {
		s[i] = fmt.Sprintf("id%d:%s@h%d", e.ID, e.Class, e.Handler)
	}
	sort.Strings(s)
	out := ""
	for _, x := range s {
		out += x + ","
	}

	return out
}

// amStep is the specification: state x call -> (state', result).
func amStep(s amState, c amCall) (amState, amResult) {
	if s.Closed {
		return s, amResult{Err: "agent-closed"}
	}
	var evs []amEvent
	switch c.Kind {
	case amStart:
		if s.Present[c.ID] {
			return s, amResult{Err: "exists"}
		}
		s.Present[c.ID], s.Deadline[c.ID] = true, c.T
	case amStop, amStopErr:
		if !s.Present[c.ID] {
			return s, amResult{Err: "not-exists"}
		}
		s.Present[c.ID], s.Deadline[c.ID] = false, 0
		cl := evStopped
		if c.Kind == amStopErr {
			cl = evCustom
		}
		evs = append(evs, amEvent{c.ID, cl, s.Handler})
	case amProcess:
		s.Present[c.ID], s.Deadline[c.ID] = false, 0
		evs = append(evs, amEvent{c.ID, evMessage, s.Handler})
	case amCollect:
		for i := 0; i < amIDs; i++ {
			if s.Present[i] && s.Deadline[i] < c.T { // strictly before
				s.Present[i], s.Deadline[i] = false, 0
				evs = append(evs, amEvent{int8(i), evTimeout, s.Handler})
			}
		}
	case amSetHandler:
		s.Handler = c.H
	case amClose:
		for i := 0; i < amIDs; i++ {
			if s.Present[i] {
				evs = append(evs, amEvent{int8(i), evClosed, s.Handler})
				s.Present[i], s.Deadline[i] = false, 0
			}
		}
		s.Closed = true
		s.Handler = 0
	}

	return s, amResult{Err: "nil", Events: canonEvents(evs)}
}

func amErrClass(err error) string {
	switch {
	case err == nil:
		return "nil"
	case errors.Is(err, stun.ErrAgentClosed):
		return "agent-closed"
	case errors.Is(err, stun.ErrTransactionExists):
		return "exists"
	case errors.Is(err, stun.ErrTransactionNotExists):
		return "not-exists"
	default:
		return "other:" + err.Error()
	}
}

var errCustomStop = errors.New("custom stop error")

func amEventClass(e stun.Event) string {
	switch {
	case e.Message != nil && e.Error == nil:
		return evMessage
	case e.Message != nil:
		return "message-with-error"
	case e.Error == nil:
		return evNilError
	case errors.Is(e.Error, stun.ErrTransactionStopped):
		return evStopped
	case errors.Is(e.Error, errCustomStop):
		return evCustom
	case errors.Is(e.Error, stun.ErrTransactionTimeOut):
		return evTimeout
	case errors.Is(e.Error, stun.ErrAgentClosed):
		return evClosed
	default:
		return "unknown:" + fmt.Sprint(e.Error)
	}
}

// amTID is the i-th transaction id of the model's small id space. The ids are a family that is as alike as distinct ids
// can be: same first word, and the second and third word differ by the same constant in all of them (so any table that
// keys on a prefix, or folds the 96 bits into fewer by XOR-ing words, sees them as one).
func amTID(i int8) (t [stun.TransactionIDSize]byte) {
	copy(t[:4], []byte{0xA0, 0xA1, 0xA2, 0xA3})
	for k := 0; k < 4; k++ {
		x := byte(0x10+int(i)) + byte(k)*0x11
		t[4+k] = x
		t[8+k] = x ^ 0x5C
	}

	return t
}

func amIDOf(t [stun.TransactionIDSize]byte) int8 {
	for i := int8(0); i < amIDs; i++ {
		if t == amTID(i) {
			return i
		}
	}

	return -1
}

// goid parses the current goroutine id (used to attribute handler events to the call that caused them).
func goid() int64 {
	var buf [64]byte
	n := runtime.Stack(buf[:], false)
	b := buf[:n]
	b = bytes.TrimPrefix(b, []byte("goroutine "))
	if k := bytes.IndexByte(b, ' '); k > 0 {
		id, _ := strconv.ParseInt(string(b[:k]), 10, 64)

		return id
	}

	return -1
}
