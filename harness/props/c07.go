package props

import (
	"bytes"
	"fmt"
	"net"
	"sync"
	"unsafe"

	"github.com/pion/stun/v3"
	"github.com/pion/stun/v3/verifharness/core"
	"github.com/pion/stun/v3/verifharness/gen"
	"github.com/pion/stun/v3/verifharness/ref"
)

// C07: attribute getters and checkers are total, local and side-effect free.
func init() { core.Register("C07", c07) }

type c07Getter struct {
	name string
	typ  uint16 // attribute type read
	kind int    // 0 plain, 1 integrity, 2 fingerprint
	addr bool   // value is an address: bias the first bytes to family codes
	run  func(m *stun.Message, key []byte, dirty bool) (string, error)
}

// dirtyIP is a destination that "held something before": 16 stale bytes (nil for a fresh receiver).
func dirtyIP(dirty bool) net.IP {
	if !dirty {
		return nil
	}

	return net.IP{0xEE, 0xEE, 0xEE, 0xEE, 0xEE, 0xEE, 0xEE, 0xEE, 0xEE, 0xEE, 0xEE, 0xEE, 0xEE, 0xEE, 0xEE, 0xEE}
}

func ipOut(ip net.IP, port int) string { return fmt.Sprintf("%x:%d", []byte(ip), port) }

func c07Getters() []c07Getter {
	return []c07Getter{
		{"XORMappedAddress.GetFrom", 0x0020, 0, true, func(m *stun.Message, _ []byte, dirty bool) (string, error) {
			var a stun.XORMappedAddress
			a.IP, a.Port = dirtyIP(dirty), 7
			err := a.GetFrom(m)

			return ipOut(a.IP, a.Port), err
		}},
		{"XORMappedAddress.GetFromAs(XOR-PEER)", 0x0012, 0, true, func(m *stun.Message, _ []byte, dirty bool) (string, error) {
			a := stun.XORMappedAddress{IP: make(net.IP, 0, 16)}
			if dirty {
				a.IP = dirtyIP(true)[:4]
			}
			err := a.GetFromAs(m, stun.AttrXORPeerAddress)

			return ipOut(a.IP, a.Port), err
		}},
		{"MappedAddress.GetFrom", 0x0001, 0, true, func(m *stun.Message, _ []byte, dirty bool) (string, error) {
			var a stun.MappedAddress
			a.IP = dirtyIP(dirty)
			err := a.GetFrom(m)

			return ipOut(a.IP, a.Port), err
		}},
		{"MappedAddress.GetFromAs(0x7e01)", 0x7e01, 0, true, func(m *stun.Message, _ []byte, dirty bool) (string, error) {
			a := stun.MappedAddress{IP: make(net.IP, 4, 16)}
			err := a.GetFromAs(m, 0x7e01)

			return ipOut(a.IP, a.Port), err
		}},
		{"AlternateServer.GetFrom", 0x8023, 0, true, func(m *stun.Message, _ []byte, dirty bool) (string, error) {
			var a stun.AlternateServer
			a.IP = dirtyIP(dirty)
			err := a.GetFrom(m)

			return ipOut(a.IP, a.Port), err
		}},
		{"ResponseOrigin.GetFrom", 0x802b, 0, true, func(m *stun.Message, _ []byte, dirty bool) (string, error) {
			var a stun.ResponseOrigin
			a.IP = dirtyIP(dirty)
			err := a.GetFrom(m)

			return ipOut(a.IP, a.Port), err
		}},
		{"OtherAddress.GetFrom", 0x802c, 0, true, func(m *stun.Message, _ []byte, dirty bool) (string, error) {
			var a stun.OtherAddress
			a.IP = dirtyIP(dirty)
			err := a.GetFrom(m)

			return ipOut(a.IP, a.Port), err
		}},
		{"Username.GetFrom", 0x0006, 0, false, func(m *stun.Message, _ []byte, dirty bool) (string, error) {
			var a stun.Username
			err := a.GetFrom(m)

			return fmt.Sprintf("%x", []byte(a)), err
		}},
		{"Realm.GetFrom", 0x0014, 0, false, func(m *stun.Message, _ []byte, dirty bool) (string, error) {
			var a stun.Realm
			err := a.GetFrom(m)

			return fmt.Sprintf("%x", []byte(a)), err
		}},
		{"Nonce.GetFrom", 0x0015, 0, false, func(m *stun.Message, _ []byte, dirty bool) (string, error) {
			var a stun.Nonce
			err := a.GetFrom(m)

			return fmt.Sprintf("%x", []byte(a)), err
		}},
		{"Software.GetFrom", 0x8022, 0, false, func(m *stun.Message, _ []byte, dirty bool) (string, error) {
			var a stun.Software
			err := a.GetFrom(m)

			return fmt.Sprintf("%x", []byte(a)), err
		}},
		{"ErrorCodeAttribute.GetFrom", 0x0009, 0, false, func(m *stun.Message, _ []byte, dirty bool) (string, error) {
			var a stun.ErrorCodeAttribute
			if dirty {
				a = stun.ErrorCodeAttribute{Code: 777, Reason: []byte("stale reason")}
			}
			err := a.GetFrom(m)

			return fmt.Sprintf("%d:%x", a.Code, a.Reason), err
		}},
		{"UnknownAttributes.GetFrom", 0x000A, 0, false, func(m *stun.Message, _ []byte, dirty bool) (string, error) {
			var a stun.UnknownAttributes
			if dirty {
				a = stun.UnknownAttributes{0x7777, 0x7778, 0x7779}
			}
			err := a.GetFrom(m)

			return fmt.Sprint([]stun.AttrType(a)), err
		}},
		{"Message.Get", 0x0024, 0, false, func(m *stun.Message, _ []byte, dirty bool) (string, error) {
			v, err := m.Get(0x0024)

			return fmt.Sprintf("%x", v), err
		}},
		{"Message.Parse(Software,XORMappedAddress)", 0x0020, 0, true, func(m *stun.Message, _ []byte, dirty bool) (string, error) {
			var (
				s stun.Software
				a stun.XORMappedAddress
			)
			a.IP = dirtyIP(dirty)
			err := m.Parse(&s, &a)

			return fmt.Sprintf("%x|%s", []byte(s), ipOut(a.IP, a.Port)), err
		}},
		{"MessageIntegrity.Check", 0x0008, 1, false, func(m *stun.Message, key []byte, _ bool) (string, error) {
			return "", stun.MessageIntegrity(key).Check(m)
		}},
		{"Fingerprint.Check", 0x8028, 2, false, func(m *stun.Message, _ []byte, dirty bool) (string, error) {
			return "", stun.Fingerprint.Check(m)
		}},
		{"Message.Check(Fingerprint,MessageIntegrity)", 0x8028, 2, false, func(m *stun.Message, key []byte, _ bool) (string, error) {
			return "", m.Check(stun.Fingerprint, stun.MessageIntegrity(key))
		}},
	}
}

var c07Caps = []int{0, 1, 2, 7, 20, 64} //nolint:gochecknoglobals

// c07Neighbour draws a neighbouring attribute. Twin A uses types/values a sloppy reader would accept as a family code.
func c07Neighbour(r *gen.Rand, twinA bool, avoid uint16) ref.Attr {
	var t uint16
	if twinA {
		t = r.PickU16([]uint16{0x0001, 0x0002, 0x0001})
	} else {
		t = r.PickU16([]uint16{0x8022, 0xFFFF, 0x8029, 0x0300})
	}
	if r.Chance(1, 3) {
		// any named attribute type may stand next to the one being read (RFC 8489's MESSAGE-INTEGRITY-SHA256 = 0x001C,
		// the RFC 3489 legacy types, TURN and ICE attributes ...)
		t = r.PickU16(gen.KnownAttrTypes)
		if t == 0x0008 || t == 0x8028 || compat(t) == compat(avoid) {
			t = 0x001C
		}
	}
	if t == avoid {
		t = 0x0002
	}
	v := r.Bytes(r.Intn(10))
	if twinA && len(v) >= 2 {
		v[0], v[1] = 0, byte(1+r.Intn(2))
	}

	return ref.Attr{Type: t, Value: v}
}

// c07Wire lays out: before..., target, after... with padding filled per twin.
func c07Wire(r *gen.Rand, typ16 uint16, tid [12]byte, before []ref.Attr, target ref.Attr, after []ref.Attr, fill int, zeroBefore bool) (wire []byte, targetOff int) {
	attrs := append(append(append([]ref.Attr{}, before...), target), after...)
	wire = ref.Encode(typ16, tid, attrs)
	pos := 20
	for i, a := range attrs {
		if i == len(before) {
			targetOff = pos + 4
		}
		pad := (4 - len(a.Value)%4) % 4
		if !(zeroBefore && i < len(before)) {
			fillBytes(wire[pos+4+len(a.Value):pos+4+len(a.Value)+pad], fill, r)
		}
		pos += 4 + len(a.Value) + pad
	}

	return wire, targetOff
}

type c07Outcome struct {
	panicked string
	out      string
	errc     string
	errs     string
	mutated  string
}

func (o c07Outcome) String() string {
	if o.panicked != "" {
		return "panic: " + o.panicked
	}
	if o.errc != "nil" {
		return "error[" + o.errc + "]: " + o.errs
	}

	return "value: " + o.out
}

func c07Run(g c07Getter, wire []byte, extra, fill int, key []byte, r *gen.Rand, dirty bool) (c07Outcome, string) {
	var buf []byte
	if dirty && g.kind != 2 && r.Bool() {
		// bytes in the buffer behind the declared message length (a datagram read into a larger slice): the decoder
		// tolerates them and they belong to no attribute
		wire = append(append([]byte(nil), wire...), r.Bytes(1+r.Intn(12))...)
	}
	if extra == 0 {
		buf = make([]byte, len(wire))
		copy(buf, wire)
		buf = buf[:len(wire):len(wire)]
	} else {
		buf = place(wire, placeSpare, fill, extra, r)
	}
	m := &stun.Message{Raw: buf}
	if err := m.Decode(); err != nil {
		return c07Outcome{}, "twin not decodable: " + err.Error()
	}
	before := viewOf(m)
	capBefore, ptrBefore := cap(m.Raw), unsafe.SliceData(m.Raw)
	var o c07Outcome
	var err error
	p, stack := safely(func() { o.out, err = g.run(m, key, dirty) })
	if p != nil {
		o.panicked = fmt.Sprint(p) + "\n" + stack

		return o, ""
	}
	o.errc = errClass(err)
	if err != nil {
		o.errs = err.Error()
		o.out = ""
	}
	o.mutated = before.diff(viewOf(m))
	if o.mutated == "" && (cap(m.Raw) != capBefore || unsafe.SliceData(m.Raw) != ptrBefore) {
		o.mutated = fmt.Sprintf("the message's buffer was replaced or clipped: capacity %d before, %d after the call", capBefore, cap(m.Raw))
	}

	return o, ""
}

func c07(c *core.Ctx) {
	selfCheckOracles()
	c.Section("concurrent-getters", c.N(40, 5000), func(i int64, _ *gen.Rand) {
		c07Concurrent(c, i)
		c.Distinct(uint64(i) | 5<<50)
	})
	if c.Config == "race" {
		return
	}
	c.Section("receiver-and-message-reuse", c.N(3000, 1000000), func(_ int64, r *gen.Rand) {
		c07Reuse(c, r)
	})
	getters := c07Getters()
	reps := int(c.N(10, 600))
	total := int64(len(getters) * 41 * 3 * len(c07Caps))
	c.Section("twins", total, func(i int64, r0 *gen.Rand) {
		gi := int(i) % len(getters)
		rest := int(i) / len(getters)
		length := rest % 41
		rest /= 41
		posA := rest % 3
		capIdx := rest / 3
		g := getters[gi]
		for rep := 0; rep < reps; rep++ {
			r := gen.Derive(c.Seed, uint64(i), uint64(rep), 0xC07)
			_ = r0
			c07One(c, r, g, length, posA, c07Caps[capIdx])
		}
		c.Distinct(uint64(i))
	})
	c.MarkExhaustive("getter x length 0..40 x position x capacity")
	// the getter's own attribute is absent: whatever else the message carries (legacy RFC 3489 types included), the
	// outcome is "not found" - other attributes are never read in its place
	c.Section("absent-target", int64(len(getters))*c.N(60, 20000), func(i int64, r *gen.Rand) {
		g := getters[int(i)%len(getters)]
		if len(g.name) >= 13 && g.name[:13] == "Message.Parse" {
			return
		}
		c.Eval(1)
		var attrs []ref.Attr
		for k := r.Intn(5); k > 0; k-- {
			t := r.PickU16(gen.KnownAttrTypes)
			if t == g.typ || (g.typ == 0x0020 && t == 0x8020) {
				continue
			}
			v := r.Bytes(r.PickInt([]int{0, 4, 8, 8, 20, 20, r.Intn(30)}))
			if len(v) >= 2 {
				v[0], v[1] = 0, byte(1+r.Intn(2)) // plausible address family: the value would parse if it were read
			}
			attrs = append(attrs, ref.Attr{Type: t, Value: v})
		}
		wire := ref.Encode(uint16(r.U64())&0x3fff, r.TID(), attrs)
		o, bad := c07Run(g, wire, c07Caps[r.Intn(len(c07Caps))], r.Intn(3), r.Bytes(r.Intn(30)), r, r.Bool())
		if bad != "" {
			fatalHarness("C07 absent-target construction: " + bad)
		}
		detail := map[string]interface{}{"getter": g.name, "input_hex": core.Hex(wire), "outcome": o.String()}
		switch {
		case o.panicked != "":
			c.Violate("panic", panicKey(o.panicked)+":"+g.name, detail)
		case o.mutated != "":
			detail["diff"] = o.mutated
			c.Violate("side-effect", "side-effect:"+g.name, detail)
		case o.errc != "not-found":
			c.Violate("non-local", "absent-target:"+g.name, detail)
		default:
			c.Count("absent_target_not_found", 1)
		}
		c.Distinct(gen.HashBytes(wire) ^ uint64(i))
	})
}

func c07One(c *core.Ctx, r *gen.Rand, g c07Getter, length, posA, extraA int) {
	c.Eval(1)
	tid := r.TID()
	typ16 := uint16(r.U64()) & 0x3fff
	key := r.Bytes(r.Intn(40))
	value := r.Bytes(length)
	if g.addr {
		// bias towards bytes the getter interprets: family codes, also straddling the value boundary
		switch r.Intn(4) {
		case 0, 1:
			if length >= 1 {
				value[0] = 0
			}
			if length >= 2 {
				value[1] = byte(1 + r.Intn(2))
			}
		case 2:
			if length >= 2 {
				value[0], value[1] = 0, byte(r.Intn(4))
			}
		}
	}
	// shared prefix for the integrity twins (covered span must be identical)
	var sharedBefore []ref.Attr
	nBefore := map[int]int{0: 0, 1: 1 + r.Intn(2), 2: r.Intn(3)}[posA]
	for k := 0; k < nBefore; k++ {
		sharedBefore = append(sharedBefore, c07Neighbour(r, r.Bool(), g.typ))
	}
	if g.name == "Message.Parse(Software,XORMappedAddress)" {
		sharedBefore = append([]ref.Attr{{Type: 0x8022, Value: []byte("sw")}}, sharedBefore...)
	}
	posB := r.Intn(3)
	leadBits := byte(0)
	if r.Chance(1, 4) {
		leadBits = byte(1+r.Intn(3)) << 6
	}
	mk := func(twinA bool, pos int) ([]byte, int, int) {
		var before, after []ref.Attr
		fill := r.PickInt([]int{3, 0})
		if !twinA {
			fill = r.PickInt([]int{1, 2})
		}
		switch g.kind {
		case 1: // integrity: same covered prefix, everything after may differ
			before = sharedBefore
			if pos != 2 {
				for k := 1 + r.Intn(3); k > 0; k-- {
					a := c07Neighbour(r, twinA, 0)
					switch r.Intn(8) {
					case 0, 1:
						a.Type = 0x0008
					case 2, 3: // a FINGERPRINT-typed attribute, not necessarily last, not necessarily 4 bytes
						a.Type = 0x8028
						if r.Bool() {
							a.Value = r.Bytes(4)
						}
					}
					after = append(after, a)
				}
			}
		default:
			nb := map[int]int{0: 0, 1: 1 + r.Intn(2), 2: r.Intn(3)}[pos]
			if g.name == "Message.Parse(Software,XORMappedAddress)" {
				before = append(before, ref.Attr{Type: 0x8022, Value: []byte("sw")})
			}
			for k := 0; k < nb; k++ {
				before = append(before, c07Neighbour(r, twinA, g.typ))
			}
			if pos != 2 {
				for k := 1 + r.Intn(2); k > 0; k-- {
					after = append(after, c07Neighbour(r, twinA, 0))
				}
			}
		}
		target := ref.Attr{Type: g.typ, Value: append([]byte(nil), value...)}
		if g.kind == 0 && !twinA && r.Chance(1, 4) {
			// a second, well-formed attribute of the same type further back: the first one is the one that is read
			dup := ref.Attr{Type: g.typ, Value: append([]byte{0, byte(1 + r.Intn(2)), 0x12, 0x34}, r.Bytes(4)...)}
			if dup.Value[1] == 2 {
				dup.Value = append(dup.Value, r.Bytes(12)...)
			}
			if !g.addr {
				dup.Value = r.Bytes(r.Intn(24))
			}
			after = append(after, dup)
		}
		wire, off := c07Wire(r, typ16, tid, before, target, after, fill, g.kind == 1)
		wire[0] |= leadBits // the two most significant bits of the type field are not part of the type (both twins alike)

		return wire, off, fill
	}
	var wireA, wireB []byte
	var fillA, fillB int
	plantedCorrect := false
	extraB := c07Caps[r.Intn(len(c07Caps))]
	switch g.kind {
	case 2: // fingerprint: identical bytes, only capacity and spare fill differ
		var off int
		wireA, off, fillA = mk(true, posA)
		if length == 4 && r.Bool() && len(wireA) >= 28 {
			// make the value the right CRC where the attribute is last, so that the passing branch is exercised too
			v := ref.FingerprintValue(wireA[:len(wireA)-8])
			wireA[off], wireA[off+1], wireA[off+2], wireA[off+3] = byte(v>>24), byte(v>>16), byte(v>>8), byte(v)
		}
		wireB, fillB = wireA, 1+r.Intn(2)
	case 1:
		var offA, offB int
		wireA, offA, fillA = mk(true, posA)
		wireB, offB, fillB = mk(false, posB)
		if length == 20 && r.Bool() {
			// a correct MAC: the passing branch
			rmA, _ := ref.Parse(wireA)
			macA, tlvA, _ := ref.IntegrityExpected(wireA, rmA, key)
			copy(wireA[offA:], macA)
			copy(wireB[offB:], macA)
			plantedCorrect = tlvA.Off == offA // the target is the first MESSAGE-INTEGRITY of the message
		}
	default:
		wireA, _, fillA = mk(true, posA)
		wireB, _, fillB = mk(false, posB)
	}
	oa, badA := c07Run(g, wireA, extraA, fillA, key, r, false)
	ob, badB := c07Run(g, wireB, extraB, fillB, key, r, r.Bool())
	detail := func() map[string]interface{} {
		return map[string]interface{}{
			"getter": g.name, "value_len": length, "value_hex": core.Hex(value), "tid_hex": core.Hex(tid[:]),
			"twinA_hex": core.Hex(wireA), "twinA_extra_cap": extraA, "twinA_pos": posA, "twinA_outcome": oa.String(),
			"twinB_hex": core.Hex(wireB), "twinB_extra_cap": extraB, "twinB_pos": posB, "twinB_outcome": ob.String(),
		}
	}
	if badA != "" || badB != "" {
		fatalHarness("C07 twin construction: " + badA + badB)
	}
	if oa.panicked != "" || ob.panicked != "" {
		st := oa.panicked + ob.panicked
		c.Count("panics", 1)
		c.Violate("panic", panicKey(st)+":"+g.name, detail())

		return
	}
	if oa.errc == "nil" {
		c.Count("calls_succeeded", 2)
	} else {
		c.Count("calls_failed", 2)
	}
	if oa.mutated != "" || ob.mutated != "" {
		d := detail()
		d["diff"] = oa.mutated + ob.mutated
		c.Violate("side-effect", "side-effect:"+g.name, d)

		return
	}
	if plantedCorrect && (oa.errc != "nil" || ob.errc != "nil") {
		// the twins share everything in front of the MAC, so a fault that depends on what stands there hits both alike:
		// the passing branch is therefore also held against the MAC computed per RFC 5389
		c.Violate("non-local", "valid-mac-rejected:"+g.name, detail())

		return
	}
	if oa.errc != ob.errc || oa.errs != ob.errs || oa.out != ob.out {
		c.Count("nonlocal_outcomes", 1)
		c.Violate("non-local", "non-local:"+g.name, detail())

		return
	}
	if c.WantSample() && length == 2 && g.addr {
		c.Sample(detail())
	}
}

// ---- receivers and messages with history ----

// c07Persistent lists getters as (receiver factory -> call) so that ONE receiver can be carried across calls.
func c07Persistent() []struct {
	name string
	typ  uint16
	mk   func() func(m *stun.Message) (string, error)
} {
	return []struct {
		name string
		typ  uint16
		mk   func() func(m *stun.Message) (string, error)
	}{
		{"ErrorCodeAttribute.GetFrom", 0x0009, func() func(m *stun.Message) (string, error) {
			a := new(stun.ErrorCodeAttribute)

			return func(m *stun.Message) (string, error) {
				err := a.GetFrom(m)
				return fmt.Sprintf("%d:%x", a.Code, a.Reason), err
			}
		}},
		{"Username.GetFrom", 0x0006, func() func(m *stun.Message) (string, error) {
			a := new(stun.Username)

			return func(m *stun.Message) (string, error) { err := a.GetFrom(m); return fmt.Sprintf("%x", []byte(*a)), err }
		}},
		{"Software.GetFrom", 0x8022, func() func(m *stun.Message) (string, error) {
			a := new(stun.Software)

			return func(m *stun.Message) (string, error) { err := a.GetFrom(m); return fmt.Sprintf("%x", []byte(*a)), err }
		}},
		{"UnknownAttributes.GetFrom", 0x000A, func() func(m *stun.Message) (string, error) {
			a := new(stun.UnknownAttributes)

			return func(m *stun.Message) (string, error) {
				err := a.GetFrom(m)
				return fmt.Sprint([]stun.AttrType(*a)), err
			}
		}},
		{"XORMappedAddress.GetFrom", 0x0020, func() func(m *stun.Message) (string, error) {
			a := new(stun.XORMappedAddress)

			return func(m *stun.Message) (string, error) { err := a.GetFrom(m); return ipOut(a.IP, a.Port), err }
		}},
		{"MappedAddress.GetFrom", 0x0001, func() func(m *stun.Message) (string, error) {
			a := new(stun.MappedAddress)

			return func(m *stun.Message) (string, error) { err := a.GetFrom(m); return ipOut(a.IP, a.Port), err }
		}},
		{"AlternateServer.GetFrom", 0x8023, func() func(m *stun.Message) (string, error) {
			a := new(stun.AlternateServer)

			return func(m *stun.Message) (string, error) { err := a.GetFrom(m); return ipOut(a.IP, a.Port), err }
		}},
		{"ResponseOrigin.GetFrom", 0x802b, func() func(m *stun.Message) (string, error) {
			a := new(stun.ResponseOrigin)

			return func(m *stun.Message) (string, error) { err := a.GetFrom(m); return ipOut(a.IP, a.Port), err }
		}},
		{"OtherAddress.GetFrom", 0x802c, func() func(m *stun.Message) (string, error) {
			a := new(stun.OtherAddress)

			return func(m *stun.Message) (string, error) { err := a.GetFrom(m); return ipOut(a.IP, a.Port), err }
		}},
		{"Realm.GetFrom", 0x0014, func() func(m *stun.Message) (string, error) {
			a := new(stun.Realm)

			return func(m *stun.Message) (string, error) { err := a.GetFrom(m); return fmt.Sprintf("%x", []byte(*a)), err }
		}},
		{"MessageIntegrity.Check(one key buffer, rewritten in place)", 0x0008, func() func(m *stun.Message) (string, error) {
			buf := make([]byte, 16) // the credential of whoever sent the packet is derived into this one buffer

			return func(m *stun.Message) (string, error) {
				copy(buf, c07KeyFor(m.TransactionID))

				return "", stun.MessageIntegrity(buf).Check(m)
			}
		}},
	}
}

// c07Reuse: one Message refilled with packet after packet, one receiver carried along. After every call the message
// must be unchanged and the outcome must equal that of a fresh receiver on a fresh decode of the same packet.
func c07KeyFor(tid [12]byte) []byte {
	k := make([]byte, 16)
	for i := range k {
		k[i] = tid[i%12] ^ byte(17*i)
	}

	return k
}

func c07Reuse(c *core.Ctx, r *gen.Rand) {
	getters := c07Persistent()
	g := getters[r.Intn(len(getters))]
	call := g.mk()
	m := new(stun.Message)
	var trace []string
	// every message the receiver has read from so far, with what it looked like right after its own read
	var earlier []*stun.Message
	var earlierViews []msgView
	for step := 0; step < 5; step++ {
		if step > 0 && r.Bool() {
			// the next packet goes into another Message; the one just read stays around (and must stay as it is)
			earlier = append(earlier, m)
			earlierViews = append(earlierViews, viewOf(m))
			m = new(stun.Message)
		}
		var before []ref.Attr
		for k := r.Intn(3); k > 0; k-- {
			before = append(before, c07Neighbour(r, r.Bool(), g.typ))
		}
		n := r.Intn(24)
		val := r.Bytes(n)
		if g.typ == 0x0020 || g.typ == 0x0001 {
			if n >= 2 {
				val[0], val[1] = 0, byte(1+r.Intn(2))
			}
		}
		if g.typ == 0x8023 || g.typ == 0x802b || g.typ == 0x802c {
			if n >= 2 {
				val[0], val[1] = 0, byte(1+r.Intn(2))
			}
			if r.Bool() {
				val = append([]byte{0, byte(1 + step%2), 0x12, 0x34}, r.Bytes(4+12*(step%2))...) // well-formed, families alternating
				n = len(val)
			}
		}
		tid := r.TID()
		if g.typ == 0x0008 && r.Bool() {
			val, n = make([]byte, 20), 20
		}
		wire, off := c07Wire(r, 0x0101, tid, before, ref.Attr{Type: g.typ, Value: val}, []ref.Attr{c07Neighbour(r, false, 0)}, 2, g.typ == 0x0008)
		if g.typ == 0x0008 && n == 20 && r.Chance(2, 3) {
			if rm, _ := ref.Parse(wire); rm != nil {
				if mac, tlv, ok := ref.IntegrityExpected(wire, rm, c07KeyFor(tid)); ok && tlv.Off == off {
					copy(wire[off:], mac) // the sender's MAC under its own credential: the check passes
				}
			}
		}
		trace = append(trace, fmt.Sprintf("Write(%dB, value %dB at attr %d)", len(wire), n, len(before)))
		if _, err := m.Write(wire); err != nil {
			fatalHarness("C07 reuse: " + err.Error())
		}
		snap := viewOf(m)
		var out string
		var err error
		p, stack := safely(func() { out, err = call(m) })
		c.Eval(1)
		detail := map[string]interface{}{"getter": g.name, "steps": trace, "packet_hex": core.Hex(wire)}
		if p != nil {
			reportPanic(c, g.name, p, stack, detail)

			return
		}
		if d := snap.diff(viewOf(m)); d != "" {
			detail["diff"] = d
			c.Violate("side-effect", "side-effect-on-reuse:"+g.name, detail)

			return
		}
		for k, em := range earlier {
			if d := earlierViews[k].diff(viewOf(em)); d != "" {
				detail["diff"] = d
				detail["problem"] = fmt.Sprintf("message %d, read earlier through the same receiver, changed when a later message was read", k)
				c.Violate("side-effect", "side-effect-on-earlier-message:"+g.name, detail)

				return
			}
		}
		fresh := new(stun.Message)
		_ = stun.Decode(wire, fresh)
		fout, ferr := g.mk()(fresh)
		if errClass(err) != errClass(ferr) || (err == nil && out != fout) {
			detail["reused_receiver"] = fmt.Sprintf("%v / %s", err, out)
			detail["fresh_receiver"] = fmt.Sprintf("%v / %s", ferr, fout)
			c.Violate("non-local", "non-local-on-reuse:"+g.name, detail)

			return
		}
	}
	c.Count("reuse_chains", 1)
}

// c07Concurrent: getters running at once on different messages must each see only their own message.
func c07Concurrent(c *core.Ctx, idx int64) {
	const g = 8
	var wg sync.WaitGroup
	bad := make([]string, g)
	for k := 0; k < g; k++ {
		wg.Add(1)
		rk := gen.Derive(c.Seed, uint64(idx), uint64(k), 0xC07C)
		go func(k int) {
			defer wg.Done()
			for n := 0; n < 300 && bad[k] == ""; n++ {
				tid := rk.TID()
				ip := rk.Bytes(rk.PickInt([]int{4, 16}))
				port := rk.Intn(65536)
				wire := ref.Encode(0x0101, tid, []ref.Attr{
					{Type: 0x0020, Value: ref.EncXORAddr(ip, port, tid)}, {Type: 0x0012, Value: ref.EncXORAddr(ip, port^1, tid)},
					{Type: 0x0001, Value: ref.EncAddr(ip, port)}, {Type: 0x0009, Value: ref.EncErrorCode(400+n%100, []byte("reason"))},
				})
				m := new(stun.Message)
				if err := stun.Decode(wire, m); err != nil {
					bad[k] = err.Error()

					return
				}
				var x, pa stun.XORMappedAddress
				var ma stun.MappedAddress
				var ec stun.ErrorCodeAttribute
				if err := m.Parse(&x, &ma, &ec); err != nil {
					bad[k] = err.Error()

					return
				}
				if err := pa.GetFromAs(m, stun.AttrXORPeerAddress); err != nil {
					bad[k] = err.Error()

					return
				}
				if !bytes.Equal(x.IP, ip) || x.Port != port || !bytes.Equal(pa.IP, ip) || pa.Port != port^1 || !bytes.Equal(ma.IP, ip) || ma.Port != port || int(ec.Code) != 400+n%100 {
					bad[k] = fmt.Sprintf("decoded %v / %v / %v / %d from a message carrying %x:%d", x, pa, ma, ec.Code, ip, port)
				}
				// the checkers too: this goroutine's own key and message, decoded into a buffer without any spare capacity
				key := rk.Bytes(rk.PickInt([]int{8, 16, 20, 70}))
				signed := new(stun.Message)
				_ = signed.Build(stun.BindingRequest, stun.NewTransactionIDSetter(tid), stun.NewSoftware("c07"), stun.MessageIntegrity(key), stun.Fingerprint)
				exact := &stun.Message{Raw: append(make([]byte, 0, len(signed.Raw)), signed.Raw...)}
				if err := exact.Decode(); err != nil {
					bad[k] = err.Error()

					return
				}
				for rep := 0; rep < 3; rep++ {
					if err := stun.MessageIntegrity(key).Check(exact); err != nil {
						bad[k] = fmt.Sprintf("a correctly signed message is rejected under its own key: %v", err)
					}
					if err := stun.Fingerprint.Check(exact); err != nil {
						bad[k] = fmt.Sprintf("a correctly fingerprinted message is rejected: %v", err)
					}
				}
				wrong := append([]byte(nil), key...)
				wrong[0] ^= 1
				if stun.MessageIntegrity(wrong).Check(exact) == nil {
					bad[k] = "a message verifies under a key that differs in one bit"
				}
			}
		}(k)
	}
	wg.Wait()
	c.Eval(g * 300)
	c.Count("concurrent_getter_calls", g*300*4)
	for _, b := range bad {
		if b != "" {
			c.Violate("concurrent-mismatch", "concurrent-mismatch", map[string]interface{}{"goroutines": g, "problem": b})

			return
		}
	}
}
