package props

import (
	"fmt"

	"github.com/pion/stun/v3/verifharness/core"
	"github.com/pion/stun/v3/verifharness/gen"
)

// C10: every started client transaction completes exactly once.
func init() { core.Register("C10", c10) }

var c10Oracles = oracleSet{exactlyOnce: true} //nolint:gochecknoglobals

func reportRigProblems(c *core.Ctx, probs []rigProblem, r *rig, extra map[string]interface{}) {
	for _, p := range probs {
		d := map[string]interface{}{"problem": p.Detail}
		for k, v := range extra {
			d[k] = v
		}
		if r != nil {
			d["ledger"] = r.describe()
		}
		c.Violate(p.Kind, p.Key, d)
	}
}

func newSeqStats() *seqStats { return &seqStats{classes: map[string]int64{}} }

func flushSeqStats(c *core.Ctx, st *seqStats) {
	c.Count("history_events", st.events)
	c.Count("handler_invocations", st.invocations)
	c.Count("writes_observed", st.writes)
	c.Count("fallback_invocations", st.fallbacks)
	for k, v := range st.classes {
		c.Count("invocations."+k, v)
	}
}

// randomHistory draws a long history.
func randomHistory(r *gen.Rand, n, nIDs int, withSetRTO bool) []hEvent {
	h := make([]hEvent, 0, n)
	for len(h) < n {
		x := r.Intn(100)
		id := int8(r.Intn(nIDs))
		switch {
		case x < 22:
			h = append(h, hEvent{Kind: 'S', ID: id})
		case x < 30:
			h = append(h, hEvent{Kind: 'D', ID: id})
		case x < 34:
			h = append(h, hEvent{Kind: 'I'})
		case x < 56:
			h = append(h, hEvent{Kind: 'R', ID: id})
		case x < 60:
			h = append(h, hEvent{Kind: 'U'})
		case x < 64:
			h = append(h, hEvent{Kind: 'G'})
		case x < 90:
			h = append(h, hEvent{Kind: 'T', Arg: int8(r.Intn(4))})
		case x < 96:
			h = append(h, hEvent{Kind: 'F'})
		case x < 98 && withSetRTO:
			h = append(h, hEvent{Kind: 'O', Arg: int8(1 + r.Intn(9))})
		case x == 99 && len(h) > n/2:
			h = append(h, hEvent{Kind: 'C'})
		default:
			h = append(h, hEvent{Kind: 'T', Arg: 3})
		}
	}

	return h
}

func c10(c *core.Ctx) {
	depth := int(c.N(5, 7))
	prefixes := historyPrefixes(3)
	configs := []rigOpts{{fallback: true}, {noRetransmit: true}}
	if c.Config == "race" {
		depth = int(c.N(3, 5))
	}
	// (i) all event histories up to the depth bound, two client configurations
	c.Section("exhaustive-histories", int64(len(prefixes)), func(i int64, _ *gen.Rand) {
		st := newSeqStats()
		var n int64
		enumerateHistories(depth, 3, false, prefixes[i], func(h []hEvent) bool {
			for ci, o := range configs {
				probs, _, r := runHistory(o, h, c10Oracles, st)
				n++
				if len(probs) > 0 {
					reportRigProblems(c, probs, r, map[string]interface{}{"history": histString(h), "client": o.String(), "config_index": ci})

					return false
				}
			}
			if c.WantSample() && n > 400 && len(h) == depth {
				c.Sample(map[string]interface{}{"history": histString(h)})
			}

			return true
		})
		c.Eval(n)
		flushSeqStats(c, st)
		c.Distinct(uint64(i))
		c.Count("distinct_histories", n/int64(len(configs)))
	})
	c.MarkExhaustive(fmt.Sprintf("all histories of %d events over <=3 ids (symmetry-reduced, no-ops pruned) x 2 client configurations", depth))
	// (iv) long random histories
	c.Section("random-histories", c.N(300, 30000), func(i int64, r *gen.Rand) {
		st := newSeqStats()
		h := randomHistory(r, 50+r.Intn(251), 3, false)
		o := configs[int(i)%len(configs)]
		probs, _, rg := runHistory(o, h, c10Oracles, st)
		c.Eval(1)
		flushSeqStats(c, st)
		c.Distinct(gen.HashString(histString(h)))
		if len(probs) > 0 {
			reportRigProblems(c, probs, rg, map[string]interface{}{"client": o.String()})
		}
	})
	c10Targeted(c)
	c10Pairwise(c)
	c10Stress(c)
}
