package props

import (
	"bytes"
	"errors"
	"fmt"
	"os"
	"runtime"
	"strconv"
	"unsafe"

	"github.com/pion/stun/v3"
	"github.com/pion/stun/v3/verifharness/core"
	"github.com/pion/stun/v3/verifharness/gen"
	"github.com/pion/stun/v3/verifharness/ref"
)

// C02: the decoder accepts exactly RFC 5389 framing and reports its TLV list.
func init() { core.Register("C02", c02) }

var c02Deltas = []int{-3, -2, -1, 0, 1, 4, 7} //nolint:gochecknoglobals

var c02Types = []uint16{0x0006, 0x8020, 0x0020, 0x0008, 0x8028, 0x0006, 0xFFFF} //nolint:gochecknoglobals

func c02(c *core.Ctx) {
	selfCheckOracles()
	bound := int(c.N(36, 52))
	if v, err := strconv.Atoi(os.Getenv("VERIF_C02_BOUND")); err == nil {
		bound = v
	}
	// (a) bounded-exhaustive length structures: one case per (L, delta); DFS over length-field sequences inside.
	nStruct := int64((bound + 1) * len(c02Deltas))
	c.Section("structures", nStruct, func(i int64, _ *gen.Rand) {
		l := int(i) / len(c02Deltas)
		delta := c02Deltas[int(i)%len(c02Deltas)]
		c02Enumerate(c, l, delta)
	})
	c.MarkExhaustive(fmt.Sprintf("structures(body<=%d)", bound))
	// (b) all 65536 type fields on a fixed two-attribute message.
	c.Section("typefield", 256, func(i int64, r *gen.Rand) {
		spec := gen.MsgSpec{TID: r.TID(), Attrs: []ref.Attr{{Type: 0x8022, Value: []byte("abc")}, {Type: 0x8020, Value: []byte{0, 1, 2, 3, 4, 5, 6, 7}}}}
		for lo := 0; lo < 256; lo++ {
			spec.Type = uint16(i)<<8 | uint16(lo)
			w := spec.Wire()
			c02Judge(c, w, "typefield", false)
			// no type value excuses a missing magic cookie
			w[4+lo%4] ^= 1 << uint(lo%8)
			c02Judge(c, w, "typefield-bad-cookie", false)
		}
	})
	c.MarkExhaustive("typefield")
	// (c) random / mutated inputs.
	c.Section("random", c.N(100000, 3000000), func(_ int64, r *gen.Rand) {
		in := r.Hostile(seeds(), 4096)
		c02Judge(c, in, "random", true)
	})
	// (g) few types, many repetitions, every layout: "first attribute of a type" and the walks are told apart only here
	c.Section("repeated-types", c.N(3000, 300000), func(_ int64, r *gen.Rand) {
		pool := [][]uint16{{0x0014, 0x0006, 0x8022}, {0x0012, 0x0012, 0x0020}, {0x0020, 0x8020, 0x0001}, {0x8028, 0x0008, 0x0014}}[r.Intn(4)]
		s := r.Spec(0, 0)
		for k := 3 + r.Intn(7); k > 0; k-- {
			s.Attrs = append(s.Attrs, ref.Attr{Type: pool[r.Intn(len(pool))], Value: r.Bytes(r.Intn(9))})
		}
		c02Judge(c, r.WireDirty(s), "repeated-types", true)
	})
	// (f) one receiver over a long life: lookups stay "first attribute of the type" after 255/256/257 and
	// 65535/65536/65537 consecutive decodes without any lookup in between (counters that guard a cache wrap there)
	c.SectionSerial("long-lived-receiver", 9, func(i int64, r *gen.Rand) {
		gap := []int{255, 256, 257, 32767, 32768, 32769, 65535, 65536, 65537}[i]
		typ := uint16(0x0014)
		a := ref.Encode(0x0101, r.TID(), []ref.Attr{{Type: 0x8022, Value: []byte("a0")}, {Type: 0x0006, Value: []byte("a1")}, {Type: typ, Value: []byte("only-in-a-at-2")}})
		b := ref.Encode(0x0101, r.TID(), []ref.Attr{{Type: 0x8022, Value: []byte("b0")}, {Type: typ, Value: []byte("first")}, {Type: typ, Value: []byte("second")}, {Type: typ, Value: []byte("third")}})
		m := new(stun.Message)
		for round := 0; round < 4; round++ {
			_ = stun.Decode(a, m)
			if v, err := m.Get(stun.AttrType(typ)); err != nil || string(v) != "only-in-a-at-2" {
				c.Violate("get", "Get:long-lived-receiver", map[string]interface{}{"problem": "lookup on message A", "got": string(v)})

				return
			}
			for k := 0; k < gap; k++ {
				switch round { // one way of refilling per round (each may count differently in whatever counts)
				case 0:
					_ = stun.Decode(b, m)
				case 1:
					_, _ = m.Write(b)
				case 2:
					_ = m.UnmarshalBinary(b)
				default:
					m.Reset()
					_ = stun.Decode(b, m)
				}
			}
			c.Eval(1)
			if v, err := m.Get(stun.AttrType(typ)); err != nil || string(v) != "first" || !m.Contains(stun.AttrType(typ)) {
				c.Violate("get", "Get:long-lived-receiver", map[string]interface{}{
					"problem": fmt.Sprintf("after %d consecutive decodes of message B into one receiver (no lookup in between) Get returns %q; the first attribute of that type is \"first\"", gap, string(v))})

				return
			}
			n := 0
			_ = m.ForEach(stun.AttrType(typ), func(mm *stun.Message) error {
				v, _ := mm.Get(stun.AttrType(typ))
				if want := []string{"first", "second", "third"}[n]; string(v) != want {
					c.Violate("foreach-view", "ForEach-view:long-lived-receiver", map[string]interface{}{"visit": n, "got": string(v), "want": want})
				}
				n++

				return nil
			})
		}
		c.Distinct(uint64(gap) | 11<<50)
	})
	// (e) every input of 0..3 bytes and a few of 19/20 bytes through every byte-taking entry point: the empty input is
	// an input like any other (also for GobDecode, whatever GobEncode of a zero Message produces)
	c.SectionSerial("tiny-inputs-every-entry-point", 1, func(_ int64, r *gen.Rand) {
		inputs := [][]byte{nil, {}, make([]byte, 0, 64), {0}, {0, 1}, {0, 1, 0}, {0, 1, 0, 0}, make([]byte, 19), make([]byte, 20)}
		entries := map[string]func(m *stun.Message, b []byte) error{
			"Decode":          func(m *stun.Message, b []byte) error { return stun.Decode(b, m) },
			"Message.Decode":  func(m *stun.Message, b []byte) error { m.Raw = b; return m.Decode() },
			"Write":           func(m *stun.Message, b []byte) error { _, err := m.Write(b); return err },
			"UnmarshalBinary": func(m *stun.Message, b []byte) error { return m.UnmarshalBinary(b) },
			"GobDecode":       func(m *stun.Message, b []byte) error { return m.GobDecode(b) },
			"CloneTo":         func(m *stun.Message, b []byte) error { return (&stun.Message{Raw: b}).CloneTo(m) },
			"ReadFrom": func(m *stun.Message, b []byte) error {
				m.Raw = make([]byte, 0, 64)
				_, err := m.ReadFrom(bytes.NewReader(b))
				return err
			},
		}
		for name, e := range entries {
			for _, in := range inputs {
				for used := 0; used < 2; used++ {
					m := new(stun.Message)
					if used == 1 {
						_ = stun.Decode(c02Previous, m)
					}
					var err error
					p, _ := safely(func() { err = e(m, in) })
					c.Eval(1)
					if rm, why := ref.Parse(in); p == nil && (err == nil) != (rm != nil) {
						c.Violate("verdict", "verdict:"+name, map[string]interface{}{"entry": name, "input_hex": core.Hex(in), "len": len(in), "lib_error": fmt.Sprint(err), "reference": why, "receiver_used_before": used == 1})
					}
				}
			}
		}
		c.Distinct(r.U64())
	})
	// (d) the largest messages the length field can describe (65536..65552 bytes on the wire) and messages with
	// thousands of attributes: size alone is no reason to reject or to forget attributes.
	c.Section("near-max", c.N(160, 4000), func(i int64, r *gen.Rand) {
		var in []byte
		if i%2 == 0 {
			in = r.WireDirty(r.NearMaxSpec())
		} else {
			s := r.Spec(0, 0)
			for k := 900 + r.Intn(3000); k > 0; k-- {
				s.Attrs = append(s.Attrs, ref.Attr{Type: r.AttrType(), Value: r.Bytes(r.Intn(5))})
			}
			in = r.WireDirty(s)
		}
		c02Judge(c, in, "near-max", false)
	})
}

// c02Enumerate walks every sequence of attribute length fields for a body of l bytes in a buffer of 20+l+delta bytes.
func c02Enumerate(c *core.Ctx, l, delta int) {
	n := 20 + l + delta
	if n < 0 {
		n = 0
	}
	body := make([]byte, l+8) // scratch body (a little larger so that delta>0 has defined trailing bytes)
	var counter byte
	var rec func(pos, depth int)
	emit := func() {
		buf := make([]byte, 20+len(body))
		buf[0], buf[1] = 0x01, 0x01
		buf[2], buf[3] = byte(l>>8), byte(l)
		buf[4], buf[5], buf[6], buf[7] = 0x21, 0x12, 0xA4, 0x42
		for k := 8; k < 20; k++ {
			buf[k] = byte(k)
		}
		copy(buf[20:], body)
		if n < len(buf) {
			buf = buf[:n]
		}
		c02Judge(c, buf, "structures", false)
	}
	rec = func(pos, depth int) {
		if pos >= l {
			emit()

			return
		}
		rem := l - pos
		if rem < 4 {
			// dangling partial header: filler
			for k := pos; k < l; k++ {
				body[k] = 0xEE
			}
			emit()

			return
		}
		r := rem - 4
		choices := []int{0, 1, 2, 3, 4, 5, 7, 8, 0xFFFF}
		for k := -4; k <= 3; k++ {
			if r+k >= 0 {
				choices = append(choices, r+k)
			}
		}
		seen := map[int]bool{}
		for _, al := range choices {
			if seen[al] {
				continue
			}
			seen[al] = true
			t := c02Types[depth%len(c02Types)]
			body[pos], body[pos+1] = byte(t>>8), byte(t)
			body[pos+2], body[pos+3] = byte(al>>8), byte(al)
			padded := (al + 3) / 4 * 4
			if padded > r {
				// does not fit: the rest is filler and the parse must fail
				for k := pos + 4; k < l; k++ {
					counter++
					body[k] = counter
				}
				emit()

				continue
			}
			for k := pos + 4; k < pos+4+padded; k++ {
				counter++
				body[k] = counter
			}
			rec(pos+4+padded, depth+1)
		}
	}
	// trailing bytes after the declared body (visible when delta > 0)
	for k := l; k < len(body); k++ {
		body[k] = 0xDD
	}
	rec(0, 0)
}

// c02Judge runs the differential oracle on one input.
func c02Judge(c *core.Ctx, in []byte, section string, distinctByInput bool) {
	c.Eval(1)
	rm, why := ref.Parse(in)
	m := new(stun.Message)
	if gen.HashBytes(in)%3 == 0 || gen.HashBytes(in)%5 == 1 {
		// a destination that already reported another message's attribute list
		_ = stun.Decode(c02Previous, m)
	} else if gen.HashBytes(in)%11 < 3 {
		// ... or a much longer message: its bytes are still in the buffer behind whatever comes next
		_ = stun.Decode(c02PreviousBig, m)
	}
	if hh := gen.HashBytes(in); rm == nil && hh%7 == 5 && hh%5 != 1 && len(in)%4 == 0 && len(in) >= 4 && len(in) <= 64 {
		// the receiver last saw (and rejected) a datagram that was cut short - cut by exactly as many bytes as this input
		// has, and the input is what was missing. It still is no message.
		whole := ref.Encode(0x0001, [12]byte{3, 1, 4}, []ref.Attr{{Type: 0x0013, Value: append([]byte{0xAB, 0xCD, 0xEF, 0x01}, in...)}})
		_, _ = m.Write(whole[:len(whole)-len(in)])
		c.Count("receivers_that_last_saw_the_matching_cut_datagram", 1)
	}
	var err error
	h := gen.HashBytes(in)
	if h%13 == 2 || h%13 == 7 {
		// receivers are plain values: one that lives in a slice that grew, or was returned from a function, has moved
		moved := *m
		m = &moved
		c.Count("receivers_moved_by_value_before_the_decode", 1)
	}
	// lookups bound before the datagram arrived (method values: `get := m.Get` in a dispatcher set up once) answer for the
	// message the receiver holds when they are called
	boundGet, boundContains := m.Get, m.Contains
	inPlace := h%5 == 1
	arg := in
	if !inPlace && h%7 >= 3 {
		arg = append([]byte(nil), in...) // handed to a copying entry point and overwritten afterwards
	}
	if p, stack := safely(func() {
		switch {
		case inPlace:
			m.Raw = append([]byte(nil), in...) // the caller fills Raw itself and calls the method (what ReadFrom does)
			err = m.Decode()
		case h%7 == 3: // the other entry points that take bytes: whichever is used, the verdict and the content are the same
			err = m.UnmarshalBinary(arg)
		case h%7 == 4:
			err = m.GobDecode(arg)
		case h%7 == 5:
			_, err = m.Write(arg)
		case h%7 == 6:
			err = (&stun.Message{Raw: arg}).CloneTo(m)
		default:
			err = stun.Decode(in, m)
		}
		if !inPlace && h%7 >= 3 {
			for k := range arg {
				arg[k] ^= 0xA5
			}
		}
	}); p != nil {
		reportPanic(c, "Decode", p, stack, map[string]interface{}{"input_hex": core.Hex(in)})

		return
	}
	if rm == nil {
		c.Count(section+".reject."+why, 1)
		c.DistinctStr(section + "|rej|" + why + "|" + fmt.Sprint(len(in)%64))
	} else {
		sig := fmt.Sprintf("%s|ok|%d|", section, len(rm.TLVs))
		for _, t := range rm.TLVs {
			sig += fmt.Sprintf("%d.", t.Len%4)
		}
		if distinctByInput {
			c.Distinct(gen.HashBytes(in))
		} else {
			c.Distinct(gen.HashBytes(in) ^ gen.HashString(sig))
		}
		c.Count(section+".accept", 1)
	}
	if (err == nil) != (rm != nil) {
		c.Violate("verdict", "verdict", map[string]interface{}{"input_hex": core.Hex(in), "lib_error": fmt.Sprint(err), "reference": why})

		return
	}
	if rm == nil {
		return
	}
	if d := diffRef(m, rm, in); d != "" {
		c.Violate("content", "content", map[string]interface{}{"input_hex": core.Hex(in), "diff": d})

		return
	}
	if c.WantSample() && len(rm.TLVs) >= 2 && len(in) < 100 {
		c.Sample(map[string]interface{}{"section": section, "input_hex": core.Hex(in), "tlvs": fmt.Sprint(rm.TLVs)})
	}
	c02Lookups(c, m, rm, in)
	for _, t := range append([]ref.TLV{{Type: 0x7fff}}, rm.TLVs...) {
		v1, e1 := boundGet(stun.AttrType(t.Type))
		v2, e2 := m.Get(stun.AttrType(t.Type))
		if (e1 == nil) != (e2 == nil) || !bytes.Equal(v1, v2) || boundContains(stun.AttrType(t.Type)) != m.Contains(stun.AttrType(t.Type)) {
			c.Violate("lookup", "lookup:bound-before-decode", map[string]interface{}{"input_hex": core.Hex(in), "type": t.Type,
				"problem": "m.Get / m.Contains taken as method values before the decode answer differently from the same methods called now",
				"bound":   fmt.Sprintf("%x %v", v1, e1), "direct": fmt.Sprintf("%x %v", v2, e2)})

			return
		}
	}
}

var errCallback = errors.New("callback error")

// c02PreviousBig is a long message made of many well-formed attributes: any tail of it completes a truncated input.
// (Both "previous" messages come from the independent encoder: nothing at package level may use the library, or the
// first-use workloads of other properties would not be first.)
var c02PreviousBig = func() []byte { //nolint:gochecknoglobals
	var attrs []ref.Attr
	for k := 0; k < 150; k++ {
		attrs = append(attrs, ref.Attr{Type: uint16(0x7e00 + k%3), Value: []byte{byte(k), 1, 2, 3}})
	}

	return ref.Encode(0x0101, [12]byte{8, 8, 8}, attrs)
}()

var c02Previous = ref.Encode(0x0101, [12]byte{9, 9, 9}, []ref.Attr{ //nolint:gochecknoglobals
	{Type: 0x8022, Value: []byte("previous")}, {Type: 0x0006, Value: []byte("previous-user")},
	{Type: 0x8020, Value: []byte{1, 2, 3, 4, 5, 6, 7, 8}},
})

// c02Lookups checks Get / Contains / ForEach against list semantics.
func c02Lookups(c *core.Ctx, m *stun.Message, rm *ref.Msg, in []byte) {
	types := map[uint16][]int{}
	order := []uint16{}
	for i, t := range rm.TLVs {
		if _, ok := types[t.Type]; !ok {
			order = append(order, t.Type)
		}
		types[t.Type] = append(types[t.Type], i)
	}
	absent := uint16(0x7abc)
	for types[absent] != nil {
		absent++
	}
	order = append(order, absent)
	if len(order) > 6 {
		order = order[:6]
	}
	before := m.Attributes
	for _, t := range order {
		idxs := types[t]
		at := stun.AttrType(t)
		c.Count("lookups", 1)
		v, err := m.Get(at)
		if len(idxs) == 0 {
			if !errors.Is(err, stun.ErrAttributeNotFound) || v != nil {
				c.Violate("get-absent", "Get-absent", map[string]interface{}{"input_hex": core.Hex(in), "type": t, "err": fmt.Sprint(err)})
			}
		} else {
			first := rm.TLVs[idxs[0]]
			if err != nil || !bytes.Equal(v, in[first.Off:first.Off+first.Len]) ||
				(len(v) > 0 && unsafe.SliceData(v) != unsafe.SliceData(m.Attributes[idxs[0]].Value)) {
				c.Violate("get-first", "Get-first", map[string]interface{}{"input_hex": core.Hex(in), "type": t, "err": fmt.Sprint(err), "got": core.Hex(v)})
			}
		}
		if m.Contains(at) != (len(idxs) > 0) {
			c.Violate("contains", "Contains", map[string]interface{}{"input_hex": core.Hex(in), "type": t})
		}
		// ForEach, complete walk
		var visited []int
		bad := ""
		ferr := m.ForEach(at, func(mm *stun.Message) error {
			if mm != m {
				bad = "callback got another message"
			}
			if len(mm.Attributes) == 0 {
				bad = "empty attribute window"

				return nil
			}
			cur := mm.Attributes[0]
			k := len(visited)
			if k >= len(idxs) {
				bad = "too many visits"

				return nil
			}
			want := rm.TLVs[idxs[k]]
			if uint16(cur.Type) != t || !bytes.Equal(cur.Value, in[want.Off:want.Off+want.Len]) || int(cur.Length) != want.Len {
				bad = fmt.Sprintf("visit %d saw (%#x,%x)", k, uint16(cur.Type), clip(cur.Value))
			}
			// Get inside the callback must return this attribute
			if gv, gerr := mm.Get(at); gerr != nil || !bytes.Equal(gv, cur.Value) {
				bad = "Get inside callback"
			}
			// a nested ForEach (over another type) inside the callback is ordinary use and must restore its own view
			if len(order) > 1 {
				window := mm.Attributes
				_ = mm.ForEach(stun.AttrType(order[(len(visited)+1)%len(order)]), func(*stun.Message) error { return nil })
				if !sameAttrSlice(window, mm.Attributes) {
					bad = "nested ForEach changed the outer callback's view"
				}
			}
			// lookups of OTHER types from inside the callback (they see the callback's view; whatever they find or
			// remember must not outlive the walk: checked below, after ForEach has returned)
			for _, ot := range order {
				if ot != t {
					_, _ = mm.Get(stun.AttrType(ot))
					_ = mm.Contains(stun.AttrType(ot))
				}
			}
			visited = append(visited, idxs[k])

			return nil
		})
		if ferr != nil || bad != "" || len(visited) != len(idxs) {
			c.Violate("foreach", "ForEach", map[string]interface{}{"input_hex": core.Hex(in), "type": t, "err": fmt.Sprint(ferr), "bad": bad, "visited": visited, "want": idxs})
		}
		if !sameAttrSlice(before, m.Attributes) {
			c.Violate("foreach-restore", "ForEach-restore", map[string]interface{}{"input_hex": core.Hex(in), "type": t, "mode": "complete"})
			m.Attributes = before
		}
		// right after the walk (nothing else in between): lookups of the other types, the one the callback looked up last
		// first - whatever a lookup inside the callback's narrowed view left behind must not answer for the full list
		for k := len(order) - 1; k >= 0; k-- {
			ot := order[k]
			if ot == t {
				continue
			}
			gv, gerr := m.Get(stun.AttrType(ot))
			if oi := types[ot]; len(oi) > 0 {
				first := rm.TLVs[oi[0]]
				if gerr != nil || !bytes.Equal(gv, in[first.Off:first.Off+first.Len]) || (len(gv) > 0 && unsafe.SliceData(gv) != unsafe.SliceData(m.Attributes[oi[0]].Value)) {
					c.Violate("get-first", "Get-first:right-after-ForEach", map[string]interface{}{"input_hex": core.Hex(in), "walked_type": t, "looked_up_type": ot, "got": core.Hex(gv)})
				}
			} else if gerr == nil {
				c.Violate("get-absent", "Get-absent:right-after-ForEach", map[string]interface{}{"input_hex": core.Hex(in), "type": ot})
			}
		}
		// ForEach, callback fails at the k-th visit / panics at the k-th visit
		for k := 0; k < len(idxs) && k < 3; k++ {
			n := 0
			ferr = m.ForEach(at, func(*stun.Message) error {
				n++
				if n == k+1 {
					return errCallback
				}

				return nil
			})
			if !errors.Is(ferr, errCallback) || n != k+1 {
				c.Violate("foreach-error", "ForEach-error", map[string]interface{}{"input_hex": core.Hex(in), "type": t, "k": k, "visits": n, "err": fmt.Sprint(ferr)})
			}
			if !sameAttrSlice(before, m.Attributes) {
				c.Violate("foreach-restore", "ForEach-restore", map[string]interface{}{"input_hex": core.Hex(in), "type": t, "mode": "error"})
				m.Attributes = before
			}
			n = 0
			_, _ = safely(func() {
				_ = m.ForEach(at, func(*stun.Message) error {
					n++
					if n == k+1 {
						panic("callback panic")
					}

					return nil
				})
			})
			if !sameAttrSlice(before, m.Attributes) {
				c.Violate("foreach-restore", "ForEach-restore", map[string]interface{}{"input_hex": core.Hex(in), "type": t, "mode": "panic"})
				m.Attributes = before
			}
			c.Count("foreach_failing_callbacks", 2)
			if k == 0 && gen.HashBytes(in)%4 == 0 {
				// the callback ends its goroutine (runtime.Goexit: what t.FailNow/t.Skip do, what a worker that gives up
				// does): deferred restores run then too, recover-based ones do not
				n = 0
				done := make(chan struct{})
				go func() {
					defer close(done)
					_ = m.ForEach(at, func(*stun.Message) error {
						n++
						if n == len(idxs) {
							runtime.Goexit()
						}

						return nil
					})
				}()
				<-done
				if !sameAttrSlice(before, m.Attributes) {
					c.Violate("foreach-restore", "ForEach-restore", map[string]interface{}{"input_hex": core.Hex(in), "type": t, "mode": "callback ended its goroutine (runtime.Goexit)"})
					m.Attributes = before
				}
				// a clone taken from inside a callback is a decode of the bytes, not of the narrowed view
				var inside stun.Message
				var cerr error
				_ = m.ForEach(at, func(mm *stun.Message) error {
					cerr = mm.CloneTo(&inside)

					return errCallback
				})
				if cerr != nil || len(inside.Attributes) != len(before) || !bytes.Equal(inside.Raw, m.Raw) {
					c.Violate("content", "content:CloneTo-inside-ForEach", map[string]interface{}{"input_hex": core.Hex(in), "type": t,
						"clone_attributes": len(inside.Attributes), "message_attributes": len(before), "err": fmt.Sprint(cerr)})
				} else if d := diffRef(&inside, rm, in); d != "" {
					c.Violate("content", "content:CloneTo-inside-ForEach", map[string]interface{}{"input_hex": core.Hex(in), "diff": d})
				}
				c.Count("foreach_goexit_and_clone", 1)
			}
		}
	}
	// after all the walks: lookups are still "first attribute of the type"
	for _, t := range order {
		idxs := types[t]
		v, err := m.Get(stun.AttrType(t))
		if len(idxs) == 0 {
			if err == nil {
				c.Violate("get-absent", "Get-absent:after-walks", map[string]interface{}{"input_hex": core.Hex(in), "type": t})
			}

			continue
		}
		first := rm.TLVs[idxs[0]]
		if err != nil || !bytes.Equal(v, in[first.Off:first.Off+first.Len]) || (len(v) > 0 && unsafe.SliceData(v) != unsafe.SliceData(m.Attributes[idxs[0]].Value)) {
			c.Violate("get-first", "Get-first:after-walks", map[string]interface{}{"input_hex": core.Hex(in), "type": t, "got": core.Hex(v)})
		}
	}
}

func sameAttrSlice(a, b stun.Attributes) bool {
	if len(a) != len(b) {
		return false
	}
	if len(a) == 0 {
		return true
	}

	return unsafe.SliceData(a) == unsafe.SliceData(b)
}
