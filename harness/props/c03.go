package props

import (
	"bytes"
	"encoding/gob"
	"fmt"
	"net"
	"strings"

	"github.com/pion/stun/v3"
	"github.com/pion/stun/v3/verifharness/core"
	"github.com/pion/stun/v3/verifharness/gen"
	"github.com/pion/stun/v3/verifharness/ref"
)

// C03: built messages are well-formed and the struct always matches its wire bytes.
func init() { core.Register("C03", c03) }

type shAttr struct {
	typ   uint16 // type as held in the struct
	wire  uint16 // type expected on the wire
	val   []byte
	built bool // written by a building operation: padding must be zero
}

type c03State struct {
	c          *core.Ctx
	r          *gen.Rand
	m          *stun.Message
	method     uint16
	class      uint8
	lead       uint8 // leading type bits still present in Raw[0] (decoded start)
	tid        [12]byte
	attrs      []shAttr
	trail      bool // Raw still carries bytes after the declared length (decoded start)
	ops        []string
	aliasAdded bool
	// bystanders are other messages of the same program (built earlier, or decoded from the same gob value): building
	// on m must leave them - bytes, fields and attribute values - exactly as they were
	bystanders []c03Bystander
}

type c03Bystander struct {
	what string
	m    *stun.Message
	view msgView
}

func (s *c03State) addBystander(what string, m *stun.Message) {
	s.bystanders = append(s.bystanders, c03Bystander{what, m, viewOf(m)})
}

func compat(t uint16) uint16 {
	if t == 0x8020 {
		return 0x0020
	}

	return t
}

func (s *c03State) bodyLen() int {
	n := 0
	for _, a := range s.attrs {
		n += 4 + (len(a.val)+3)/4*4
	}

	return n
}

func (s *c03State) fits(valLen int) bool { return s.bodyLen()+4+(valLen+3)/4*4 <= 65535 }

func (s *c03State) fail(kind, msg string) {
	s.c.Violate(kind, kind, map[string]interface{}{
		"ops": strings.Join(s.ops, " ; "), "problem": msg, "raw_hex": core.Hex(s.m.Raw),
	})
}

// check asserts every invariant of the property on the current state. Returns false after a violation.
func (s *c03State) check() bool {
	m := s.m
	raw := m.Raw
	s.c.Count("invariant_checks", 1)
	for _, b := range s.bystanders {
		if d := b.view.diff(viewOf(b.m)); d != "" {
			s.fail("bystander-changed", fmt.Sprintf("%s changed although only the message under construction was operated on: %s", b.what, d))

			return false
		}
	}
	if len(raw) < 20 {
		s.fail("short-raw", fmt.Sprintf("len(Raw)=%d", len(raw)))

		return false
	}
	if raw[4] != 0x21 || raw[5] != 0x12 || raw[6] != 0xA4 || raw[7] != 0x42 {
		s.fail("cookie", "magic cookie missing")

		return false
	}
	hl := int(raw[2])<<8 | int(raw[3])
	if !s.trail {
		if hl != len(raw)-20 {
			s.fail("header-length", fmt.Sprintf("header length %d, bytes after header %d", hl, len(raw)-20))

			return false
		}
	} else if hl > len(raw)-20 {
		s.fail("header-length", "header length beyond buffer")

		return false
	}
	if hl != int(m.Length) || hl%4 != 0 {
		s.fail("length-field", fmt.Sprintf("header length %d, m.Length %d", hl, m.Length))

		return false
	}
	rm, why := ref.Parse(raw)
	if rm == nil {
		s.fail("unparseable", "reference parser rejects Raw: "+why)

		return false
	}
	// struct vs shadow
	if uint16(m.Type.Method) != s.method || uint8(m.Type.Class) != s.class {
		s.fail("struct-type", fmt.Sprintf("m.Type=%v shadow %x/%d", m.Type, s.method, s.class))

		return false
	}
	if m.TransactionID != s.tid {
		s.fail("struct-tid", "m.TransactionID differs from the id set")

		return false
	}
	if len(m.Attributes) != len(s.attrs) {
		s.fail("struct-attrs", fmt.Sprintf("struct has %d attributes, %d were written", len(m.Attributes), len(s.attrs)))

		return false
	}
	for i, a := range m.Attributes {
		sa := s.attrs[i]
		if uint16(a.Type) != sa.typ || int(a.Length) != len(sa.val) || !bytes.Equal(a.Value, sa.val) {
			s.fail("struct-attr", fmt.Sprintf("struct attribute %d is (%#x,%d,%x), written (%#x,%d,%x)", i, uint16(a.Type), a.Length, clip(a.Value), sa.typ, len(sa.val), clip(sa.val)))

			return false
		}
	}
	// wire vs shadow
	if rm.Type14 != ref.JoinType(s.method, s.class) || rm.Lead2 != s.lead {
		s.fail("wire-type", fmt.Sprintf("wire type %#x lead %d, expected %#x lead %d", rm.Type14, rm.Lead2, ref.JoinType(s.method, s.class), s.lead))

		return false
	}
	if rm.TID != s.tid {
		s.fail("wire-tid", "wire transaction id differs")

		return false
	}
	if len(rm.TLVs) != len(s.attrs) {
		s.fail("wire-attrs", fmt.Sprintf("wire has %d attributes, %d were written", len(rm.TLVs), len(s.attrs)))

		return false
	}
	for i, t := range rm.TLVs {
		sa := s.attrs[i]
		if t.Wire != sa.wire || t.Len != len(sa.val) || !bytes.Equal(raw[t.Off:t.Off+t.Len], sa.val) {
			s.fail("wire-attr", fmt.Sprintf("wire attribute %d is (%#x,%d), written (%#x,%d)", i, t.Wire, t.Len, sa.wire, len(sa.val)))

			return false
		}
		if sa.built {
			for k := t.Off + t.Len; k < t.Off+(t.Len+3)/4*4; k++ {
				if raw[k] != 0 {
					s.fail("padding", fmt.Sprintf("attribute %d: padding byte %#x at offset %d", i, raw[k], k))

					return false
				}
			}
		}
	}
	// the library's own decoder on a copy
	dec := new(stun.Message)
	if _, err := dec.Write(raw); err != nil {
		s.fail("lib-decode", "library rejects its own Raw: "+err.Error())

		return false
	}
	if dec.Type != m.Type || dec.TransactionID != m.TransactionID || dec.Length != m.Length || len(dec.Attributes) != len(m.Attributes) {
		s.fail("decode-vs-struct", fmt.Sprintf("decoded %v vs struct %v", dec, m))

		return false
	}
	for i, a := range dec.Attributes {
		b := m.Attributes[i]
		if uint16(a.Type) != compat(uint16(b.Type)) || a.Length != b.Length || !bytes.Equal(a.Value, b.Value) {
			s.fail("decode-vs-struct", fmt.Sprintf("attribute %d: decoded %v vs struct %v", i, a, b))

			return false
		}
	}
	if !s.aliasAdded {
		s.c.Count("equal_checks", 1)
		if !m.Equal(dec) || !dec.Equal(m) {
			s.fail("equal", fmt.Sprintf("Equal is false between the struct and the decode of its own Raw (struct attrs nil=%v len=%d; decoded nil=%v len=%d)",
				m.Attributes == nil, len(m.Attributes), dec.Attributes == nil, len(dec.Attributes)))

			return false
		}
		// ... and with a message that has the same content in another encoding (canonical bytes: zero padding, no
		// leading bits, nothing behind the message): Equal is about content
		canon := new(stun.Message)
		if err := stun.Decode(s.canonical(), canon); err != nil {
			fatalHarness("C03 canonical form does not decode: " + err.Error())
		}
		if !m.Equal(canon) || !canon.Equal(m) {
			s.fail("equal", "Equal is false between the message and a message with the same type, id and attributes in canonical encoding")

			return false
		}
	}

	return true
}

// canonical is the reference encoding of the shadow content.
func (s *c03State) canonical() []byte {
	attrs := make([]ref.Attr, len(s.attrs))
	for i, a := range s.attrs {
		attrs[i] = ref.Attr{Type: a.typ, Value: a.val}
	}

	return ref.Encode(ref.JoinType(s.method, s.class), s.tid, attrs)
}

func (s *c03State) op(name string) { s.ops = append(s.ops, name) }

// lastAttrFromStruct adopts the attribute a typed setter just appended (content correctness is C06's business).
func (s *c03State) adoptLast(wantType uint16, what string) bool {
	if len(s.m.Attributes) != len(s.attrs)+1 {
		s.fail("setter-count", fmt.Sprintf("%s: struct has %d attributes after the call, expected %d", what, len(s.m.Attributes), len(s.attrs)+1))

		return false
	}
	a := s.m.Attributes[len(s.m.Attributes)-1]
	if uint16(a.Type) != wantType {
		s.fail("setter-type", fmt.Sprintf("%s appended type %#x", what, uint16(a.Type)))

		return false
	}
	s.attrs = append(s.attrs, shAttr{typ: wantType, wire: wantType, val: append([]byte(nil), a.Value...), built: true})

	return true
}

func (s *c03State) firstIndex(t uint16) int {
	for i, a := range s.attrs {
		if compat(a.wire) == t {
			return i
		}
	}

	return -1
}

func randIP(r *gen.Rand) net.IP {
	switch r.Intn(3) {
	case 0:
		return net.IP(r.Bytes(4))
	case 1:
		return net.IP(r.Bytes(16))
	default:
		ip := make(net.IP, 16)
		ip[10], ip[11] = 0xff, 0xff
		copy(ip[12:], r.Bytes(4))

		return ip
	}
}

// step applies one random building operation. Returns false to stop the sequence.
func (s *c03State) step() bool {
	r, m := s.r, s.m
	switch r.Intn(40) {
	case 0, 1, 2, 3: // Add
		t := r.AttrType()
		n := r.ValueLen(3000)
		if r.Chance(1, 30) {
			t, n = 0x0000, 0 // type 0 with an empty value: four zero bytes on the wire, still an attribute
		}
		if !s.fits(n) {
			return true
		}
		v := r.Bytes(n)
		orig := append([]byte(nil), v...)
		s.op(fmt.Sprintf("Add(%#x,%dB)", t, n))
		if r.Bool() {
			m.Add(stun.AttrType(t), v)
		} else {
			_ = stun.RawAttribute{Type: stun.AttrType(t), Value: v, Length: uint16(r.U64())}.AddTo(m)
		}
		r.Fill(v) // the value is documented as copied: the caller may overwrite its buffer
		if t == 0x8020 {
			s.aliasAdded = true
		}
		s.attrs = append(s.attrs, shAttr{typ: t, wire: t, val: orig, built: true})
		s.trail = false
	case 4: // SetType / MessageType.AddTo
		method, class := uint16(r.Intn(0x1000)), uint8(r.Intn(4))
		if r.Chance(1, 6) {
			method, class = 0, 0 // the zero MessageType is a type like any other (method 0x000, request)
		}
		s.op(fmt.Sprintf("SetType(%#x,%d)", method, class))
		t := stun.NewType(stun.Method(method), stun.MessageClass(class))
		switch r.Intn(3) {
		case 0:
			m.SetType(t)
		case 1:
			_ = t.AddTo(m)
		default:
			_ = (&t).AddTo(m) // the pointer form (the setter the zero-allocation style passes to Build)
		}
		s.method, s.class, s.lead = method, class, 0
	case 5: // transaction id setters
		switch r.Intn(4) {
		case 0:
			tid := r.TID()
			s.op("NewTransactionIDSetter")
			_ = stun.NewTransactionIDSetter(tid).AddTo(m)
			s.tid = tid
		case 1:
			other := &stun.Message{TransactionID: r.TID()}
			if r.Bool() {
				// a source that was encoded with one id and then got another one assigned to its field (a common idiom
				// in the repository's own tests): the field is what AddTo documents to copy
				other = stun.MustBuild(stun.BindingRequest, stun.NewTransactionIDSetter(r.TID()))
				other.TransactionID = r.TID()
			}
			s.op("Message.AddTo")
			_ = other.AddTo(m)
			s.tid = other.TransactionID
		case 2:
			s.op("TransactionID.AddTo")
			if err := stun.TransactionID.AddTo(m); err != nil {
				return false
			}
			s.tid = m.TransactionID
		default:
			s.op("NewTransactionID")
			if err := m.NewTransactionID(); err != nil {
				return false
			}
			s.tid = m.TransactionID
		}
	case 6, 7: // address setters
		if !s.fits(20) {
			return true
		}
		ip, port := randIP(r), r.Intn(65536)
		var (
			err  error
			want uint16
		)
		switch r.Intn(6) {
		case 0:
			want = 0x0020
			s.op("XORMappedAddress.AddTo")
			err = stun.XORMappedAddress{IP: ip, Port: port}.AddTo(m)
		case 1:
			want = r.PickU16([]uint16{0x0012, 0x0016, 0x0020, 0x7777})
			s.op(fmt.Sprintf("XORMappedAddress.AddToAs(%#x)", want))
			err = stun.XORMappedAddress{IP: ip, Port: port}.AddToAs(m, stun.AttrType(want))
		case 2:
			want = 0x0001
			s.op("MappedAddress.AddTo")
			err = (&stun.MappedAddress{IP: ip, Port: port}).AddTo(m)
		case 3:
			want = 0x8023
			s.op("AlternateServer.AddTo")
			err = (&stun.AlternateServer{IP: ip, Port: port}).AddTo(m)
		case 4:
			want = 0x802b
			s.op("ResponseOrigin.AddTo")
			err = (&stun.ResponseOrigin{IP: ip, Port: port}).AddTo(m)
		default:
			want = 0x802c
			s.op("OtherAddress.AddTo")
			err = (&stun.OtherAddress{IP: ip, Port: port}).AddTo(m)
		}
		if err != nil {
			s.fail("setter-error", "address setter failed on a valid value: "+err.Error())

			return false
		}
		s.trail = false
		if !s.adoptLast(want, "address setter") {
			return false
		}
	case 8, 9: // text setters
		n := r.ValueLen(513)
		if !s.fits(n) {
			return true
		}
		v := r.Bytes(n)
		var (
			err  error
			want uint16
		)
		switch r.Intn(4) {
		case 0:
			want = 0x0006
			s.op(fmt.Sprintf("Username(%dB)", n))
			err = stun.Username(v).AddTo(m)
		case 1:
			want = 0x0014
			s.op(fmt.Sprintf("Realm(%dB)", n))
			err = stun.Realm(v).AddTo(m)
		case 2:
			want = 0x0015
			s.op(fmt.Sprintf("Nonce(%dB)", n))
			err = stun.Nonce(v).AddTo(m)
		default:
			want = 0x8022
			s.op(fmt.Sprintf("Software(%dB)", n))
			err = stun.Software(v).AddTo(m)
		}
		if err != nil {
			s.fail("setter-error", "text setter failed on a value within the limit: "+err.Error())

			return false
		}
		s.trail = false
		if !s.adoptLast(want, "text setter") {
			return false
		}
	case 10: // error code
		n := r.ValueLen(300)
		if !s.fits(n+4) || !s.fits(4+16) { // the second bound covers the library's own reason phrase for CodeStaleNonce
			return true
		}
		var err error
		if r.Bool() {
			s.op("ErrorCodeAttribute.AddTo")
			err = stun.ErrorCodeAttribute{Code: stun.ErrorCode(r.Range(300, 699)), Reason: r.Bytes(n)}.AddTo(m)
		} else {
			s.op("ErrorCode.AddTo")
			err = stun.CodeStaleNonce.AddTo(m)
		}
		if err != nil {
			s.fail("setter-error", "error-code setter failed: "+err.Error())

			return false
		}
		s.trail = false
		if !s.adoptLast(0x0009, "error code") {
			return false
		}
	case 11: // unknown attributes
		n := r.Intn(12)
		if !s.fits(4 * n) {
			return true
		}
		ua := make(stun.UnknownAttributes, n)
		for i := range ua {
			ua[i] = stun.AttrType(r.AttrType())
		}
		s.op(fmt.Sprintf("UnknownAttributes(%d)", n))
		if err := ua.AddTo(m); err != nil {
			s.fail("setter-error", "unknown-attributes setter failed: "+err.Error())

			return false
		}
		s.trail = false
		if !s.adoptLast(0x000A, "unknown attributes") {
			return false
		}
	case 12, 13: // MESSAGE-INTEGRITY
		if s.trail || !s.fits(20) {
			return true
		}
		key := r.Bytes(r.Intn(80))
		var mi stun.MessageIntegrity
		if r.Chance(1, 3) {
			u, re, p := fmt.Sprint(r.Intn(1000)), "realm", fmt.Sprint(r.U64())
			mi = stun.NewLongTermIntegrity(u, re, p)
			key = ref.LongTermKey(u, re, p)
		} else {
			mi = stun.NewShortTermIntegrity(string(key))
		}
		s.op(fmt.Sprintf("MessageIntegrity(key %dB)", len(key)))
		hasFP := s.firstIndex(0x8028) >= 0
		before := viewOf(m)
		// expected MAC from the raw bytes before the call
		pre := append([]byte(nil), m.Raw...)
		l := len(pre) - 20 + 24
		pre[2], pre[3] = byte(l>>8), byte(l)
		wantMAC := ref.HMACSHA1(key, pre)
		err := mi.AddTo(m)
		if hasFP {
			if err == nil {
				s.fail("integrity-after-fingerprint", "MessageIntegrity.AddTo succeeded although FINGERPRINT is present")

				return false
			}
			if d := before.diff(viewOf(m)); d != "" {
				s.fail("failed-setter-mutated", "refused MessageIntegrity.AddTo changed the message: "+d)

				return false
			}

			return true
		}
		if err != nil {
			s.fail("setter-error", "MessageIntegrity.AddTo failed: "+err.Error())

			return false
		}
		first := s.firstIndex(0x0008) < 0
		s.attrs = append(s.attrs, shAttr{typ: 0x0008, wire: 0x0008, val: wantMAC, built: true})
		if first {
			s.c.Count("signed_then_verified", 1)
			if cerr := mi.Check(m); cerr != nil {
				s.fail("signed-does-not-verify", "message just signed fails its own check: "+cerr.Error())

				return false
			}
		}
	case 14, 15: // FINGERPRINT
		if s.trail || !s.fits(4) {
			return true
		}
		s.op("Fingerprint")
		pre := append([]byte(nil), m.Raw...)
		l := len(pre) - 20 + 8
		pre[2], pre[3] = byte(l>>8), byte(l)
		v := ref.FingerprintValue(pre)
		if err := stun.Fingerprint.AddTo(m); err != nil {
			s.fail("setter-error", "Fingerprint.AddTo failed: "+err.Error())

			return false
		}
		first := s.firstIndex(0x8028) < 0
		s.attrs = append(s.attrs, shAttr{typ: 0x8028, wire: 0x8028, val: []byte{byte(v >> 24), byte(v >> 16), byte(v >> 8), byte(v)}, built: true})
		if first {
			s.c.Count("fingerprinted_then_verified", 1)
			if cerr := stun.Fingerprint.Check(m); cerr != nil {
				s.fail("fingerprinted-does-not-verify", "message just fingerprinted fails its own check: "+cerr.Error())

				return false
			}
		}
	case 16, 17: // Encode
		s.op("Encode")
		m.Encode()
		s.lead, s.trail = 0, false
		for i := range s.attrs {
			s.attrs[i].built = true
			s.attrs[i].wire = s.attrs[i].typ
		}
		s.c.Count("canonical_checks", 1)
		if want := s.canonical(); !bytes.Equal(m.Raw, want) {
			s.fail("not-canonical", fmt.Sprintf("Encode produced %d bytes that differ from the reference encoding (%d bytes)", len(m.Raw), len(want)))

			return false
		}
	case 18: // WriteHeader
		s.op("WriteHeader")
		m.WriteHeader()
		s.lead = 0
	case 19: // CloneTo, continue on the clone
		s.op("CloneTo")
		dst := new(stun.Message)
		if r.Bool() {
			dst = stun.New()
			_ = dst.Build(stun.BindingRequest, stun.NewSoftware("old content of the clone target"))
		}
		if err := m.CloneTo(dst); err != nil {
			s.fail("clone", "CloneTo failed on a built message: "+err.Error())

			return false
		}
		s.m = dst
		for i := range s.attrs {
			// the clone's struct holds decoded (alias-mapped) types
			s.attrs[i].typ = compat(s.attrs[i].wire)
		}
		s.aliasAdded = false
	case 20: // Build with setters (resets attributes, keeps Type and TransactionID fields)
		var setters []stun.Setter
		var names []string
		var lateTypeSetter stun.Setter
		newMethod, newClass, newTID := s.method, s.class, s.tid
		var newAttrs []shAttr
		if r.Bool() {
			newMethod, newClass = uint16(r.Intn(0x1000)), uint8(r.Intn(4))
			if r.Chance(1, 6) {
				newMethod, newClass = 0, 0
			}
			t := stun.NewType(stun.Method(newMethod), stun.MessageClass(newClass))
			if r.Bool() {
				setters = append(setters, t)
				names = append(names, "type")
			} else {
				setters = append(setters, &t) // Build(&t, ...): the pointer form recommended for allocation-free builds
				names = append(names, "&type")
			}
		}
		if r.Bool() {
			newTID = r.TID()
			setters = append(setters, stun.NewTransactionIDSetter(newTID))
			names = append(names, "tid")
		}
		if len(setters) > 0 && names[0] != "tid" && r.Chance(1, 4) {
			// a second type setter later in the list: setters apply in order, so this is the type of the result
			newMethod, newClass = uint16(r.Intn(0x1000)), uint8(r.Intn(4))
			late := stun.NewType(stun.Method(newMethod), stun.MessageClass(newClass))
			lateTypeSetter = late
			names = append(names, "...type again at the end")
		}
		alias := false
		for k := r.Intn(4); k > 0; k-- {
			t, v := r.AttrType(), r.Bytes(r.ValueLen(600))
			if t == 0x8020 {
				alias = true
			}
			setters = append(setters, stun.RawAttribute{Type: stun.AttrType(t), Value: v})
			newAttrs = append(newAttrs, shAttr{typ: t, wire: t, val: v, built: true})
			names = append(names, fmt.Sprintf("raw(%#x,%dB)", t, len(v)))
		}
		if lateTypeSetter != nil {
			setters = append(setters, lateTypeSetter)
		}
		s.op("Build(" + strings.Join(names, ",") + ")")
		if err := m.Build(setters...); err != nil {
			s.fail("build", "Build failed: "+err.Error())

			return false
		}
		s.method, s.class, s.tid, s.attrs, s.lead, s.trail, s.aliasAdded = newMethod, newClass, newTID, newAttrs, 0, false, alias
	case 21: // edit the attribute list in the struct, then Encode (the documented way to build from fields)
		keep := r.Intn(len(s.attrs) + 1)
		s.op(fmt.Sprintf("Attributes=Attributes[:%d];Encode", keep))
		m.Attributes = m.Attributes[:keep]
		s.attrs = s.attrs[:keep]
		m.Encode()
		s.lead, s.trail = 0, false
		for i := range s.attrs {
			s.attrs[i].built = true
			s.attrs[i].wire = s.attrs[i].typ
		}
		if want := s.canonical(); !bytes.Equal(m.Raw, want) {
			s.fail("not-canonical", fmt.Sprintf("Encode after truncating Attributes produced bytes that differ from the reference encoding (header length %d, %d bytes)", int(m.Raw[2])<<8|int(m.Raw[3]), len(m.Raw)))

			return false
		}
	case 22: // drop an attribute anywhere in the struct's list (offsets shift), then Encode
		if len(s.attrs) == 0 {
			return true
		}
		k := r.Intn(len(s.attrs))
		s.op(fmt.Sprintf("remove Attributes[%d];Encode", k))
		m.Attributes = append(m.Attributes[:k:k], m.Attributes[k+1:]...)
		s.attrs = append(s.attrs[:k:k], s.attrs[k+1:]...)
		m.Encode()
		s.lead, s.trail = 0, false
		for i := range s.attrs {
			s.attrs[i].built = true
			s.attrs[i].wire = s.attrs[i].typ
		}
		if want := s.canonical(); !bytes.Equal(m.Raw, want) {
			s.fail("not-canonical", "Encode after removing an attribute differs from the reference encoding")

			return false
		}
	case 23: // hand-built attribute list (Length fields are documented as ignored while encoding), then Encode
		n := r.Intn(5)
		var list stun.Attributes
		var sh []shAttr
		total := 0
		for k := 0; k < n; k++ {
			t, v := r.AttrType(), r.Bytes(r.ValueLen(200))
			total += 4 + (len(v)+3)/4*4
			list = append(list, stun.RawAttribute{Type: stun.AttrType(t), Length: uint16(r.U64()), Value: append([]byte(nil), v...)})
			sh = append(sh, shAttr{typ: t, wire: t, val: v, built: true})
			if t == 0x8020 {
				s.aliasAdded = true
			}
		}
		s.op(fmt.Sprintf("Attributes=hand-built(%d);Encode", n))
		m.Attributes = list
		s.attrs = sh
		m.Encode()
		s.lead, s.trail = 0, false
		if want := s.canonical(); !bytes.Equal(m.Raw, want) {
			s.fail("not-canonical", "Encode of a hand-built attribute list differs from the reference encoding")

			return false
		}
	case 24: // Build in which a setter fails: a well-formed partial message must remain
		var setters []stun.Setter
		var newAttrs []shAttr
		failAt := r.Intn(4)
		alias := false
		for k := 0; k < failAt; k++ {
			t, v := r.AttrType(), r.Bytes(r.ValueLen(100))
			if t == 0x8020 {
				alias = true
			}
			setters = append(setters, stun.RawAttribute{Type: stun.AttrType(t), Value: v})
			newAttrs = append(newAttrs, shAttr{typ: t, wire: t, val: v, built: true})
		}
		switch r.Intn(3) {
		case 0:
			setters = append(setters, stun.NewUsername(string(r.Bytes(600))))
		case 1:
			setters = append(setters, stun.XORMappedAddress{IP: net.IP{1, 2, 3}, Port: 1})
		default:
			setters = append(setters, stun.ErrorCode(299))
		}
		setters = append(setters, stun.NewSoftware("never applied"))
		s.op(fmt.Sprintf("Build(%d setters, then a failing one)", failAt))
		if err := m.Build(setters...); err == nil {
			s.fail("build", "Build succeeded although a setter must fail")

			return false
		}
		s.attrs, s.lead, s.trail, s.aliasAdded = newAttrs, 0, false, alias
	case 29: // some other message is built meanwhile (its buffer grows several times)
		other := new(stun.Message)
		if r.Bool() {
			other = stun.New()
		}
		other.WriteHeader()
		k := 1 + r.Intn(6)
		s.op(fmt.Sprintf("other message: Add x%d", k))
		for ; k > 0; k-- {
			other.Add(stun.AttrType(0x7d00+k), bytes.Repeat([]byte{0xD0 + byte(k)}, r.PickInt([]int{3, 30, 100, 120, 300, 1000, 2000})))
		}
		if r.Bool() {
			s.addBystander("the other message built meanwhile", other)
		}
	case 38: // a by-value copy of the message (an element of a []Message, `for _, m := range batch`) is reset: Reset
		// re-slices the copy's own slice headers, the message it was copied from is what it was
		s.op("cp := *m; cp.Reset()")
		cp := *m
		cp.Reset()
		if r.Bool() {
			cp.Reset()
		}
	case 39: // a by-value copy grows beyond the shared capacity (so it moves to storage of its own) and is then rebuilt
		// as something else: the original is what it was
		m.Attributes = m.Attributes[:len(m.Attributes):len(m.Attributes)]
		// Add writes behind the message the header declares (20+Length), which may lie before len(Raw) when the message was
		// decoded from a buffer with bytes behind it: "beyond the capacity" is counted from there, so that the very first
		// thing the copy's Add does is move to a buffer of its own
		n := cap(m.Raw) - (20 + int(m.Length)) + 1 + r.Intn(100)
		if n < 1 {
			return true
		}
		s.op(fmt.Sprintf("cp := *m; cp.Add(DATA,%dB beyond the capacity); cp.Build(other message)", n))
		cp := *m
		cp.Add(stun.AttrData, bytes.Repeat([]byte{0xEE}, n))
		if len(cp.Raw) > 0 && len(m.Raw) > 0 && &cp.Raw[0] == &m.Raw[0] {
			return true // did not move (cannot happen with n above the spare capacity): leave the copy alone
		}
		_ = cp.Build(stun.BindingSuccess, stun.NewSoftware("SECOND-MESSAGE-SECOND-MESSAGE-SECOND-MESSAGE-"+fmt.Sprint(r.Intn(1000))), stun.NewUsername("bob"),
			stun.RawAttribute{Type: 0x7d7d, Value: bytes.Repeat([]byte{0xD7}, r.Intn(400))})
	case 34: // calls that do not build: a refused integrity check, a fingerprint check, a lookup, an attribute walk whose
		// callback panics. The message is what it was.
		s.op("non-building calls (Check with a wrong key, Fingerprint.Check, Get, ForEach with a panicking callback)")
		_ = stun.MessageIntegrity("not the key of this message").Check(m)
		_ = stun.Fingerprint.Check(m)
		_, _ = m.Get(stun.AttrType(r.AttrType()))
		if len(m.Attributes) > 0 {
			at := m.Attributes[r.Intn(len(m.Attributes))].Type
			_, _ = safely(func() {
				_ = m.ForEach(at, func(*stun.Message) error { panic("callback gives up") })
			})
			_ = m.ForEach(at, func(*stun.Message) error { return errCallback })
		}
	case 35: // the Type field is assigned without being written, then the message is cloned: the clone is a decode of the
		// bytes (so is its Type); afterwards the field is written out
		method, class := uint16(r.Intn(0x1000)), uint8(r.Intn(4))
		s.op(fmt.Sprintf("Type=%#x/%d (field only);CloneTo;WriteType", method, class))
		old := m.Type
		m.Type = stun.NewType(stun.Method(method), stun.MessageClass(class))
		clone := new(stun.Message)
		if err := m.CloneTo(clone); err != nil {
			s.fail("clone", "CloneTo failed: "+err.Error())

			return false
		}
		if clone.Type != old || uint16(clone.Raw[0])<<8|uint16(clone.Raw[1]) != uint16(m.Raw[0])<<8|uint16(m.Raw[1]) {
			s.fail("clone", fmt.Sprintf("the clone's Type field is %v; its raw bytes (a copy of the source's) encode %v", clone.Type, old))

			return false
		}
		m.WriteType()
		s.method, s.class, s.lead = method, class, 0
	case 36: // building operations applied to the message a ForEach callback is handed (type and transaction id setters)
		if len(m.Attributes) == 0 {
			return true
		}
		at := m.Attributes[r.Intn(len(m.Attributes))].Type
		method, class, id := uint16(r.Intn(0x1000)), uint8(r.Intn(4)), r.TID()
		s.op(fmt.Sprintf("ForEach(%#x){SetType(%#x,%d);transaction id setter}", uint16(at), method, class))
		done := false
		_ = m.ForEach(at, func(mm *stun.Message) error {
			if !done {
				done = true
				mm.SetType(stun.NewType(stun.Method(method), stun.MessageClass(class)))
				_ = stun.NewTransactionIDSetter(id).AddTo(mm)
			}

			return nil
		})
		s.method, s.class, s.tid, s.lead = method, class, id, 0
	case 25: // retag an attribute in the struct, then Encode: the wire must carry the new type
		if len(s.attrs) == 0 {
			return true
		}
		k := r.Intn(len(s.attrs))
		nt := r.AttrType()
		s.op(fmt.Sprintf("Attributes[%d].Type=%#x;Encode", k, nt))
		m.Attributes[k].Type = stun.AttrType(nt)
		s.attrs[k].typ = nt
		if nt == 0x8020 {
			s.aliasAdded = true
		}
		m.Encode()
		s.lead, s.trail = 0, false
		for i := range s.attrs {
			s.attrs[i].built = true
			s.attrs[i].wire = s.attrs[i].typ
		}
		if want := s.canonical(); !bytes.Equal(m.Raw, want) {
			s.fail("not-canonical", "Encode after retagging an attribute differs from the reference encoding")

			return false
		}
	case 26: // the Type field is assigned directly (as the repository's own tools do), then SetType with that very type
		method, class := uint16(r.Intn(0x1000)), uint8(r.Intn(4))
		t := stun.NewType(stun.Method(method), stun.MessageClass(class))
		s.op(fmt.Sprintf("Type=%#x/%d;SetType(same)", method, class))
		m.Type = t
		m.SetType(t)
		s.method, s.class, s.lead = method, class, 0
	case 27: // many small attributes at once (more than 64), some types repeated with different values
		n := 65 + r.Intn(80)
		if s.bodyLen()+n*12 > 65535 {
			return true
		}
		s.op(fmt.Sprintf("Add x%d (small, repeated types)", n))
		for k := 0; k < n; k++ {
			t := []uint16{0x8022, 0x0006, 0x7f01, 0x0014}[r.Intn(4)]
			v := r.Bytes(r.Intn(7))
			m.Add(stun.AttrType(t), v)
			s.attrs = append(s.attrs, shAttr{typ: t, wire: t, val: v, built: true})
		}
		s.trail = false
	case 28: // fill the message up to the very top of the 16-bit length field
		room := 65532 - 4*r.Intn(5) - s.bodyLen()
		if room < 8 {
			return true
		}
		n := room - 4 - r.Intn(4)
		v := r.Bytes(n)
		s.op(fmt.Sprintf("Add(fill to body %d)", s.bodyLen()+4+(n+3)/4*4))
		m.Add(0x0013, v)
		s.attrs = append(s.attrs, shAttr{typ: 0x0013, wire: 0x0013, val: v, built: true})
		s.trail = false
	case 31: // through encoding/gob (GobEncode/GobDecode) into another Message, continue on that one
		s.op("gob round trip")
		var buf bytes.Buffer
		dst := new(stun.Message)
		if r.Bool() {
			_ = dst.Build(stun.BindingRequest, stun.NewSoftware("old content of the gob target"))
		}
		if err := gob.NewEncoder(&buf).Encode(m); err != nil {
			s.fail("gob", "gob encoding of a built message failed: "+err.Error())

			return false
		}
		if err := gob.NewDecoder(&buf).Decode(dst); err != nil {
			s.fail("gob", "gob decoding of a built message failed: "+err.Error())

			return false
		}
		s.m = dst
		for i := range s.attrs {
			s.attrs[i].typ = compat(s.attrs[i].wire)
		}
		s.aliasAdded = false
	case 32: // WriteTo hands out exactly the raw bytes
		s.op("WriteTo")
		var buf bytes.Buffer
		n, err := m.WriteTo(&buf)
		if err != nil || int(n) != len(m.Raw) || !bytes.Equal(buf.Bytes(), m.Raw) {
			s.fail("writeto", fmt.Sprintf("WriteTo wrote %d bytes (err %v), Raw has %d", n, err, len(m.Raw)))

			return false
		}
	default: // WriteLength / WriteType / WriteTransactionID are idempotent on a consistent message
		s.op("WriteLength+WriteTransactionID")
		m.WriteLength()
		m.WriteTransactionID()
		if r.Bool() {
			s.op("WriteType")
			m.WriteType()
			s.lead = 0 // the type word is rewritten from the struct: leading bits of a decoded start are gone
		}
	}

	return s.check()
}

func c03(c *core.Ctx) {
	selfCheckOracles()
	maxOps := int(c.N(12, 40))
	nSeq := c.N(20000, 3000000)
	if c.Config != "rel" && c.Config != "dbg" {
		nSeq = c.N(20000, 1000000) // the 32-bit worker: the same sequences, the first million of them in the thorough tier
	}
	c.Section("sequences", nSeq, func(i int64, r *gen.Rand) {
		s := &c03State{c: c, r: r}
		if r.Chance(1, 3) {
			// a message built earlier in the same program, with several buffer growths behind it
			early := new(stun.Message)
			early.WriteHeader()
			for k := 2 + r.Intn(6); k > 0; k-- {
				early.Add(stun.AttrType(0x7c00+k), bytes.Repeat([]byte{0xC0 + byte(k)}, r.PickInt([]int{5, 40, 90, 130, 500, 1100})))
			}
			s.addBystander("a message built earlier", early)
		}
		switch r.Intn(6) {
		case 0: // Build on a fresh message
			s.m = new(stun.Message)
			s.op("new;Build()")
			_ = s.m.Build()
			if r.Bool() {
				s.op("stun.Build()")
				var err error
				if s.m, err = stun.Build(); err != nil {
					fatalHarness("stun.Build(): " + err.Error())
				}
			}
		case 1: // WriteHeader / Encode on a fresh or pre-allocated message
			if r.Bool() {
				s.m = new(stun.Message)
			} else {
				s.m = stun.New()
			}
			if r.Bool() {
				s.op("new;WriteHeader")
				s.m.WriteHeader()
			} else {
				s.op("new;Encode")
				s.m.Encode()
			}
		case 2: // a poisoned, reused buffer
			buf := make([]byte, 64+r.Intn(512))
			for k := range buf {
				buf[k] = 0xA5
			}
			s.m = &stun.Message{Raw: buf[:r.Intn(len(buf))]}
			s.op("poisoned;Build()")
			_ = s.m.Build()
		case 4: // two messages received in ONE gob value; the first one is built upon, the second must not notice
			var buf bytes.Buffer
			a, b := r.Spec(4, 60), r.Spec(4, 60)
			src := []stun.Message{{Raw: a.Wire()}, {Raw: b.Wire()}}
			if err := gob.NewEncoder(&buf).Encode(src); err != nil {
				fatalHarness("C03 gob encode: " + err.Error())
			}
			var got []stun.Message
			if err := gob.NewDecoder(&buf).Decode(&got); err != nil || len(got) != 2 {
				c.Violate("start-decode", "start-decode:gob", map[string]interface{}{"err": fmt.Sprint(err)})

				return
			}
			s.m = &got[0]
			rm, _ := ref.Parse(a.Wire())
			s.op(fmt.Sprintf("gob.Decode([2]Message)(%dB,%d attrs)", len(a.Wire()), len(rm.TLVs)))
			s.method, s.class, s.lead, s.tid = rm.Method, rm.Class, rm.Lead2, rm.TID
			w := a.Wire()
			for _, t := range rm.TLVs {
				s.attrs = append(s.attrs, shAttr{typ: t.Type, wire: t.Wire, val: append([]byte(nil), w[t.Off:t.Off+t.Len]...), built: true})
			}
			s.addBystander("the second message of the same gob value", &got[1])
		default: // a decoded message
			spec := r.Spec(6, 80)
			wire := r.WireDirty(spec)
			rm, _ := ref.Parse(wire)
			s.m = new(stun.Message)
			if err := stun.Decode(wire, s.m); err != nil || rm == nil {
				c.Violate("start-decode", "start-decode", map[string]interface{}{"input_hex": core.Hex(wire)})

				return
			}
			s.op(fmt.Sprintf("Decode(%dB,%d attrs)", len(wire), len(rm.TLVs)))
			s.method, s.class, s.lead, s.tid = rm.Method, rm.Class, rm.Lead2, rm.TID
			s.trail = len(wire) > 20+rm.Length
			for _, t := range rm.TLVs {
				s.attrs = append(s.attrs, shAttr{typ: t.Type, wire: t.Wire, val: append([]byte(nil), wire[t.Off:t.Off+t.Len]...)})
			}
		}
		c.Eval(1)
		if !s.check() {
			return
		}
		n := 1 + r.Intn(maxOps)
		for k := 0; k < n; k++ {
			if !s.step() {
				break
			}
			c.Count("operations", 1)
		}
		if c.Violated() {
			return
		}
		// decode-then-encode / final canonical form
		s.op("Encode(final)")
		s.m.Encode()
		s.lead, s.trail = 0, false
		for k := range s.attrs {
			s.attrs[k].built, s.attrs[k].wire = true, s.attrs[k].typ
		}
		if want := s.canonical(); !bytes.Equal(s.m.Raw, want) {
			s.fail("not-canonical", "final Encode differs from the reference encoding")

			return
		}
		s.check()
		c.Distinct(gen.HashString(strings.Join(s.ops, ";")))
		if c.WantSample() && len(s.ops) >= 4 && len(s.ops) <= 9 {
			c.Sample(strings.Join(s.ops, " ; "))
		}
	})
}
