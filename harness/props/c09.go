package props

import (
	"bytes"
	"crypto/rand"
	"errors"
	"fmt"
	"net"

	"github.com/pion/stun/v3"
	"github.com/pion/stun/v3/verifharness/core"
	"github.com/pion/stun/v3/verifharness/gen"
)

// C09: setters reject unrepresentable values and fail atomically.
func init() { core.Register("C09", c09) }

// codes with a default reason (RFC 5389, 5766, 6062, 6156, 5245): pinned in the harness.
var c09DefaultReason = map[int]bool{ //nolint:gochecknoglobals
	300: true, 400: true, 401: true, 420: true, 438: true, 487: true, 500: true,
	403: true, 437: true, 441: true, 442: true, 486: true, 508: true, 446: true, 447: true, 440: true, 443: true,
}

// c09Preceding builds an arbitrary preceding message.
func c09Preceding(r *gen.Rand) *stun.Message {
	var m *stun.Message
	switch r.Intn(3) {
	case 0:
		m = new(stun.Message)
	case 1:
		m = stun.New()
	default:
		m = &stun.Message{Raw: make([]byte, 0, 20+r.Intn(40))}
	}
	setters := []stun.Setter{stun.NewType(stun.Method(r.Intn(0x1000)), stun.MessageClass(r.Intn(4))), stun.NewTransactionIDSetter(r.TID())}
	for k := r.Intn(6); k > 0; k-- {
		t := r.AttrType()
		if t == 0x8028 {
			t = 0x8022
		}
		setters = append(setters, stun.RawAttribute{Type: stun.AttrType(t), Value: r.Bytes(r.ValueLen(60))})
	}
	_ = m.Build(setters...)

	return m
}

// c09Try applies the setter and checks accept/reject, the error class, and atomicity.
func c09Try(c *core.Ctx, m *stun.Message, what string, s stun.Setter, wantOK bool, wantClass string, wantType uint16) {
	c.Eval(1)
	before := viewOf(m)
	nAttrs := len(m.Attributes)
	var err error
	if p, stack := safely(func() { err = s.AddTo(m) }); p != nil {
		reportPanic(c, what, p, stack, map[string]interface{}{"setter": what})

		return
	}
	detail := map[string]interface{}{"setter": what, "err": fmt.Sprint(err), "message_before_hex": core.Hex(before.Raw)}
	if (err == nil) != wantOK {
		detail["expected_accept"] = wantOK
		c.Violate("limit", "limit:"+opName(what), detail)

		return
	}
	if c.WantSample() && err != nil {
		c.Sample(map[string]interface{}{"setter": what, "result": fmt.Sprint(err), "message_before_bytes": len(before.Raw)})
	}
	if err != nil {
		c.Count("rejections", 1)
		if cl := errClass(err); cl != wantClass {
			detail["class"], detail["want_class"] = cl, wantClass
			c.Violate("error-class", "error-class:"+opName(what), detail)
		}
		if d := before.diff(viewOf(m)); d != "" {
			detail["diff"] = d
			c.Violate("not-atomic", "not-atomic:"+opName(what), detail)
		}

		return
	}
	c.Count("acceptances", 1)
	if len(m.Attributes) != nAttrs+1 || uint16(m.Attributes[nAttrs].Type) != wantType {
		c.Violate("accepted-but-not-appended", "not-appended:"+opName(what), detail)
	}
}

// stingyReader delivers `left` bytes and then fails, like an entropy source that dies in the middle of a read.
type stingyReader struct {
	left int
	src  *gen.Rand
}

func (s *stingyReader) Read(p []byte) (int, error) {
	if s.left == 0 {
		return 0, errors.New("entropy source failed")
	}
	n := len(p)
	if n > s.left {
		n = s.left
	}
	for k := 0; k < n; k++ {
		p[k] = byte(s.src.U64()) | 1
	}
	s.left -= n
	if s.left == 0 {
		return n, errors.New("entropy source failed")
	}

	return n, nil
}

type countingSetter struct {
	inner stun.Setter
	calls *int
}

func (s countingSetter) AddTo(m *stun.Message) error {
	*s.calls++

	return s.inner.AddTo(m)
}

func c09(c *core.Ctx) {
	selfCheckOracles()
	reps := int(c.N(5, 600))
	// (1) text attributes and the ERROR-CODE reason, lengths 0..limit+300
	type textSetter struct {
		name  string
		typ   uint16
		limit int
		mk    func(v []byte) stun.Setter
	}
	texts := []textSetter{
		{"Username", 0x0006, 513, func(v []byte) stun.Setter { return stun.Username(v) }},
		{"Realm", 0x0014, 763, func(v []byte) stun.Setter { return stun.Realm(v) }},
		{"Nonce", 0x0015, 763, func(v []byte) stun.Setter { return stun.Nonce(v) }},
		{"Software", 0x8022, 763, func(v []byte) stun.Setter { return stun.Software(v) }},
		{"ErrorCodeAttribute.Reason", 0x0009, 763, func(v []byte) stun.Setter {
			return stun.ErrorCodeAttribute{Code: stun.CodeBadRequest, Reason: v}
		}},
		{"TextAttribute.AddToAs(limit 10)", 0x7f01, 10, func(v []byte) stun.Setter {
			return setterFunc(func(m *stun.Message) error { return stun.TextAttribute(v).AddToAs(m, 0x7f01, 10) })
		}},
	}
	for _, ts := range texts {
		ts := ts
		span := ts.limit + 301
		if ts.limit == 10 {
			span = 40
		}
		c.Section("text-"+ts.name, int64(span), func(i int64, r *gen.Rand) {
			n := int(i)
			for k := 0; k < reps; k++ {
				m := c09Preceding(r)
				v := r.Bytes(n)
				if k%2 == 1 && n >= 2 {
					// delimiters a text convention might want to strip before counting: the limit counts bytes
					pair := [][2]byte{{'"', '"'}, {'\'', '\''}, {' ', ' '}, {'<', '>'}, {0, 0}, {'\r', '\n'}, {'[', ']'}, {'\t', ' '}}[(k/2)%8]
					v[0], v[n-1] = pair[0], pair[1]
				}
				c09Try(c, m, fmt.Sprintf("%s(%dB)", ts.name, n), ts.mk(v), n <= ts.limit, "size-overflow", ts.typ)
			}
			c.Distinct(uint64(n) | uint64(ts.typ)<<20)
		})
	}
	// (1b) far beyond the limit, around the multiples of 65536 where a 16-bit length would wrap into the accepted range
	c.Section("text-huge", int64(len(texts)*12), func(i int64, r *gen.Rand) {
		ts := texts[int(i)%len(texts)]
		n := []int{65535, 65536, 65537, 65536 + 10, 65536 + ts.limit, 65536 + ts.limit + 1, 2*65536 + 7, 3*65536 + ts.limit,
			1 << 20, 1<<20 + ts.limit, 16 << 20, 65536 + r.Intn(ts.limit+1)}[int(i)/len(texts)]
		m := c09Preceding(r)
		c09Try(c, m, fmt.Sprintf("%s(%dB)", ts.name, n), ts.mk(r.Bytes(n)), false, "size-overflow", ts.typ)
		c.Distinct(uint64(n) | uint64(ts.typ)<<32 | 3<<50)
	})
	// (1c) the random transaction id setter when the system's entropy source fails after k bytes: an error, and the
	// message's raw bytes, length and attribute list are what they were
	c.SectionSerial("transaction-id-entropy-failure", 13*4, func(i int64, r *gen.Rand) {
		k := int(i) % 13
		saved := rand.Reader
		defer func() { rand.Reader = saved }()
		m := c09Preceding(r)
		before := viewOf(m)
		rand.Reader = &stingyReader{left: k, src: r}
		var err error
		var via string
		p, stack := safely(func() {
			if i%2 == 0 {
				via = "TransactionID.AddTo"
				err = stun.TransactionID.AddTo(m)
			} else {
				via = "Message.NewTransactionID"
				err = m.NewTransactionID()
			}
		})
		rand.Reader = saved
		c.Eval(1)
		detail := map[string]interface{}{"setter": via, "entropy_bytes_before_failure": k, "err": fmt.Sprint(err), "message_before_hex": core.Hex(before.Raw)}
		if p != nil {
			reportPanic(c, via, p, stack, detail)

			return
		}
		if k >= 12 {
			if err != nil {
				c.Violate("limit", "limit:"+via, detail)
			}

			return
		}
		c.Count("rejections", 1)
		if err == nil {
			c.Violate("limit", "limit:"+via+":entropy-failure-ignored", detail)

			return
		}
		after := viewOf(m)
		after.TID = before.TID // the statement is about raw bytes, length and attribute list
		if d := before.diff(after); d != "" {
			detail["diff"] = d
			detail["message_after_hex"] = core.Hex(m.Raw)
			c.Violate("not-atomic", "not-atomic:"+via, detail)
		}
		c.Distinct(uint64(i) | 4<<50)
	})
	// (1d) an ERROR-CODE without reason text (nil slice) is an ERROR-CODE with the empty reason, for every code
	c.Section("error-code-nil-reason", 400, func(i int64, r *gen.Rand) {
		code := 300 + int(i)
		m := c09Preceding(r)
		var reason []byte
		if i%3 == 1 {
			reason = []byte{}
		}
		c09Try(c, m, fmt.Sprintf("ErrorCodeAttribute{Code:%d,Reason:nil}", code), stun.ErrorCodeAttribute{Code: stun.ErrorCode(code), Reason: reason}, true, "", 0x0009)
		if k := len(m.Attributes); k > 0 && m.Attributes[k-1].Type == stun.AttrErrorCode {
			if v := m.Attributes[k-1].Value; len(v) != 4 || int(v[2])*100+int(v[3]) != code {
				c.Violate("accepted-but-not-appended", "not-appended:ErrorCodeAttribute-nil-reason", map[string]interface{}{"code": code, "value_hex": core.Hex(v), "expected": "class, number and an empty reason"})
			}
		}
		c.Distinct(uint64(code) | 5<<50)
	})
	// (1e) the limits do not move with what other messages in the process were given before
	c.Section("limits-after-history", c.N(200, 50000), func(i int64, r *gen.Rand) {
		for k := 2 + r.Intn(6); k > 0; k-- {
			o := c09Preceding(r)
			switch r.Intn(6) {
			case 0:
				ua := make(stun.UnknownAttributes, r.PickInt([]int{1, 60, 384, 500, 1000, 3000}))
				for j := range ua {
					ua[j] = stun.AttrType(r.U64())
				}
				_ = ua.AddTo(o)
			case 1:
				_ = stun.ErrorCodeAttribute{Code: stun.CodeBadRequest, Reason: r.Bytes(r.PickInt([]int{0, 100, 763}))}.AddTo(o)
			case 2:
				_ = stun.Software(r.Bytes(763)).AddTo(o)
			case 3:
				_ = stun.Username(r.Bytes(513)).AddTo(o)
			case 4:
				o.Add(stun.AttrData, r.Bytes(r.PickInt([]int{1200, 5000, 20000})))
			default:
				_ = (&stun.XORMappedAddress{IP: net.IP(r.Bytes(16)), Port: 1}).AddTo(o)
			}
		}
		ts := texts[int(i)%len(texts)]
		for _, n := range []int{ts.limit + 1, ts.limit, ts.limit + 37, ts.limit + 237} {
			m := c09Preceding(r)
			c09Try(c, m, fmt.Sprintf("%s(%dB) after other messages were built", ts.name, n), ts.mk(r.Bytes(n)), n <= ts.limit, "size-overflow", ts.typ)
		}
		c.Distinct(r.U64())
	})
	// (2) IP lengths 0..20 for every address setter
	type ipSetter struct {
		name string
		typ  uint16
		mk   func(ip net.IP, port int) stun.Setter
	}
	ips := []ipSetter{
		{"XORMappedAddress.AddTo", 0x0020, func(ip net.IP, p int) stun.Setter { return stun.XORMappedAddress{IP: ip, Port: p} }},
		{"XORMappedAddress.AddToAs", 0x0016, func(ip net.IP, p int) stun.Setter {
			return setterFunc(func(m *stun.Message) error {
				return stun.XORMappedAddress{IP: ip, Port: p}.AddToAs(m, stun.AttrXORRelayedAddress)
			})
		}},
		{"MappedAddress.AddTo", 0x0001, func(ip net.IP, p int) stun.Setter { return &stun.MappedAddress{IP: ip, Port: p} }},
		{"MappedAddress.AddToAs", 0x7e01, func(ip net.IP, p int) stun.Setter {
			return setterFunc(func(m *stun.Message) error { return (&stun.MappedAddress{IP: ip, Port: p}).AddToAs(m, 0x7e01) })
		}},
		{"AlternateServer.AddTo", 0x8023, func(ip net.IP, p int) stun.Setter { return &stun.AlternateServer{IP: ip, Port: p} }},
		{"ResponseOrigin.AddTo", 0x802b, func(ip net.IP, p int) stun.Setter { return &stun.ResponseOrigin{IP: ip, Port: p} }},
		{"OtherAddress.AddTo", 0x802c, func(ip net.IP, p int) stun.Setter { return &stun.OtherAddress{IP: ip, Port: p} }},
	}
	c.Section("ip-lengths", int64(len(ips)*21), func(i int64, r *gen.Rand) {
		is := ips[int(i)%len(ips)]
		n := int(i) / len(ips)
		for k := 0; k < reps*4; k++ {
			m := c09Preceding(r)
			if k%3 == 2 {
				m.TransactionID = r.TID() // assigned, not yet written out: a refused setter does not write it out either
			}
			var ip net.IP
			if n > 0 || r.Bool() {
				ip = net.IP(r.Bytes(n))
			}
			c09Try(c, m, fmt.Sprintf("%s(ip %dB)", is.name, n), is.mk(ip, r.Intn(65536)), n == 4 || n == 16, "bad-ip-length", is.typ)
		}
		c.Distinct(uint64(i) | 1<<40)
	})
	// (3) ErrorCode.AddTo for all codes 0..999 (and a few outside)
	c.Section("error-codes", 1004, func(i int64, r *gen.Rand) {
		code := int(i)
		switch i {
		case 1000:
			code = -1
		case 1001:
			code = 1 << 20
		case 1002:
			code = 65536 + 400
		case 1003:
			code = -400
		}
		for k := 0; k < reps; k++ {
			if k == 1 {
				// the code has been logged meanwhile, the way values are logged (fmt verbs find any Stringer / error / Formatter
				// the type has; an attribute holding it is formatted too): which codes have a default reason is not changed by that
				ec := stun.ErrorCode(code)
				_ = fmt.Sprintf("%v|%d|%+v", ec, ec, ec)
				_ = fmt.Sprintln(ec, []stun.ErrorCode{ec})
				_ = fmt.Sprint(stun.ErrorCodeAttribute{Code: ec}, &stun.ErrorCodeAttribute{Code: ec, Reason: []byte("logged")})
				if st, ok := interface{}(ec).(fmt.Stringer); ok {
					_ = st.String()
				}
				c.Count("error_codes_formatted_before_use", 1)
			}
			m := c09Preceding(r)
			c09Try(c, m, fmt.Sprintf("ErrorCode(%d).AddTo", code), stun.ErrorCode(code), c09DefaultReason[code], "no-default-reason", 0x0009)
		}
		c.Distinct(uint64(i) | 2<<40)
	})
	// (4) MessageIntegrity.AddTo with FINGERPRINT at every position of the preceding message
	c.Section("integrity-after-fingerprint", c.N(300, 200000), func(i int64, r *gen.Rand) {
		n := 1 + r.Intn(6)
		fpAt := -1
		if !r.Chance(1, 5) {
			fpAt = r.Intn(n)
		}
		m := new(stun.Message)
		_ = m.Build(stun.BindingRequest, stun.NewTransactionIDSetter(r.TID()))
		for k := 0; k < n; k++ {
			if k == fpAt {
				if r.Bool() {
					_ = stun.Fingerprint.AddTo(m)
				} else {
					m.Add(stun.AttrFingerprint, r.Bytes(r.PickInt([]int{0, 3, 4, 9}))) // any FINGERPRINT-typed attribute counts
				}
				if r.Chance(1, 6) {
					// ... and however many of them there are (255, 256, 257, 512: counters wrap)
					for j := r.PickInt([]int{254, 255, 256, 511}); j > 0; j-- {
						m.Add(stun.AttrFingerprint, []byte{1, 2, 3, 4})
					}
				}
			} else if fpAt >= 0 && k > fpAt && r.Chance(1, 3) {
				m.Add(stun.AttrMessageIntegrity, r.Bytes(20)) // a MESSAGE-INTEGRITY already stands behind the FINGERPRINT (as received)
			} else {
				t := r.AttrType()
				if t == 0x8028 {
					t = 0x8029
				}
				m.Add(stun.AttrType(t), r.Bytes(r.ValueLen(30)))
			}
		}
		what := fmt.Sprintf("MessageIntegrity.AddTo(fingerprint at %d of %d)", fpAt, n)
		if fpAt >= 0 && r.Chance(1, 3) {
			// the same message as it arrives from the network: decoded in place from a buffer that holds more bytes
			// than the message (the refusal must leave those alone too)
			m2 := &stun.Message{Raw: append(append([]byte(nil), m.Raw...), r.Bytes(1+r.Intn(12))...)}
			if err := m2.Decode(); err != nil {
				fatalHarness("C09 re-decode: " + err.Error())
			}
			m = m2
			what += " on a decoded message with bytes behind it"
		}
		if r.Chance(1, 4) {
			// the same message as a value assembled from the exported fields of the first (a struct literal, a field-by-field
			// copy, a value restored by an encoder that knows only exported fields): what it holds is what counts
			m = &stun.Message{Type: m.Type, Length: m.Length, TransactionID: m.TransactionID, Attributes: m.Attributes, Raw: m.Raw}
			what += " on a message assembled from exported fields"
		}
		c09Try(c, m, what, stun.NewShortTermIntegrity(string(r.Bytes(r.Intn(30)))),
			fpAt < 0, "fingerprint-before-integrity", 0x0008)
		c.Distinct(uint64(fpAt+1)<<8 | uint64(n) | 3<<40)
	})
	// (5) Build stops at and returns the first failing setter's error
	c.Section("build-first-error", c.N(400, 200000), func(_ int64, r *gen.Rand) {
		c.Eval(1)
		n := 1 + r.Intn(7)
		failAt := r.Intn(n + 1) // n: nobody fails
		second := -1
		if failAt < n-1 && r.Bool() {
			second = failAt + 1 + r.Intn(n-failAt-1)
		}
		calls := make([]int, n)
		setters := make([]stun.Setter, n)
		var firstErrClass string
		for k := 0; k < n; k++ {
			var s stun.Setter
			if k == failAt || k == second {
				switch r.Intn(4) {
				case 0:
					s = stun.Software(r.Bytes(764 + r.Intn(50)))
					if k == failAt {
						firstErrClass = "size-overflow"
					}
				case 1:
					s = stun.XORMappedAddress{IP: net.IP(r.Bytes(5)), Port: 1}
					if k == failAt {
						firstErrClass = "bad-ip-length"
					}
				case 2:
					s = stun.ErrorCode(299)
					if k == failAt {
						firstErrClass = "no-default-reason"
					}
				default:
					s = setterFunc(func(*stun.Message) error { return errCallback })
					if k == failAt {
						firstErrClass = "callback"
					}
				}
			} else {
				s = stun.RawAttribute{Type: stun.AttrType(0x7000 + k), Value: r.Bytes(r.ValueLen(20))}
			}
			setters[k] = countingSetter{inner: s, calls: &calls[k]}
		}
		m := c09Preceding(r)
		// bare (unwrapped) transaction-id setters of the library's own types at both ends of the list: the one in front is
		// applied, the one behind the failing setter is not
		idFront, idBack := r.TID(), r.TID()
		all := append([]stun.Setter{stun.NewTransactionIDSetter(idFront)}, setters...)
		switch r.Intn(3) {
		case 0:
			all = append(all, stun.NewTransactionIDSetter(idBack))
		case 1:
			all = append(all, &stun.Message{TransactionID: idBack}) // *Message is a setter too: it sets the id
		default:
			all = append(all, stun.TransactionID) // a random one
		}
		err := m.Build(all...)
		detail := map[string]interface{}{"setters": n, "first_failing": failAt, "second_failing": second, "calls": fmt.Sprint(calls), "err": fmt.Sprint(err)}
		if failAt < n && (m.TransactionID != idFront || len(m.Raw) < 20 || !bytes.Equal(m.Raw[8:20], idFront[:])) {
			detail["transaction_id_hex"], detail["id_set_before_the_failure_hex"] = core.Hex(m.TransactionID[:]), core.Hex(idFront[:])
			c.Violate("build-continued", "build-continued:transaction-id-setter-behind-the-failure", detail)

			return
		}
		if failAt == n {
			if err != nil {
				c.Violate("build-spurious-error", "build-spurious-error", detail)
			}

			return
		}
		cl := errClass(err)
		if errors.Is(err, errCallback) {
			cl = "callback"
		}
		// the error itself, not a wrapper around it: what the failing setter returns directly
		direct := setters[failAt].(countingSetter).inner.AddTo(new(stun.Message)) //nolint:forcetypeassert
		sameError := err == direct                                                //nolint:errorlint // identity is the point
		if !sameError && direct != nil && err != nil {
			// debug builds create a fresh error value per call: then type and text must coincide
			sameError = fmt.Sprintf("%T|%v", err, err) == fmt.Sprintf("%T|%v", direct, direct)
		}
		if err != nil && !sameError {
			detail["returned"], detail["setter_returns"] = fmt.Sprintf("%T: %v", err, err), fmt.Sprintf("%T: %v", direct, direct)
			c.Violate("build-wrong-error", "build-wraps-error", detail)

			return
		}
		if err == nil || cl != firstErrClass {
			detail["class"], detail["want_class"] = cl, firstErrClass
			c.Violate("build-wrong-error", "build-wrong-error", detail)

			return
		}
		for k := 0; k < n; k++ {
			want := 0
			if k <= failAt {
				want = 1
			}
			if calls[k] != want {
				c.Violate("build-continued", "build-continued", detail)

				return
			}
		}
		// the message is the partial build: exactly the setters before the failing one were applied
		if len(m.Attributes) != failAt {
			detail["attrs"] = len(m.Attributes)
			c.Violate("build-partial-state", "build-partial-state", detail)
		}
		c.Count("builds_with_failing_setter", 1)
		c.Distinct(uint64(failAt)<<8 | uint64(n) | uint64(second+1)<<16 | 4<<40)
	})
}

type setterFunc func(m *stun.Message) error

func (f setterFunc) AddTo(m *stun.Message) error { return f(m) }
