package props

import (
	"errors"
	"fmt"
	"io"
	"sync"

	"github.com/pion/stun/v3"
	"github.com/pion/stun/v3/verifharness/core"
	"github.com/pion/stun/v3/verifharness/gen"
	"github.com/pion/stun/v3/verifharness/ref"
)

// C05: FINGERPRINT follows RFC 5389 section 15.5 and detects every single-bit corruption.
func init() { core.Register("C05", c05) }

// c05Oracle: should Fingerprint.Check pass on these (decodable) bytes?
func c05Oracle(b []byte, rm *ref.Msg) (pass bool, count int, why string) {
	first := -1
	for i, t := range rm.TLVs {
		if t.Type == 0x8028 {
			count++
			if first < 0 {
				first = i
			}
		}
	}
	if first < 0 {
		return false, 0, "no FINGERPRINT"
	}
	t := rm.TLVs[first]
	if t.Len != 4 {
		return false, count, fmt.Sprintf("first FINGERPRINT has length %d", t.Len)
	}
	got := uint32(b[t.Off])<<24 | uint32(b[t.Off+1])<<16 | uint32(b[t.Off+2])<<8 | uint32(b[t.Off+3])
	if got != ref.FingerprintValue(b[:len(b)-8]) {
		return false, count, "CRC differs"
	}

	return true, count, "CRC equals"
}

func c05Judge(c *core.Ctx, b []byte, what string, corruption bool) {
	c.Eval(1)
	rm, _ := ref.Parse(b)
	m := new(stun.Message)
	var err error
	if gen.HashBytes(b)&1 == 0 {
		err = stun.Decode(b, m)
	} else {
		m.Raw = append(make([]byte, 0, len(b)), b...)
		err = m.Decode()
	}
	if (err == nil) != (rm != nil) {
		c.Violate("decode-verdict", "decode-verdict", map[string]interface{}{"what": what, "input_hex": core.Hex(b), "err": fmt.Sprint(err)})

		return
	}
	if rm == nil {
		c.Count("detected_by_decoder", 1)

		return
	}
	if h := gen.HashBytes(b); h%5 == 0 && len(rm.TLVs) > 0 && len(rm.TLVs) <= 64 {
		// earlier ordinary use of the decoded message: an attribute walk whose callback fails or panics (recovered by
		// the caller, as net/http-style servers do). The message bytes did not change, so neither does the verdict.
		pick := rm.TLVs[int((h>>8)%uint64(len(rm.TLVs)))].Type
		if pick == 0x8020 {
			pick = 0x0020
		}
		_, _ = safely(func() {
			_ = m.ForEach(stun.AttrType(pick), func(*stun.Message) error {
				if h&0x10000 != 0 {
					panic("callback gives up")
				}

				return errors.New("callback error")
			})
		})
		c.Count("checks_after_aborted_foreach", 1)
	} else if h%5 == 1 {
		// ... or a read that delivered nothing (an expired deadline, a closed pipe) since the message was decoded
		errs := []error{io.EOF, io.ErrUnexpectedEOF, io.ErrClosedPipe, errors.New("i/o timeout")}
		_, _ = m.ReadFrom(&scriptedReader{mode: 3 - int((h>>8)%2), data: nil})
		_, _ = m.ReadFrom(failingReader{errs[int((h>>9)%uint64(len(errs)))]})
		c.Count("checks_after_failed_reads", 1)
	}
	var clone *stun.Message
	if h := gen.HashBytes(b); h%5 == 2 || h%5 == 3 {
		// ... or read-only use of other kinds: the message was logged (fmt verbs reach the Stringers of the message and of
		// every attribute), compared with another decode of the same bytes, cloned from inside an attribute walk. None
		// of these is an edit: the message is what it was, and so is the verdict (for the clone as well).
		pre := viewOf(m)
		if h%5 == 2 {
			_ = fmt.Sprintf("%v|%s|%+v|%v", m.Attributes, m.Attributes, *m, m) //nolint:govet // a by-value copy is the point
			for _, a := range m.Attributes {
				_ = a.String()
			}
			c.Count("checks_after_formatting", 1)
		} else {
			other := new(stun.Message)
			_ = stun.Decode(b, other)
			if !m.Equal(other) || !other.Equal(m) {
				c.Violate("check-verdict", "equal-to-own-bytes", map[string]interface{}{"what": what, "input_hex": core.Hex(b), "problem": "two decodes of the same bytes are not Equal"})
			}
			if len(rm.TLVs) > 0 && len(rm.TLVs) <= 64 {
				pick := rm.TLVs[int((h>>8)%uint64(len(rm.TLVs)))].Type
				if pick == 0x8020 {
					pick = 0x0020
				}
				_ = m.ForEach(stun.AttrType(pick), func(mm *stun.Message) error {
					if clone == nil {
						clone = new(stun.Message)
						if mm.CloneTo(clone) != nil {
							clone = nil
						}
					}

					return nil
				})
			}
			c.Count("checks_after_comparison_and_clone", 1)
		}
		if d := pre.diff(viewOf(m)); d != "" {
			c.Violate("check-mutated", "read-only-use-mutated", map[string]interface{}{"what": what, "input_hex": core.Hex(b), "use": []string{"formatting", "Equal / CloneTo inside ForEach"}[h%5-2], "diff": d})

			return
		}
	}
	before := viewOf(m)
	var cerr error
	if p, stack := safely(func() { cerr = stun.Fingerprint.Check(m) }); p != nil {
		reportPanic(c, "Fingerprint.Check", p, stack, map[string]interface{}{"what": what, "input_hex": core.Hex(b)})

		return
	}
	want, count, why := c05Oracle(b, rm)
	if want {
		c.Count("oracle_pass", 1)
	} else {
		c.Count("oracle_fail", 1)
	}
	if (cerr == nil) != want {
		c.Violate("check-verdict", "check-verdict:"+what, map[string]interface{}{"what": what, "input_hex": core.Hex(b), "lib": fmt.Sprint(cerr), "oracle": why})
	}
	if clone != nil {
		if cl := stun.Fingerprint.Check(clone); (cl == nil) != want {
			c.Violate("check-verdict", "check-verdict:clone-taken-inside-ForEach", map[string]interface{}{"what": what, "input_hex": core.Hex(b), "lib": fmt.Sprint(cl), "oracle": why})
		}
	}
	if corruption && count == 1 {
		c.Count("corruptions_with_single_fingerprint", 1)
		if cerr == nil {
			c.Violate("corruption-undetected", "corruption-undetected:"+what, map[string]interface{}{"what": what, "input_hex": core.Hex(b)})
		}
	}
	if cerr != nil {
		switch errClass(cerr) {
		case "fingerprint-mismatch", "not-found", "size-invalid":
		default:
			c.Violate("check-error-class", "check-error-class", map[string]interface{}{"what": what, "class": errClass(cerr)})
		}
	}
	if d := before.diff(viewOf(m)); d != "" {
		c.Violate("check-mutated", "check-mutated", map[string]interface{}{"what": what, "diff": d})
	}
}

// c05Make builds a library-fingerprinted message and checks the appended value.
type failingReader struct{ err error }

func (f failingReader) Read([]byte) (int, error) { return 0, f.err }

// crcSolve returns the four bytes x such that CRC-32(prefix || x) == target.
func crcSolve(prefix []byte, target uint32) [4]byte {
	reg := ^uint32(0)
	for _, b := range prefix {
		reg ^= uint32(b)
		for k := 0; k < 8; k++ {
			if reg&1 == 1 {
				reg = reg>>1 ^ 0xEDB88320
			} else {
				reg >>= 1
			}
		}
	}
	f := ^target
	for k := 0; k < 32; k++ {
		if f&0x80000000 != 0 {
			f = (f^0xEDB88320)<<1 | 1
		} else {
			f <<= 1
		}
	}
	x := reg ^ f

	return [4]byte{byte(x), byte(x >> 8), byte(x >> 16), byte(x >> 24)}
}

func c05Make(c *core.Ctx, r *gen.Rand, maxVal int) []byte {
	m := new(stun.Message)
	setters := []stun.Setter{stun.NewType(stun.Method(r.Intn(0x1000)), stun.MessageClass(r.Intn(4))), stun.NewTransactionIDSetter(r.TID())}
	for k := r.Intn(6); k > 0; k-- {
		t := r.AttrType()
		if t == 0x8028 || t == 0x0008 {
			t = 0x8022
		}
		setters = append(setters, stun.RawAttribute{Type: stun.AttrType(t), Value: r.Bytes(r.ValueLen(maxVal))})
	}
	if r.Bool() {
		setters = append(setters, stun.NewShortTermIntegrity(string(r.Bytes(r.Intn(40)))))
		c.Count("with_message_integrity", 1)
	}
	if err := m.Build(setters...); err != nil {
		c.Violate("build", "build", err.Error())

		return nil
	}
	if r.Chance(1, 4) {
		// fields assigned but not written out: the setter fingerprints the bytes that are there and leaves the rest alone
		m.TransactionID = r.TID()
		if r.Bool() {
			m.Type = stun.NewType(stun.Method(r.Intn(0x1000)), stun.MessageClass(r.Intn(4)))
		}
	}
	pre := append([]byte(nil), m.Raw...)
	l := len(pre) - 20 + 8
	pre[2], pre[3] = byte(l>>8), byte(l)
	want := ref.FingerprintValue(pre)
	if got := stun.FingerprintValue(pre); got != want {
		c.Violate("appended-value", "FingerprintValue", map[string]interface{}{"input_hex": core.Hex(pre), "got": fmt.Sprintf("%08x", got), "want": fmt.Sprintf("%08x", want)})

		return nil
	}
	if err := stun.Fingerprint.AddTo(m); err != nil {
		c.Violate("addto-error", "addto-error", err.Error())

		return nil
	}
	tail := m.Raw[len(m.Raw)-8:]
	got := uint32(tail[4])<<24 | uint32(tail[5])<<16 | uint32(tail[6])<<8 | uint32(tail[7])
	if tail[0] != 0x80 || tail[1] != 0x28 || tail[2] != 0 || tail[3] != 4 || got != want {
		c.Violate("appended-value", "appended-value", map[string]interface{}{"raw_hex": core.Hex(m.Raw), "want": fmt.Sprintf("%08x", want)})

		return nil
	}
	if m.Contains(stun.AttrMessageIntegrity) {
		// an integrity check under a wrong key fails, and must leave the message as it was
		_ = stun.MessageIntegrity("definitely not the key").Check(m)
	}
	if err := stun.Fingerprint.Check(m); err != nil {
		c.Violate("fingerprinted-does-not-verify", "fingerprinted-does-not-verify", map[string]interface{}{"raw_hex": core.Hex(m.Raw), "err": err.Error()})

		return nil
	}

	return append([]byte(nil), m.Raw...)
}

// c05Concurrent: many goroutines fingerprint and verify their own messages at the same time; each appended value must
// be the CRC of that goroutine's message (the race build runs this under the race detector).
func c05Concurrent(c *core.Ctx, idx int64) {
	const g = 8
	var wg sync.WaitGroup
	bad := make([]string, g)
	for k := 0; k < g; k++ {
		wg.Add(1)
		rk := gen.Derive(c.Seed, uint64(idx), uint64(k), 0xC05C)
		go func(k int) {
			defer wg.Done()
			for n := 0; n < 300 && bad[k] == ""; n++ {
				m := new(stun.Message)
				_ = m.Build(stun.BindingRequest, stun.NewTransactionIDSetter(rk.TID()), stun.RawAttribute{Type: 0x8022, Value: rk.Bytes(rk.Intn(40))})
				pre := append([]byte(nil), m.Raw...)
				l := len(pre) - 20 + 8
				pre[2], pre[3] = byte(l>>8), byte(l)
				want := ref.FingerprintValue(pre)
				_ = stun.Fingerprint.AddTo(m)
				tail := m.Raw[len(m.Raw)-4:]
				got := uint32(tail[0])<<24 | uint32(tail[1])<<16 | uint32(tail[2])<<8 | uint32(tail[3])
				if got != want {
					bad[k] = fmt.Sprintf("appended %08x, CRC oracle %08x for %x", got, want, m.Raw)
				} else if err := stun.Fingerprint.Check(m); err != nil {
					bad[k] = "just fingerprinted message fails its check: " + err.Error()
				}
			}
		}(k)
	}
	wg.Wait()
	c.Eval(g * 300)
	c.Count("concurrent_fingerprints", g*300)
	for _, b := range bad {
		if b != "" {
			c.Violate("concurrent-setter-mismatch", "concurrent-setter-mismatch", map[string]interface{}{"goroutines": g, "problem": b})

			return
		}
	}
}

func c05(c *core.Ctx) {
	selfCheckOracles()
	c.Section("concurrent-builders", c.N(40, 2000), func(i int64, _ *gen.Rand) {
		c05Concurrent(c, i)
		c.Distinct(uint64(i) | 7<<50)
	})
	if c.Config == "race" {
		return
	}
	// (a) every bit of library-fingerprinted messages
	c.Section("bitflips", c.N(200, 30000), func(_ int64, r *gen.Rand) {
		wire := c05Make(c, r, 48)
		if wire == nil {
			return
		}
		c.Distinct(gen.HashBytes(wire))
		c05Judge(c, wire, "intact", false)
		if c.WantSample() && len(wire) < 80 {
			c.Sample(map[string]interface{}{"section": "bitflips", "fingerprinted_hex": core.Hex(wire), "flips": len(wire) * 8})
		}
		// one receiver carried through all the corrupted copies, decoding in place from buffers of one and the same
		// capacity (a receive loop), and - every eighth flip - re-decoding the very bytes it holds after they were damaged
		recv := new(stun.Message)
		recv.Raw = append(make([]byte, 0, len(wire)+16), wire...)
		_ = recv.Decode()
		for bit := 0; bit < len(wire)*8; bit++ {
			f := append([]byte(nil), wire...)
			f[bit/8] ^= 1 << uint(bit%8)
			c05Judge(c, f, "bitflip", true)
			rm, _ := ref.Parse(f)
			if rm == nil {
				continue
			}
			want, _, _ := c05Oracle(f, rm)
			if bit%8 == 3 {
				recv.Raw = append(recv.Raw[:0], wire...)
				_ = recv.Decode()
				recv.Raw[bit/8] ^= 1 << uint(bit%8) // damaged where it lies
				if err := stun.Decode(recv.Raw, recv); err != nil {
					continue
				}
			} else {
				// the intact message first, then the damaged copy, each read into a buffer of its own (same capacity)
				recv.Raw = append(make([]byte, 0, len(wire)+16), wire...)
				_ = recv.Decode()
				recv.Raw = append(make([]byte, 0, len(wire)+16), f...)
				if err := recv.Decode(); err != nil {
					continue
				}
			}
			if (stun.Fingerprint.Check(recv) == nil) != want {
				c.Violate("check-verdict", "check-verdict:bitflip-on-a-carried-receiver", map[string]interface{}{
					"problem": "a receiver that had decoded the intact message decodes the corrupted copy; the verdict differs from the one for these bytes", "bit": bit,
					"re_decoded_its_own_damaged_bytes": bit%8 == 3, "input_hex": core.Hex(f), "oracle_pass": want})

				return
			}
		}
	})
	// (a3) the message the setter was applied to, corrupted in place (no re-decode), for buffers with 0..13 spare bytes;
	// and the batch helper Message.Check(integrity, Fingerprint) on re-decoded corrupted copies
	c.Section("in-place-and-batch-check", c.N(120, 20000), func(i int64, r *gen.Rand) {
		key := r.Bytes(r.Intn(30))
		mi := stun.MessageIntegrity(key)
		setters := []stun.Setter{stun.NewType(stun.Method(r.Intn(0x1000)), stun.MessageClass(r.Intn(4))), stun.NewTransactionIDSetter(r.TID()),
			stun.RawAttribute{Type: 0x8022, Value: r.Bytes(r.Intn(24))}}
		withMI := i%2 == 0
		if withMI {
			setters = append(setters, mi)
		}
		probe := new(stun.Message)
		_ = probe.Build(setters...)
		spare := int(i/2) % 14 // spare capacity left when the FINGERPRINT setter runs
		m := &stun.Message{Raw: make([]byte, 0, len(probe.Raw)+spare)}
		if i%5 == 4 {
			m = new(stun.Message)
		}
		if err := m.Build(append(setters, stun.Fingerprint)...); err != nil {
			c.Violate("build", "build", err.Error())

			return
		}
		if err := stun.Fingerprint.Check(m); err != nil {
			c.Violate("fingerprinted-does-not-verify", "fingerprinted-does-not-verify", map[string]interface{}{"raw_hex": core.Hex(m.Raw), "err": err.Error()})

			return
		}
		wire := append([]byte(nil), m.Raw...)
		n := len(m.Raw)
		for bit := 0; bit < n*8; bit++ {
			pos := bit / 8
			if pos >= n-8 && pos < n-4 {
				continue // the attribute's own header is not re-read without a decode
			}
			m.Raw[pos] ^= 1 << uint(bit%8)
			c.Eval(1)
			if err := stun.Fingerprint.Check(m); err == nil {
				c.Violate("corruption-undetected", "corruption-undetected:in-place", map[string]interface{}{
					"problem": "bit flipped in the raw bytes of the very message the setter was applied to; Fingerprint.Check still passes", "bit": bit, "spare_capacity_at_setter": spare, "raw_hex": core.Hex(wire)})
				m.Raw[pos] ^= 1 << uint(bit%8)

				return
			}
			m.Raw[pos] ^= 1 << uint(bit%8)
		}
		c.Count("in_place_flips", int64(n*8-32))
		if !withMI {
			return
		}
		dec := new(stun.Message)
		if err := stun.Decode(wire, dec); err != nil || dec.Check(mi, stun.Fingerprint) != nil || dec.Check(stun.Fingerprint, mi) != nil {
			c.Violate("fingerprinted-does-not-verify", "batch-check-intact", map[string]interface{}{"raw_hex": core.Hex(wire)})

			return
		}
		for bit := 0; bit < n*8; bit++ {
			f := append([]byte(nil), wire...)
			f[bit/8] ^= 1 << uint(bit%8)
			if stun.Decode(f, dec) != nil {
				continue
			}
			c.Eval(1)
			order := "Check(integrity, Fingerprint)"
			err := dec.Check(mi, stun.Fingerprint)
			if err != nil && bit%2 == 1 {
				order = "Check(Fingerprint, integrity)"
				err = dec.Check(stun.Fingerprint, mi)
			}
			if err == nil {
				c.Violate("corruption-undetected", "corruption-undetected:batch-check", map[string]interface{}{
					"problem": order + " passes on a message with one flipped bit", "bit": bit, "input_hex": core.Hex(f), "key_hex": core.Hex(key)})

				return
			}
		}
		c.Count("batch_check_flips", int64(n*8))
		c.Distinct(gen.HashBytes(wire))
	})
	// (b) bursts of up to 32 bits, in the CRC's own (transmission, LSB-first) bit order
	c.Section("bursts", c.N(400, 200000), func(_ int64, r *gen.Rand) {
		wire := c05Make(c, r, 200)
		if wire == nil {
			return
		}
		c.Distinct(gen.HashBytes(wire))
		for k := 0; k < 10; k++ {
			width := 2 + r.Intn(31) // 2..32
			start := r.Intn(len(wire)*8 - width + 1)
			pattern := r.U64() | 1 | 1<<uint(width-1)
			f := append([]byte(nil), wire...)
			for j := 0; j < width; j++ {
				if pattern>>uint(j)&1 == 1 {
					pos := start + j
					f[pos/8] ^= 1 << uint(pos%8)
				}
			}
			c.Count("bursts", 1)
			c05Judge(c, f, "burst", true)
		}
	})
	// (c) arbitrary decodable messages with FINGERPRINT attributes of any length and position
	c.Section("arbitrary", c.N(10000, 3000000), func(_ int64, r *gen.Rand) {
		spec := r.Spec(6, 40)
		if r.Chance(1, 60) {
			// more than a thousand (tiny) attributes in front: FINGERPRINT is found wherever it is
			spec.Attrs = spec.Attrs[:0]
			for k := 1000 + r.Intn(200); k > 0; k-- {
				spec.Attrs = append(spec.Attrs, ref.Attr{Type: r.PickU16([]uint16{0x8022, 0x0006, 0x7f10, 0x0014, 0x0000}), Value: r.Bytes(r.Intn(4))})
			}
			c.Count("messages_with_1000_attributes", 1)
		}
		nfp := 1 + r.Intn(2)
		for k := 0; k < nfp; k++ {
			n := 4
			if r.Chance(1, 3) {
				n = r.PickInt([]int{0, 1, 3, 5, 8, 20})
			}
			pos := r.Intn(len(spec.Attrs) + 1)
			if r.Bool() {
				pos = len(spec.Attrs)
			}
			spec.Attrs = append(spec.Attrs[:pos], append([]ref.Attr{{Type: 0x8028, Value: r.Bytes(n)}}, spec.Attrs[pos:]...)...)
		}
		wire := r.WireDirty(spec)
		rm, _ := ref.Parse(wire)
		// make the first FINGERPRINT correct in half of the cases (whatever its position)
		if r.Bool() {
			for _, t := range rm.TLVs {
				if t.Type == 0x8028 {
					if t.Len >= 4 && len(wire) >= 28 { // also over-long values that merely start with the right CRC
						v := ref.FingerprintValue(wire[:len(wire)-8])
						wire[t.Off], wire[t.Off+1], wire[t.Off+2], wire[t.Off+3] = byte(v>>24), byte(v>>16), byte(v>>8), byte(v)
						// the value may itself lie inside the covered span (FINGERPRINT not last): recompute is then inexact; the oracle decides
					}

					break
				}
			}
		}
		// the LAST FINGERPRINT correct while an earlier one is not (only the first one counts)
		if len(rm.TLVs) > 0 && r.Chance(1, 3) {
			last := rm.TLVs[len(rm.TLVs)-1]
			if last.Type == 0x8028 && last.Len == 4 && last.Off+4+0 <= len(wire) && len(wire) == last.Off+4 {
				v := ref.FingerprintValue(wire[:len(wire)-8])
				wire[last.Off], wire[last.Off+1], wire[last.Off+2], wire[last.Off+3] = byte(v>>24), byte(v>>16), byte(v>>8), byte(v)
				c.Count("last_fingerprint_correct", 1)
			}
		}
		c.Distinct(gen.HashBytes(wire))
		c05Judge(c, wire, "arbitrary", false)
	})
	// (a2) messages whose raw size is at the very top of what the 16-bit length field allows
	c.SectionSerial("maximum-size", 6, func(i int64, r *gen.Rand) {
		// raw length after FINGERPRINT: 65552 - 4*i  (65552 is the maximum: 20 + 65532)
		total := 65552 - 4*int(i)
		valueLen := total - 20 - 8 - 4
		m := new(stun.Message)
		_ = m.Build(stun.BindingRequest, stun.NewTransactionIDSetter(r.TID()), stun.RawAttribute{Type: stun.AttrData, Value: r.Bytes(valueLen)})
		pre := append([]byte(nil), m.Raw...)
		l := len(pre) - 20 + 8
		pre[2], pre[3] = byte(l>>8), byte(l)
		want := ref.FingerprintValue(pre)
		_ = stun.Fingerprint.AddTo(m)
		c.Eval(1)
		tail := m.Raw[len(m.Raw)-4:]
		got := uint32(tail[0])<<24 | uint32(tail[1])<<16 | uint32(tail[2])<<8 | uint32(tail[3])
		if len(m.Raw) != total || got != want {
			c.Violate("appended-value", "appended-value:maximum-size", map[string]interface{}{"raw_len": len(m.Raw), "want_len": total, "got": fmt.Sprintf("%08x", got), "want": fmt.Sprintf("%08x", want)})

			return
		}
		wire := append([]byte(nil), m.Raw...)
		c05Judge(c, wire, "maximum-size", false)
		// flips in the last covered bytes and in the first ones
		for _, pos := range []int{len(wire) - 9, len(wire) - 10, len(wire) - 25, 20, 0, len(wire) / 2} {
			f := append([]byte(nil), wire...)
			f[pos] ^= 0x10
			c05Judge(c, f, "maximum-size-bitflip", true)
		}
		c.Distinct(uint64(total) | 6<<50)
	})
	// (c3) messages whose CORRECT fingerprint is a remarkable number (all zeros, all ones, the XOR constant, the attribute's
	// own header): four bytes in front are solved for, the value is what it is
	c.Section("remarkable-correct-values", c.N(60, 20000), func(i int64, r *gen.Rand) {
		target := []uint32{0x00000000, 0xFFFFFFFF, 0x5354554e, 0x80280004, 0x00000001, 0x2112A442}[int(i)%6]
		spec := r.Spec(3, 24)
		for k := range spec.Attrs {
			if spec.Attrs[k].Type == 0x8028 {
				spec.Attrs[k].Type = 0x8029 // the solved FINGERPRINT is the only (so the first) one
			}
		}
		spec.Attrs = append(spec.Attrs, ref.Attr{Type: 0x8022, Value: make([]byte, 4+4*r.Intn(4))}, ref.Attr{Type: 0x8028, Value: []byte{byte(target >> 24), byte(target >> 16), byte(target >> 8), byte(target)}})
		wire := spec.Wire()
		pre := wire[:len(wire)-8]
		x := crcSolve(pre[:len(pre)-4], target^0x5354554e)
		copy(pre[len(pre)-4:], x[:])
		if ref.FingerprintValue(pre) != target {
			fatalHarness("C05: CRC solving is wrong")
		}
		c.Count("messages_with_solved_fingerprint", 1)
		c.Distinct(gen.HashBytes(wire))
		c05Judge(c, wire, fmt.Sprintf("correct-value-%08x", target), false)
		m := new(stun.Message)
		if err := stun.Decode(wire, m); err != nil || stun.Fingerprint.Check(m) != nil || m.Check(stun.Fingerprint) != nil {
			c.Violate("check-verdict", fmt.Sprintf("check-verdict:correct-value-%08x", target), map[string]interface{}{"input_hex": core.Hex(wire), "problem": "a message whose fingerprint is the CRC prescribed by RFC 5389 is refused"})
		}
	})
	// (c2) near misses of the value: bare CRC without the XOR, XOR with neighbouring constants, byte-swapped
	c.Section("value-near-misses", c.N(300, 100000), func(_ int64, r *gen.Rand) {
		wire := c05Make(c, r, 60)
		if wire == nil {
			return
		}
		crc := ref.CRC32(wire[:len(wire)-8])
		// values other procedures would produce: header length not yet counting the FINGERPRINT attribute (rfc3489bis
		// drafts), header length of an empty body, CRC that also covers the attribute's own header, CRC of the body only
		early := append([]byte(nil), wire[:len(wire)-8]...)
		el := len(wire) - 20 - 8
		early[2], early[3] = byte(el>>8), byte(el)
		zeroLen := append([]byte(nil), wire[:len(wire)-8]...)
		zeroLen[2], zeroLen[3] = 0, 0
		for k, v := range []uint32{crc, crc ^ 0x5354554f, crc ^ 0x4e555453, ^(crc ^ 0x5354554e), (crc ^ 0x5354554e) + 1,
			(crc^0x5354554e)<<8 | (crc^0x5354554e)>>24, 0, 0x5354554e,
			ref.CRC32(early) ^ 0x5354554e, ref.CRC32(zeroLen) ^ 0x5354554e, ref.CRC32(wire[:len(wire)-4]) ^ 0x5354554e, ref.CRC32(wire[20:len(wire)-8]) ^ 0x5354554e} {
			if v == crc^0x5354554e {
				continue // happens to be the right value
			}
			f := append([]byte(nil), wire...)
			n := len(f)
			f[n-4], f[n-3], f[n-2], f[n-1] = byte(v>>24), byte(v>>16), byte(v>>8), byte(v)
			c.Count("near_miss_values", 1)
			c05Judge(c, f, fmt.Sprintf("near-miss-%d", k), false)
		}
		c.Distinct(gen.HashBytes(wire))
	})
}
