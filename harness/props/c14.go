package props

import (
	"fmt"
	"os"
	"runtime"
	"sort"
	"strings"
	"sync"
	"sync/atomic"
	"time"

	"github.com/anishathalye/porcupine"
	"github.com/pion/stun/v3"
	"github.com/pion/stun/v3/verifharness/core"
	"github.com/pion/stun/v3/verifharness/gen"
)

// C14: the Agent is linearizable, race-free and deadlock-free under concurrency.
func init() { core.Register("C14", c14) }

type c14Op struct {
	client  int
	call    amCall
	callTS  int64
	retTS   int64
	err     string
	events  []amEvent
	nested  bool
	pending bool // never returned (stuck)
}

type c14World struct {
	a       *stun.Agent
	clock   atomic.Int64
	mu      sync.Mutex
	current map[int64][]*c14Op // goroutine id -> stack of operations in progress
	all     []*c14Op
	reentr  bool
	seed    uint64
	nestN   atomic.Int64
}

func (w *c14World) tick() int64 { return w.clock.Add(1) }

func (w *c14World) push(g int64, op *c14Op) {
	w.mu.Lock()
	w.current[g] = append(w.current[g], op)
	w.all = append(w.all, op)
	w.mu.Unlock()
}

func (w *c14World) pop(g int64) {
	w.mu.Lock()
	st := w.current[g]
	w.current[g] = st[:len(st)-1]
	w.mu.Unlock()
}

func (w *c14World) top(g int64) *c14Op {
	w.mu.Lock()
	defer w.mu.Unlock()
	st := w.current[g]
	if len(st) == 0 {
		return nil
	}

	return st[len(st)-1]
}

func (w *c14World) handler(tag int8) stun.Handler {
	return func(e stun.Event) {
		g := goid()
		op := w.top(g)
		cl := amEventClass(e)
		if op != nil {
			// the handler runs on the caller's goroutine inside the call: no other goroutine touches op.events
			op.events = append(op.events, amEvent{amIDOf(e.TransactionID), cl, tag})
		}
		runtime.Gosched() // widen the window between the agent's unlock and the end of the call
		if w.reentr && cl != evClosed && op != nil && !op.nested {
			// re-entrant handler (outside Close): calls back into the agent from inside the event
			n := w.nestN.Add(1)
			id := int8((uint64(n) + w.seed) % amIDs)
			var c amCall
			if n%2 == 0 {
				c = amCall{Kind: amStart, ID: id, T: int8(n % 4)}
			} else {
				c = amCall{Kind: amStop, ID: id}
			}
			w.exec(g, 1000+int(g%1000), c, true)
		}
	}
}

// exec performs one call on the real agent and records it at the caller boundary.
func (w *c14World) exec(g int64, client int, c amCall, nested bool) {
	op := &c14Op{client: client, call: c, nested: nested, pending: true}
	w.push(g, op)
	op.callTS = w.tick()
	var err error
	switch c.Kind {
	case amStart:
		err = w.a.Start(amTID(c.ID), amTime(c.T))
	case amStop:
		err = w.a.Stop(amTID(c.ID))
	case amStopErr:
		err = w.a.StopWithError(amTID(c.ID), errCustomStop)
	case amProcess:
		err = w.a.Process(&stun.Message{TransactionID: amTID(c.ID), Type: stun.NewType(stun.MethodBinding, stun.MessageClass(int(op.callTS)%4))})
	case amCollect:
		err = w.a.Collect(amTime(c.T))
	case amSetHandler:
		err = w.a.SetHandler(w.handler(c.H))
	case amClose:
		err = w.a.Close()
	}
	op.retTS = w.tick()
	op.err = amErrClass(err)
	op.pending = false
	w.pop(g)
}

var c14Model = porcupine.Model{ //nolint:gochecknoglobals
	Init: func() interface{} { return amState{} },
	Step: func(state, input, output interface{}) (bool, interface{}) {
		st, res := amStep(state.(amState), input.(amCall)) //nolint:forcetypeassert
		out := output.(amResult)                           //nolint:forcetypeassert

		return res == out, st
	},
	Equal: func(a, b interface{}) bool { return a.(amState) == b.(amState) }, //nolint:forcetypeassert
	DescribeOperation: func(input, output interface{}) string {
		return fmt.Sprintf("%v -> %+v", input, output)
	},
}

func c14RandomCall(r *gen.Rand, handlerSeq *int32) amCall {
	id := int8(r.Intn(amIDs))
	switch x := r.Intn(100); {
	case x < 30:
		return amCall{Kind: amStart, ID: id, T: int8(r.Intn(4))}
	case x < 45:
		return amCall{Kind: amStop, ID: id}
	case x < 52:
		return amCall{Kind: amStopErr, ID: id}
	case x < 67:
		return amCall{Kind: amProcess, ID: id}
	case x < 90:
		return amCall{Kind: amCollect, T: int8(r.Intn(4))}
	case x < 98:
		return amCall{Kind: amSetHandler, H: int8(atomic.AddInt32(handlerSeq, 1))}
	default:
		return amCall{Kind: amClose}
	}
}

// c14Collisions: several terminators of ONE registered transaction are released at the same instant, thousands of
// times: exactly one of them may emit the terminal event (and report success, for Stop).
func c14Collisions(c *core.Ctx, rounds int, mix int) {
	for k := 0; k < rounds; k++ {
		var events int32
		a := stun.NewAgent(func(stun.Event) { atomic.AddInt32(&events, 1) })
		id := amTID(int8(k % amIDs))
		_ = a.Start(id, amTime(0))
		const g = 4
		var start int32
		var wg sync.WaitGroup
		okStops := int32(0)
		for i := 0; i < g; i++ {
			wg.Add(1)
			go func(i int) {
				defer wg.Done()
				for atomic.LoadInt32(&start) == 0 { // spin barrier (yielding: the releasing goroutine needs a CPU too)
					runtime.Gosched()
				}
				switch (i + mix) % 4 {
				case 0, 1:
					if a.Stop(id) == nil {
						atomic.AddInt32(&okStops, 1)
					}
				case 2:
					_ = a.Collect(amTime(3))
				default:
					if mix%2 == 0 {
						_ = a.Close()
					} else if a.StopWithError(id, errCustomStop) == nil {
						atomic.AddInt32(&okStops, 1)
					}
				}
			}(i)
		}
		atomic.StoreInt32(&start, 1)
		wg.Wait()
		_ = a.Close() // whatever is left is terminated here
		if n := atomic.LoadInt32(&events); n != 1 || okStops > 1 {
			c.Violate("double-termination", "double-termination:collision", map[string]interface{}{
				"round": k, "terminal_events": n, "stops_reporting_success": okStops, "mix": mix})

			return
		}
	}
	c.Eval(int64(rounds))
	c.Count("terminator_collision_rounds", int64(rounds))
}

// c14MassConcurrent: n transactions expire in ONE Collect call; while that call is delivering (its handler has seen
// `trigger` events), a second goroutine calls Close / Start / Stop / Collect and the handler waits for that call to
// return. Whatever the interleaving, the outcome must be explainable by a sequential order. The handler has already
// seen timeouts of this Collect when the second call is issued, so Collect cannot have come after a Close: it returns
// nil and delivers a timeout for every expired transaction; the second call sees the table Collect left behind.
func c14MassConcurrent(c *core.Ctx, r *gen.Rand) {
	type tid = [stun.TransactionIDSize]byte
	n := r.PickInt([]int{1, 50, 99, 100, 101, 150, 199, 200, 201, 250, 400, 1100})
	m := r.Intn(4)
	trigger := r.PickInt([]int{0, 1, n / 2, n - 1, 99, 100})
	if trigger >= n {
		trigger = n - 1
	}
	op2 := r.Intn(4)
	t0, t1 := amEpoch, amEpoch.Add(time.Second)
	var (
		mu        sync.Mutex
		timeouts  = map[tid]int{}
		closedEv  = map[tid]int{}
		otherEv   int
		seen      int
		collectG  int64
		foreignTO int
		a         *stun.Agent
		op2Err    = "not-called"
		stuck     bool
	)
	mkID := func(i int, g byte) tid {
		var id tid
		id[0], id[1], id[2] = byte(i), byte(i>>8), g

		return id
	}
	release, finished := make(chan struct{}), make(chan struct{})
	a = stun.NewAgent(func(e stun.Event) {
		mu.Lock()
		switch amEventClass(e) {
		case evTimeout:
			timeouts[e.TransactionID]++
			if goid() != collectG {
				foreignTO++
			}
		case evClosed:
			closedEv[e.TransactionID]++
		default:
			otherEv++
		}
		k := seen
		seen++
		mu.Unlock()
		if amEventClass(e) == evTimeout && k == trigger {
			close(release)
			select {
			case <-finished:
			case <-time.After(20 * time.Second):
				stuck = true
			}
		}
	})
	for i := 0; i < n; i++ {
		_ = a.Start(mkID(i, 'E'), t0)
	}
	for i := 0; i < m; i++ {
		_ = a.Start(mkID(i, 'S'), t1.Add(time.Duration(i)*time.Second)) // survivors, the first with deadline == collect time
	}
	victim := mkID(r.Intn(n), 'E')
	go func() {
		<-release
		var err error
		switch op2 {
		case 0:
			err = a.Close()
		case 1:
			err = a.Start(victim, t1.Add(time.Hour))
		case 2:
			err = a.Stop(victim)
		default:
			err = a.Collect(t1)
		}
		mu.Lock()
		op2Err = amErrClass(err)
		mu.Unlock()
		close(finished)
	}()
	collectG = goid()
	cerr := a.Collect(t1)
	c.Eval(1)
	c.Count("calls", 2)
	if stuck {
		c.Violate("stuck", "stuck:call-during-mass-collect", map[string]interface{}{"expired": n, "second_call": []string{"Close", "Start(expired id)", "Stop(expired id)", "Collect"}[op2]})

		return
	}
	<-finished
	mu.Lock()
	defer mu.Unlock()
	wantOp2 := []string{"nil", "nil", "not-exists", "nil"}[op2]
	problem := ""
	switch {
	case amErrClass(cerr) != "nil":
		problem = "Collect returned " + amErrClass(cerr) + " although it had delivered timeouts"
	case len(timeouts) != n || foreignTO != 0:
		problem = fmt.Sprintf("%d of %d expired transactions got a timeout from this Collect (%d timeouts were delivered by another call)", len(timeouts)-foreignTO, n, foreignTO)
	case op2Err != wantOp2:
		problem = fmt.Sprintf("the second call returned %s; after a Collect that removed all %d expired transactions the specification says %s", op2Err, n, wantOp2)
	case otherEv != 0:
		problem = fmt.Sprintf("%d events that are neither timeout nor closed", otherEv)
	}
	for id, k := range timeouts {
		if k != 1 || id[2] != 'E' {
			problem = fmt.Sprintf("transaction %x: %d timeout events", id[:3], k)
		}
	}
	wantClosed := 0
	if op2 == 0 {
		wantClosed = m
	}
	if len(closedEv) != wantClosed {
		problem = fmt.Sprintf("%d closed events, %d transactions were registered when Close ran", len(closedEv), wantClosed)
	}
	for id, k := range closedEv {
		if k != 1 || id[2] != 'S' {
			problem = fmt.Sprintf("transaction %x: %d closed events", id[:3], k)
		}
	}
	mu.Unlock() // the ledger is complete; the calls below run the handler again
	if problem == "" && op2 == 1 {
		// the Start that succeeded while Collect was delivering registered its transaction for good
		if e := amErrClass(a.Stop(victim)); e != "nil" {
			problem = "the transaction whose Start returned nil during the Collect is gone afterwards: Stop reports " + e
		}
	}
	if problem == "" && op2 == 2 {
		// ... and the one whose Stop reported not-exists did not come back
		if e := amErrClass(a.Stop(victim)); e != "not-exists" {
			problem = "a transaction timed out by the Collect is registered again afterwards: Stop reports " + e
		}
	}
	mu.Lock()
	if problem != "" {
		c.Violate("not-linearizable", "not-linearizable:call-during-mass-collect", map[string]interface{}{
			"expired_in_one_collect": n, "survivors": m, "second_call": []string{"Close", "Start(expired id)", "Stop(expired id)", "Collect"}[op2],
			"issued_after_timeout_event_number": trigger, "collect_returned": amErrClass(cerr), "second_call_returned": op2Err,
			"timeouts_delivered": len(timeouts), "closed_events": len(closedEv), "problem": problem,
		})

		return
	}
	c.Count("events.timeout", int64(len(timeouts)))
	c.Distinct(r.U64())
}

// c14Dropped: agents with transactions in flight become unreachable without Close. Nothing calls them any more, so
// their handlers see no event - events come from calls, not from the garbage collector.
func c14Dropped(c *core.Ctx) {
	var events int32
	handler := func(stun.Event) { atomic.AddInt32(&events, 1) }
	for k := 0; k < 16; k++ {
		a := stun.NewAgent(handler)
		_ = a.Start(amTID(int8(k%amIDs)), amTime(1))
		if k%2 == 0 {
			_ = a.Start(amTID(int8((k+1)%amIDs)), amTime(3))
		}
	}
	for round := 0; round < 4; round++ {
		runtime.GC()
		time.Sleep(5 * time.Millisecond) // finalizers, if any, run on their own goroutine
	}
	c.Eval(1)
	c.Count("agents_dropped_without_close", 16)
	if n := atomic.LoadInt32(&events); n != 0 {
		c.Violate("event-without-call", "event-without-call:dropped-agent", map[string]interface{}{
			"problem": "handlers of agents that were dropped (never closed, no call in progress) received events after garbage collection", "events": n})
	}
}

// c14CallDuringClose: Close is delivering closed events (its handler is slow); another goroutine makes one more call.
// The two calls overlap, so either order may explain the outcome - but one of them must: before Close the call has its
// normal effect (and Close then covers what it left registered), after Close it returns ErrAgentClosed and emits nothing.
func c14CallDuringClose(c *core.Ctx, n int, op int) {
	entered, release := make(chan struct{}), make(chan struct{})
	var once sync.Once
	var mu sync.Mutex
	otherG := int64(-1)
	fromOther := map[string]int{}
	closedEvents := 0
	var a *stun.Agent
	handler := func(e stun.Event) {
		mu.Lock()
		cl := amEventClass(e)
		if cl == evClosed {
			closedEvents++
		}
		if goid() == otherG {
			fromOther[cl]++
		}
		mu.Unlock()
		if cl == evClosed {
			once.Do(func() { close(entered); <-release })
		}
	}
	a = stun.NewAgent(handler)
	for i := 0; i < n; i++ {
		_ = a.Start([stun.TransactionIDSize]byte{byte(i), byte(i >> 8), 0x5C}, amTime(0))
	}
	fresh := [stun.TransactionIDSize]byte{0xFE, 0xFE, 0x5D}
	registered := [stun.TransactionIDSize]byte{byte(n - 1), byte((n - 1) >> 8), 0x5C}
	closeDone := make(chan error, 1)
	go func() { closeDone <- a.Close() }()
	select {
	case <-entered:
	case <-time.After(10 * time.Second):
		c.Inconclusive(1)
		close(release)

		return
	}
	name := []string{"Collect(past every deadline)", "Start(new id)", "Process(new id)", "SetHandler", "Stop(registered id)"}[op]
	otherDone := make(chan error, 1)
	go func() {
		mu.Lock()
		otherG = goid()
		mu.Unlock()
		switch op {
		case 0:
			otherDone <- a.Collect(amTime(3))
		case 1:
			otherDone <- a.Start(fresh, amTime(3))
		case 2:
			otherDone <- a.Process(&stun.Message{TransactionID: fresh})
		case 3:
			otherDone <- a.SetHandler(handler)
		default:
			otherDone <- a.Stop(registered)
		}
	}()
	var oerr error
	early := false
	select {
	case oerr = <-otherDone:
		early = true
	case <-time.After(100 * time.Millisecond):
	}
	close(release)
	if !early {
		select {
		case oerr = <-otherDone:
		case <-time.After(15 * time.Second):
			c.Violate("stuck", "stuck:call-during-close:"+name, map[string]interface{}{"problem": name + " issued while Close was delivering did not return after Close's handler was let go", "parked_in": agentFrames(allStacks())})

			return
		}
	}
	select {
	case <-closeDone:
	case <-time.After(15 * time.Second):
		c.Violate("stuck", "stuck:Close:call-during-close:"+name, map[string]interface{}{"problem": "Close did not return", "parked_in": agentFrames(allStacks())})

		return
	}
	c.Eval(1)
	c.Count("calls", 2)
	mu.Lock()
	defer mu.Unlock()
	res := amErrClass(oerr)
	emitted := 0
	for _, k := range fromOther {
		emitted += k
	}
	ok := false
	switch {
	case res == "agent-closed" && emitted == 0 && closedEvents == n:
		ok = true // after Close
	case res == "nil" && op == 0:
		ok = fromOther[evTimeout] > 0 && fromOther[evTimeout]+closedEvents == n // before Close: the timeouts are Collect's, the rest Close's
	case res == "nil" && op == 1:
		ok = emitted == 0 && closedEvents == n+1 // before Close: the new transaction is closed by Close
	case res == "nil" && op == 2:
		ok = fromOther[evMessage] == 1 && emitted == 1 && closedEvents == n
	case res == "nil" && op == 3:
		ok = emitted == 0 && closedEvents == n
	case res == "nil" && op == 4:
		ok = fromOther[evStopped] == 1 && emitted == 1 && closedEvents == n-1
	}
	if !ok {
		c.Violate("not-linearizable", "not-linearizable:call-during-close:"+name, map[string]interface{}{
			"registered": n, "call": name, "returned": res, "events_emitted_by_that_call": fmt.Sprint(fromOther), "closed_events": closedEvents,
			"problem": "no order of Close and " + name + " explains this outcome"})
	}
}

func c14(c *core.Ctx) {
	c.Section("call-during-close", 30, func(i int64, _ *gen.Rand) {
		c14CallDuringClose(c, []int{1, 2, 3, 50, 150, 400}[i%6], int(i/6))
		c.Distinct(uint64(i) | 5<<50)
	})
	c.SectionSerial("dropped-agents", 2, func(i int64, _ *gen.Rand) {
		c14Dropped(c)
		c.Distinct(uint64(i) | 4<<50)
	})
	c.Section("call-during-mass-collect", c.N(200, 20000), func(_ int64, r *gen.Rand) {
		c14MassConcurrent(c, r)
	})
	c.Section("terminator-collisions", 8, func(i int64, _ *gen.Rand) {
		c14Collisions(c, int(c.N(3000, 100000)), int(i))
		c.Distinct(uint64(i) | 3<<50)
	})
	n := c.N(400, 200000)
	if c.Config == "race" {
		n = c.N(300, 60000)
	}
	c.Section("histories", n, func(i int64, r *gen.Rand) {
		c14History(c, i, r)
	})
}

func c14History(c *core.Ctx, idx int64, r *gen.Rand) {
	g := 2 + r.Intn(15)
	perG := 6 + r.Intn(5)
	w := &c14World{current: map[int64][]*c14Op{}, reentr: idx%10 == 0, seed: r.U64()}
	w.a = stun.NewAgent(w.handler(0))
	var handlerSeq int32
	var wg sync.WaitGroup
	start := make(chan struct{})
	done := make(chan struct{})
	for k := 0; k < g; k++ {
		rk := gen.Derive(c.Seed, uint64(idx), uint64(k), 0xC14)
		calls := make([]amCall, perG)
		for j := range calls {
			calls[j] = c14RandomCall(rk, &handlerSeq)
		}
		wg.Add(1)
		go func(k int) {
			defer wg.Done()
			me := goid()
			<-start
			for _, call := range calls {
				w.exec(me, k, call, false)
				if rk.Chance(1, 3) {
					runtime.Gosched()
				}
			}
		}(k)
	}
	close(start)
	go func() { wg.Wait(); close(done) }()
	select {
	case <-done:
	case <-time.After(20 * time.Second):
		// watchdog: are goroutines parked inside agent methods while nothing can wake them?
		dump1 := allStacks()
		time.Sleep(time.Second)
		dump2 := allStacks()
		stuck1, stuck2 := agentFrames(dump1), agentFrames(dump2)
		if len(stuck1) > 0 && fmt.Sprint(stuck1) == fmt.Sprint(stuck2) {
			w.mu.Lock()
			var pend []string
			for _, op := range w.all {
				if op.pending {
					pend = append(pend, op.call.String())
				}
			}
			w.mu.Unlock()
			c.Violate("stuck", "stuck:"+stuck1[0], map[string]interface{}{"goroutines": g, "reentrant_handlers": w.reentr, "pending_calls": pend, "parked_in": stuck1})
			fmt.Fprintln(os.Stderr, "C14: goroutines stuck inside the agent; leaving them behind")

			return
		}
		c.Inconclusive(1)

		return
	}
	c.Eval(1)
	// build the porcupine history
	ops := make([]porcupine.Operation, 0, len(w.all))
	perID := map[int8][2]int{} // id -> (successful starts, non-message terminal events)
	classes := map[string]int64{}
	var sig strings.Builder
	for _, op := range w.all {
		ops = append(ops, porcupine.Operation{
			ClientId: op.client, Input: op.call, Call: op.callTS,
			Output: amResult{Err: op.err, Events: canonEvents(op.events)}, Return: op.retTS,
		})
		if op.call.Kind == amStart && op.err == "nil" {
			v := perID[op.call.ID]
			v[0]++
			perID[op.call.ID] = v
		}
		for _, e := range op.events {
			classes[e.Class]++
			if e.Class != evMessage {
				v := perID[e.ID]
				v[1]++
				perID[e.ID] = v
			}
		}
		fmt.Fprintf(&sig, "%d:%v:%s:%s|", op.client, op.call, op.err, canonEvents(op.events))
	}
	for k, v := range classes {
		c.Count("events."+k, v)
	}
	c.Count("calls", int64(len(w.all)))
	// nested operations get their own client ids (they overlap their parent); make them unique per goroutine
	remapNested(ops, w.all)
	overlap := overlappingPairs(w.all)
	c.Count("overlapping_call_pairs", int64(overlap))
	if overlap == 0 {
		c.Inconclusive(1)

		return
	}
	for id, v := range perID {
		if v[1] > v[0] {
			c.Violate("double-termination", "double-termination", map[string]interface{}{
				"id": id, "successful_starts": v[0], "terminal_events": v[1], "history": renderHistory(w.all),
			})

			return
		}
	}
	res, _ := porcupine.CheckOperationsVerbose(c14Model, ops, 15*time.Second)
	switch res {
	case porcupine.Ok:
		c.Count("porcupine_ok", 1)
		c.Distinct(gen.HashString(sig.String()))
		if c.WantSample() && len(w.all) < 16 {
			c.Sample(renderHistory(w.all))
		}
	case porcupine.Unknown:
		c.Count("porcupine_unknown", 1)
		c.Inconclusive(1)
	case porcupine.Illegal:
		c.Violate("not-linearizable", "not-linearizable", map[string]interface{}{
			"goroutines": g, "reentrant_handlers": w.reentr, "history": renderHistory(w.all),
		})
	}
}

func remapNested(ops []porcupine.Operation, all []*c14Op) {
	next := 5000
	for i, op := range all {
		if op.nested {
			ops[i].ClientId = next
			next++
		}
	}
}

func overlappingPairs(all []*c14Op) int {
	n := 0
	for i := 0; i < len(all); i++ {
		for j := i + 1; j < len(all); j++ {
			a, b := all[i], all[j]
			if a.client != b.client && !a.nested && !b.nested && a.callTS < b.retTS && b.callTS < a.retTS {
				n++
			}
		}
	}

	return n
}

func renderHistory(all []*c14Op) []string {
	cp := append([]*c14Op(nil), all...)
	sort.Slice(cp, func(i, j int) bool { return cp[i].callTS < cp[j].callTS })
	out := make([]string, 0, len(cp))
	for _, op := range cp {
		n := ""
		if op.nested {
			n = " (from handler)"
		}
		out = append(out, fmt.Sprintf("g%d [%d,%d] %v -> %s {%s}%s", op.client, op.callTS, op.retTS, op.call, op.err, canonEvents(op.events), n))
	}

	return out
}

func allStacks() string {
	buf := make([]byte, 1<<20)

	return string(buf[:runtime.Stack(buf, true)])
}

// agentFrames lists goroutines parked inside pion/stun frames (function names), sorted.
func agentFrames(dump string) []string {
	var out []string
	for _, g := range strings.Split(dump, "\n\n") {
		if !strings.Contains(g, "semacquire") && !strings.Contains(g, "sync.Mutex") && !strings.Contains(g, "sync.Cond") && !strings.Contains(g, "chan receive") {
			continue
		}
		for _, l := range strings.Split(g, "\n") {
			if strings.HasPrefix(l, "github.com/pion/stun/v3.") {
				if k := strings.LastIndex(l, "("); k > 0 {
					out = append(out, l[:k])
				}

				break
			}
		}
	}
	sort.Strings(out)

	return out
}
