package props

import (
	"fmt"
	"strings"
	"time"

	"github.com/pion/stun/v3"
	"github.com/pion/stun/v3/verifharness/core"
	"github.com/pion/stun/v3/verifharness/gen"
)

// C13: the Agent behaves as its transaction-table specification.
func init() { core.Register("C13", c13) }

var amEpoch = time.Unix(1700000000, 0) //nolint:gochecknoglobals

// amTime maps the model's four time points to instants. They only have to be ordered; the last one lies beyond what a
// 64-bit nanosecond count can hold (after 2262-04-11), which an agent comparing time.Time values does not notice.
func amTime(t int8) time.Time {
	if t >= 3 {
		return time.Date(2400, 1, 1, 0, 0, 0, 0, time.UTC).Add(time.Duration(t) * time.Second)
	}

	return amEpoch.Add(time.Duration(t) * time.Second)
}

// amRunner drives a real agent sequentially and collects handler events.
type amRunner struct {
	a      *stun.Agent
	events []amEvent
	bad    string
	msgs   [amIDs]*stun.Message
	lastM  *stun.Message
}

func (r *amRunner) handler(tag int8) stun.Handler {
	return func(e stun.Event) {
		id := amIDOf(e.TransactionID)
		cl := amEventClass(e)
		if id < 0 {
			r.bad = fmt.Sprintf("event for an unknown transaction id %x", e.TransactionID)
		}
		if cl == evMessage && e.Message != r.lastM {
			r.bad = "Process emitted another *Message than the one passed in"
		}
		r.events = append(r.events, amEvent{id, cl, tag})
	}
}

func newAMRunner() *amRunner {
	r := &amRunner{}
	r.a = stun.NewAgent(r.handler(0))
	for i := range r.msgs {
		// the message class must not matter to Process: id i carries class i (request, indication, success, error)
		r.msgs[i] = &stun.Message{TransactionID: amTID(int8(i)), Type: stun.NewType(stun.MethodBinding, stun.MessageClass(i%4))}
		if i%2 == 1 {
			// the id of a message is its TransactionID field. This one was assigned after the header had been written for
			// another transaction (a reused message object): its raw bytes still carry the NEIGHBOUR's id.
			m := stun.New()
			m.Type = r.msgs[i].Type
			m.TransactionID = amTID(int8((i + 1) % len(r.msgs)))
			m.WriteHeader()
			m.TransactionID = amTID(int8(i))
			r.msgs[i] = m
		}
	}

	return r
}

func (r *amRunner) do(c amCall) amResult {
	r.events = r.events[:0]
	var err error
	switch c.Kind {
	case amStart:
		err = r.a.Start(amTID(c.ID), amTime(c.T))
	case amStop:
		err = r.a.Stop(amTID(c.ID))
	case amStopErr:
		err = r.a.StopWithError(amTID(c.ID), errCustomStop)
	case amProcess:
		r.lastM = r.msgs[c.ID]
		err = r.a.Process(r.lastM)
	case amCollect:
		err = r.a.Collect(amTime(c.T))
	case amSetHandler:
		err = r.a.SetHandler(r.handler(c.H))
	case amClose:
		err = r.a.Close()
	}

	return amResult{Err: amErrClass(err), Events: canonEvents(r.events)}
}

// amAlphabet is the call alphabet of the exhaustive exploration.
func amAlphabet() []amCall {
	var out []amCall
	for id := int8(0); id < amIDs; id++ {
		for t := int8(0); t < 4; t++ {
			out = append(out, amCall{Kind: amStart, ID: id, T: t})
		}
	}
	for id := int8(0); id < amIDs; id++ {
		out = append(out, amCall{Kind: amStop, ID: id})
	}
	for id := int8(0); id < amIDs; id++ {
		out = append(out, amCall{Kind: amStopErr, ID: id})
	}
	for id := int8(0); id < amIDs; id++ {
		out = append(out, amCall{Kind: amProcess, ID: id})
	}
	for t := int8(0); t < 4; t++ {
		out = append(out, amCall{Kind: amCollect, T: t})
	}
	out = append(out, amCall{Kind: amSetHandler, H: 1}, amCall{Kind: amClose})

	return out
}

func seqString(seq []amCall) string {
	s := make([]string, len(seq))
	for i, c := range seq {
		s[i] = c.String()
	}

	return strings.Join(s, " ; ")
}

// c13RunSeq executes a sequence on a fresh agent next to the model. Returns false on violation.
func c13RunSeq(c *core.Ctx, seq []amCall, states map[amState]struct{}) bool {
	r := newAMRunner()
	var st amState
	for k, call := range seq {
		var want amResult
		st, want = amStep(st, call)
		got := r.do(call)
		if states != nil {
			states[st] = struct{}{}
		}
		if r.bad != "" || got != want {
			c.Violate("spec-mismatch", "spec-mismatch:"+call.Kind.String(), map[string]interface{}{
				"sequence": seqString(seq[:k+1]), "call": call.String(), "agent": fmt.Sprintf("%+v", got), "specification": fmt.Sprintf("%+v", want), "note": r.bad,
			})

			return false
		}
	}

	return true
}

func c13(c *core.Ctx) {
	alpha := amAlphabet()
	n := len(alpha)
	depth := int(c.N(5, 6))
	states := map[amState]struct{}{}
	// exhaustive: every sequence of length `depth` (all shorter ones are its prefixes); one case per leading pair
	c.Section("exhaustive", int64(n*n), func(i int64, _ *gen.Rand) {
		seq := make([]amCall, depth)
		seq[0], seq[1] = alpha[int(i)/n], alpha[int(i)%n]
		idx := make([]int, depth)
		var count int64
		for {
			for k := 2; k < depth; k++ {
				seq[k] = alpha[idx[k]]
			}
			count++
			if !c13RunSeq(c, seq, states) {
				break
			}
			// next
			k := depth - 1
			for k >= 2 {
				idx[k]++
				if idx[k] < n {
					break
				}
				idx[k] = 0
				k--
			}
			if k < 2 {
				break
			}
		}
		c.Eval(count)
		c.Count("calls_compared", count*int64(depth))
		c.Distinct(uint64(i))
		if i == 5 {
			c.Sample(seqString(seq))
		}
	})
	c.MarkExhaustive(fmt.Sprintf("all %d^%d call sequences", n, depth))
	// abstract states visited by this batch (the driver takes the max over batches; every batch with >= 1 case sees most)
	c.Max("abstract_states_visited_max_per_batch", int64(len(states)))
	for s := range states {
		c.Distinct(gen.HashString(fmt.Sprintf("state%+v", s)))
	}
	// many transactions expiring in one Collect: exactly those with deadline < t, all of them, in that single call
	c.Section("mass-expiry", c.N(60, 20000), func(_ int64, r *gen.Rand) {
		c13Mass(c, r)
	})
	// a handler that calls Collect itself (with a later time) while the outer Collect is delivering: the nested call is
	// a Collect like any other
	c.Section("reentrant-collect", c.N(300, 100000), func(_ int64, r *gen.Rand) {
		c13Reentrant(c, r)
	})
	// transaction ids that differ as 96-bit values but coincide under the usual ways of folding 12 bytes into a machine
	// word (xor/sum of the 32-bit words, first or last 8 bytes equal): they are different transactions
	c.Section("colliding-ids", c.N(400, 100000), func(_ int64, r *gen.Rand) {
		c13Family(c, r)
	})
	// a handler that registers a new, already overdue transaction while a mass Collect is delivering: Collect(t) is one
	// snapshot, the newcomer is not part of it
	c.Section("start-during-mass-collect", c.N(60, 20000), func(_ int64, r *gen.Rand) {
		c13StartDuringMass(c, r)
	})
	// Start fails for a duplicate id or a closed agent - not because many transactions are in flight
	c.SectionSerial("million-live-transactions", 1, func(_ int64, _ *gen.Rand) {
		a := stun.NewAgent(func(stun.Event) {})
		n := 1<<20 + 5
		if c.Config != "rel" {
			n = 1<<18 + 5 // bounded time under the race detector / in the debug build
		}
		for i := 0; i < n; i++ {
			var id [stun.TransactionIDSize]byte
			id[0], id[1], id[2], id[3] = byte(i), byte(i>>8), byte(i>>16), 0x3A
			if err := a.Start(id, amTime(3)); err != nil {
				c.Violate("spec-mismatch-capacity", "spec-mismatch:Start-with-many-in-flight", map[string]interface{}{"live_transactions": i, "agent_err": err.Error(), "spec_err": "nil"})

				break
			}
		}
		c.Eval(1)
		c.Count("calls_compared", int64(n))
		_ = a.Close()
		c.Distinct(6 << 50)
	})
	// extreme instants: zero time, epoch, year 1, 2262 (UnixNano limit), 9999
	c.SectionSerial("extreme-times", 1, func(_ int64, _ *gen.Rand) {
		pts := []time.Time{{}, time.Unix(0, 0), time.Date(1, 1, 1, 0, 0, 1, 0, time.UTC), time.Unix(0, 1<<63-1), time.Unix(0, 1<<63-1).Add(time.Nanosecond),
			time.Date(2262, 4, 12, 0, 0, 0, 0, time.UTC), time.Date(2500, 1, 1, 0, 0, 0, 0, time.UTC), time.Date(9999, 12, 31, 23, 59, 59, 0, time.UTC), amEpoch, time.Unix(0, -1<<63)}
		for di, d := range pts {
			for ti, t := range pts {
				timeouts := 0
				a := stun.NewAgent(func(e stun.Event) {
					if amEventClass(e) == evTimeout {
						timeouts++
					}
				})
				_ = a.Start(amTID(0), d)
				_ = a.Collect(t)
				c.Eval(1)
				c.Count("calls_compared", 2)
				want := 0
				if d.Before(t) {
					want = 1
				}
				if timeouts != want {
					c.Violate("spec-mismatch-extreme-times", "spec-mismatch:Collect-extreme-times", map[string]interface{}{
						"deadline": d.String(), "collect_time": t.String(), "timeout_events": timeouts, "deadline_strictly_before": want == 1})

					return
				}
				c.Distinct(uint64(di)<<8 | uint64(ti) | 5<<50)
			}
		}
	})
	// long random sequences over many ids, deadlines on both sides of the collect times, re-entrant handlers
	c.Section("random-long", c.N(2000, 500000), func(_ int64, r *gen.Rand) {
		c13Random(c, r)
	})
}

// c13Random runs one long random sequence over 64 ids with a map-based model and handlers that call back into the agent.
func c13Random(c *core.Ctx, r *gen.Rand) {
	type tid = [stun.TransactionIDSize]byte
	mkID := func(i int) tid {
		var t tid
		t[0], t[1], t[11] = byte(i), byte(i>>8), 0x77

		return t
	}
	model := map[tid]time.Time{}
	closed := false
	handlerTag := 0
	var (
		got      []string
		a        *stun.Agent
		reentry  []string // results of nested calls made from handlers
		wantNest []string
	)
	nestedID := func(t tid) tid { t[10] ^= 0x55; return t }
	mkHandler := func(tag int) stun.Handler {
		return func(e stun.Event) {
			cl := amEventClass(e)
			got = append(got, fmt.Sprintf("%x:%s@h%d", e.TransactionID[:2], cl, tag))
			// re-entrancy (outside Close): a third of the events start a derived transaction from inside the handler
			if cl != evClosed && e.TransactionID[0]%3 == 0 && e.TransactionID[10] == 0 {
				err := a.Start(nestedID(e.TransactionID), amEpoch.Add(time.Hour))
				reentry = append(reentry, fmt.Sprintf("%x:%s", e.TransactionID[:2], amErrClass(err)))
			}
		}
	}
	a = stun.NewAgent(mkHandler(0))
	steps := 200 + r.Intn(201)
	var trace []string
	for s := 0; s < steps; s++ {
		got, reentry, wantNest = got[:0], reentry[:0], wantNest[:0]
		var want []string
		var err error
		var wantErr string
		emit := func(t tid, cl string) {
			want = append(want, fmt.Sprintf("%x:%s@h%d", t[:2], cl, handlerTag))
			if cl != evClosed && t[0]%3 == 0 && t[10] == 0 {
				// the handler will call Start(nested) after the outer call's transition
				wantNest = append(wantNest, fmt.Sprintf("%x:?", t[:2]))
			}
		}
		id := mkID(r.Intn(64))
		if r.Chance(1, 6) {
			id = nestedID(mkID(3 * r.Intn(21)))
		}
		op := r.Intn(100)
		var desc string
		switch {
		case op < 35:
			d := amEpoch.Add(time.Duration(r.Intn(20)) * time.Millisecond)
			desc = fmt.Sprintf("Start(%x,+%v)", id[:2], d.Sub(amEpoch))
			err = a.Start(id, d)
			switch {
			case closed:
				wantErr = "agent-closed"
			case hasKey(model, id):
				wantErr = "exists"
			default:
				wantErr = "nil"
				model[id] = d
			}
		case op < 50:
			desc = fmt.Sprintf("Stop(%x)", id[:2])
			switch r.Intn(5) {
			case 0, 1:
				err = a.Stop(id)
			case 2:
				err = a.StopWithError(id, nil)
				desc = "StopWithError-nil" + desc[4:]
			default:
				err = a.StopWithError(id, errCustomStop)
				desc = "StopWithError" + desc[4:]
			}
			switch {
			case closed:
				wantErr = "agent-closed"
			case !hasKey(model, id):
				wantErr = "not-exists"
			default:
				wantErr = "nil"
				delete(model, id)
				if strings.HasPrefix(desc, "StopWithError-nil") {
					emit(id, evNilError)
				} else if strings.HasPrefix(desc, "StopWithError") {
					emit(id, evCustom)
				} else {
					emit(id, evStopped)
				}
			}
		case op < 65:
			desc = fmt.Sprintf("Process(%x)", id[:2])
			err = a.Process(&stun.Message{TransactionID: id, Type: stun.NewType(stun.Method(r.Intn(0x1000)), stun.MessageClass(r.Intn(4)))})
			if closed {
				wantErr = "agent-closed"
			} else {
				wantErr = "nil"
				delete(model, id)
				emit(id, evMessage)
			}
		case op < 90:
			t := amEpoch.Add(time.Duration(r.Intn(20)) * time.Millisecond)
			desc = fmt.Sprintf("Collect(+%v)", t.Sub(amEpoch))
			err = a.Collect(t)
			if closed {
				wantErr = "agent-closed"
			} else {
				wantErr = "nil"
				for k, d := range model {
					if d.Before(t) {
						delete(model, k)
						emit(k, evTimeout)
					}
				}
			}
		case op < 97:
			desc = "SetHandler"
			tag := handlerTag + 1
			err = a.SetHandler(mkHandler(tag))
			if closed {
				wantErr = "agent-closed"
			} else {
				wantErr = "nil"
				handlerTag = tag
			}
		default:
			desc = "Close"
			err = a.Close()
			if closed {
				wantErr = "agent-closed"
			} else {
				wantErr = "nil"
				for k := range model {
					emit(k, evClosed)
				}
				model = map[tid]time.Time{}
				closed = true
			}
		}
		trace = append(trace, desc)
		if len(trace) > 30 {
			trace = trace[1:]
		}
		// nested calls: apply to the model now (they ran after the outer transition)
		for i, n := range wantNest {
			var parent tid
			fmt.Sscanf(n[:4], "%02x%02x", &parent[0], &parent[1]) //nolint:errcheck
			parent[11] = 0x77
			nid := nestedID(parent)
			res := "nil"
			switch {
			case closed:
				res = "agent-closed"
			case hasKey(model, nid):
				res = "exists"
			default:
				model[nid] = amEpoch.Add(time.Hour)
			}
			wantNest[i] = n[:5] + res
		}
		c.Count("calls_compared", 1)
		if amErrClass(err) != wantErr || multiset(got) != multiset(want) || multiset(reentry) != multiset(wantNest) {
			c.Violate("spec-mismatch-random", "spec-mismatch-random:"+opName(desc), map[string]interface{}{
				"last_calls": strings.Join(trace, " ; "), "call": desc, "agent_err": amErrClass(err), "spec_err": wantErr,
				"agent_events": multiset(got), "spec_events": multiset(want), "nested_got": multiset(reentry), "nested_want": multiset(wantNest),
			})

			return
		}
		c.Count("events_compared", int64(len(got)))
		c.Count("reentrant_calls", int64(len(reentry)))
	}
	c.Eval(1)
	c.Distinct(r.U64())
}

func hasKey(m map[[stun.TransactionIDSize]byte]time.Time, k [stun.TransactionIDSize]byte) bool {
	_, ok := m[k]

	return ok
}

func multiset(s []string) string {
	c := append([]string(nil), s...)
	sortStrings(c)

	return strings.Join(c, ",")
}

func sortStrings(s []string) {
	for i := 1; i < len(s); i++ {
		for j := i; j > 0 && s[j] < s[j-1]; j-- {
			s[j], s[j-1] = s[j-1], s[j]
		}
	}
}

// c13Reentrant: groups A (deadline < t1), B (t1 <= deadline < t2), C (>= t2). The handler, on the k-th event it sees,
// calls Collect(t2). The outer call is Collect(t1), or a Stop/Process of some transaction.
func c13Reentrant(c *core.Ctx, r *gen.Rand) {
	type tid = [stun.TransactionIDSize]byte
	t1, t2 := amEpoch.Add(time.Second), amEpoch.Add(2*time.Second)
	events := map[tid][]string{}
	var a *stun.Agent
	seen, trigger := 0, r.Intn(3)
	outer := r.Intn(3)
	if outer != 0 {
		trigger = 0
	}
	nestedClose := outer == 0 && r.Chance(1, 3) // the handler closes the agent while Collect is delivering
	nestedErr := "not-called"
	a = stun.NewAgent(func(e stun.Event) {
		events[e.TransactionID] = append(events[e.TransactionID], amEventClass(e))
		if seen == trigger {
			seen++
			if nestedClose {
				nestedErr = amErrClass(a.Close())
			} else {
				nestedErr = amErrClass(a.Collect(t2))
			}

			return
		}
		seen++
	})
	group := map[tid]byte{}
	nA, nB, nC := 3+r.Intn(6), 1+r.Intn(6), r.Intn(4)
	if r.Chance(1, 10) {
		nA, nB = 100+r.Intn(100), 100+r.Intn(100)
	}
	i := 0
	add := func(g byte, d time.Time) tid {
		var id tid
		id[0], id[1], id[2] = byte(i), byte(i>>8), g
		i++
		group[id] = g
		_ = a.Start(id, d)

		return id
	}
	var first tid
	for k := 0; k < nA; k++ {
		id := add('A', t1.Add(-time.Duration(1+r.Intn(1000))*time.Nanosecond))
		if k == 0 {
			first = id
		}
	}
	for k := 0; k < nB; k++ {
		add('B', t1.Add(time.Duration(r.Intn(1000))*time.Millisecond)) // includes deadline == t1
	}
	for k := 0; k < nC; k++ {
		add('C', t2.Add(time.Duration(r.Intn(1000))*time.Millisecond)) // includes deadline == t2
	}
	want := map[tid]string{}
	for id, g := range group {
		switch {
		case g == 'A':
			want[id] = evTimeout // unregistered by the outer Collect before the first handler ran: Collect delivers them all
		case nestedClose:
			want[id] = evClosed // still registered when the handler closed the agent
		case g == 'B':
			want[id] = evTimeout
		}
	}
	var oerr error
	switch outer {
	case 0:
		oerr = a.Collect(t1)
	case 1:
		oerr = a.Stop(first)
		want[first] = evStopped
	default:
		oerr = a.Process(&stun.Message{TransactionID: first})
		want[first] = evMessage
	}
	c.Eval(1)
	c.Count("calls_compared", 2)
	c.Count("reentrant_calls", 1)
	problem := ""
	if amErrClass(oerr) != "nil" || nestedErr != "nil" {
		problem = fmt.Sprintf("outer call returned %s, nested Collect returned %s", amErrClass(oerr), nestedErr)
	}
	for id, w := range want {
		if len(events[id]) != 1 || events[id][0] != w {
			problem = fmt.Sprintf("transaction %x (group %c): events %v, specification: exactly one %s", id[:3], group[id], events[id], w)
		}
	}
	for id, evs := range events {
		if _, ok := want[id]; !ok && len(evs) > 0 {
			problem = fmt.Sprintf("transaction %x (group %c, deadline not before the nested collect time): events %v", id[:3], group[id], evs)
		}
	}
	c.Count("events_compared", int64(len(events)))
	if problem != "" {
		c.Violate("spec-mismatch-reentrant", "spec-mismatch:Collect-from-handler", map[string]interface{}{
			"outer_call": []string{"Collect(t1)", "Stop(a0)", "Process(a0)"}[outer], "groups": fmt.Sprintf("A=%d B=%d C=%d", nA, nB, nC), "handler_calls_Collect_on_event": trigger, "problem": problem,
		})

		return
	}
	if nestedClose {
		c.Distinct(r.U64())

		return
	}
	// group C is still registered
	closed := 0
	_ = a.SetHandler(func(e stun.Event) {
		if amEventClass(e) == evClosed {
			closed++
		}
	})
	_ = a.Close()
	if closed != nC {
		c.Violate("spec-mismatch-reentrant", "spec-mismatch:Close-after-reentrant-collect", map[string]interface{}{"remaining": nC, "closed_events": closed})
	}
	c.Distinct(r.U64())
}

// c13Family: random calls over a family of ids engineered to collide under word folds, against a map keyed by the full id.
func c13Family(c *core.Ctx, r *gen.Rand) {
	type tid = [stun.TransactionIDSize]byte
	base := r.TID()
	pat := [4]byte{byte(1 + r.Intn(255)), byte(1 + r.Intn(255)), byte(1 + r.Intn(255)), byte(1 + r.Intn(255))}
	xorAt := func(t tid, offs ...int) tid {
		for _, o := range offs {
			for k := 0; k < 4; k++ {
				t[o+k] ^= pat[k]
			}
		}

		return t
	}
	swapWords := func(t tid, a, b int) tid {
		for k := 0; k < 4; k++ {
			t[a+k], t[b+k] = t[b+k], t[a+k]
		}

		return t
	}
	lastOnly, firstOnly := base, base
	lastOnly[11] ^= 0x01 // same first 8 (and 11) bytes
	firstOnly[0] ^= 0x80 // same last 8 (and 11) bytes
	ids := []tid{base, xorAt(base, 4, 8), xorAt(base, 0, 4), xorAt(base, 0, 8), swapWords(base, 0, 8), swapWords(base, 4, 8), lastOnly, firstOnly}
	seen := map[tid]bool{}
	uniq := ids[:0]
	for _, id := range ids {
		if !seen[id] {
			seen[id] = true
			uniq = append(uniq, id)
		}
	}
	ids = uniq
	model := map[tid]time.Time{}
	closed := false
	var got []string
	a := stun.NewAgent(func(e stun.Event) { got = append(got, fmt.Sprintf("%x:%s", e.TransactionID, amEventClass(e))) })
	var trace []string
	for s := 0; s < 60; s++ {
		got = got[:0]
		var want []string
		id := ids[r.Intn(len(ids))]
		var err error
		wantErr := "nil"
		var desc string
		switch op := r.Intn(10); {
		case op < 4:
			d := amEpoch.Add(time.Duration(r.Intn(10)) * time.Millisecond)
			desc = fmt.Sprintf("Start(%x)", id)
			err = a.Start(id, d)
			switch {
			case closed:
				wantErr = "agent-closed"
			case hasKey(model, id):
				wantErr = "exists"
			default:
				model[id] = d
			}
		case op < 6:
			desc = fmt.Sprintf("Stop(%x)", id)
			err = a.Stop(id)
			switch {
			case closed:
				wantErr = "agent-closed"
			case !hasKey(model, id):
				wantErr = "not-exists"
			default:
				delete(model, id)
				want = append(want, fmt.Sprintf("%x:%s", id, evStopped))
			}
		case op < 8:
			desc = fmt.Sprintf("Process(%x)", id)
			err = a.Process(&stun.Message{TransactionID: id})
			if closed {
				wantErr = "agent-closed"
			} else {
				delete(model, id)
				want = append(want, fmt.Sprintf("%x:%s", id, evMessage))
			}
		case op < 9 || s < 40:
			t := amEpoch.Add(time.Duration(r.Intn(10)) * time.Millisecond)
			desc = fmt.Sprintf("Collect(+%v)", t.Sub(amEpoch))
			err = a.Collect(t)
			if closed {
				wantErr = "agent-closed"
			} else {
				for k, d := range model {
					if d.Before(t) {
						delete(model, k)
						want = append(want, fmt.Sprintf("%x:%s", k, evTimeout))
					}
				}
			}
		default:
			desc = "Close"
			err = a.Close()
			if closed {
				wantErr = "agent-closed"
			} else {
				for k := range model {
					want = append(want, fmt.Sprintf("%x:%s", k, evClosed))
				}
				model = map[tid]time.Time{}
				closed = true
			}
		}
		trace = append(trace, desc)
		c.Count("calls_compared", 1)
		if amErrClass(err) != wantErr || multiset(got) != multiset(want) {
			c.Violate("spec-mismatch-colliding-ids", "spec-mismatch-colliding-ids:"+opName(desc), map[string]interface{}{
				"calls": strings.Join(trace, " ; "), "agent_err": amErrClass(err), "spec_err": wantErr, "agent_events": multiset(got), "spec_events": multiset(want)})

			return
		}
		c.Count("events_compared", int64(len(got)))
	}
	c.Eval(1)
	c.Distinct(r.U64())
}

// c13StartDuringMass: n transactions expire in one Collect(t); the handler, on its first event, registers a newcomer
// whose deadline is already before t. Collect is one snapshot: the newcomer gets no timeout from this call and is still
// registered afterwards.
func c13StartDuringMass(c *core.Ctx, r *gen.Rand) {
	type tid = [stun.TransactionIDSize]byte
	n := r.PickInt([]int{1, 50, 99, 100, 101, 150, 250, 400})
	t := amEpoch.Add(time.Second)
	var a *stun.Agent
	timeouts := map[tid]int{}
	newcomer := tid{0xEE, 0xEE, 0x01}
	startErr := "not-called"
	seen := 0
	trigger := r.PickInt([]int{0, 1, n / 2, n - 1})
	if trigger >= n {
		trigger = n - 1
	}
	a = stun.NewAgent(func(e stun.Event) {
		if amEventClass(e) == evTimeout {
			timeouts[e.TransactionID]++
		}
		if seen == trigger {
			startErr = amErrClass(a.Start(newcomer, t.Add(-time.Duration(1+r.Intn(1000))*time.Millisecond)))
		}
		seen++
	})
	for i := 0; i < n; i++ {
		_ = a.Start(tid{byte(i), byte(i >> 8), 0x02}, t.Add(-time.Nanosecond))
	}
	cerr := a.Collect(t)
	c.Eval(1)
	c.Count("calls_compared", int64(n)+3)
	c.Count("reentrant_calls", 1)
	stopErr := amErrClass(a.Stop(newcomer))
	problem := ""
	switch {
	case amErrClass(cerr) != "nil" || startErr != "nil":
		problem = fmt.Sprintf("Collect returned %s, the nested Start returned %s", amErrClass(cerr), startErr)
	case timeouts[newcomer] != 0:
		problem = "the transaction registered by the handler during Collect(t) got a timeout from that very call"
	case len(timeouts) != n:
		problem = fmt.Sprintf("%d of %d expired transactions got a timeout", len(timeouts), n)
	case stopErr != "nil":
		problem = "after Collect returned, Stop of the transaction registered by the handler reports " + stopErr
	}
	if problem != "" {
		c.Violate("spec-mismatch-reentrant", "spec-mismatch:Start-from-handler-during-mass-Collect", map[string]interface{}{
			"expired_in_one_collect": n, "handler_starts_on_event": trigger, "problem": problem})

		return
	}
	c.Distinct(r.U64())
}

// c13Mass registers n transactions with deadlines on both sides of a collect time and collects once.
func c13Mass(c *core.Ctx, r *gen.Rand) {
	n := r.PickInt([]int{1, 99, 100, 101, 137, 100 + r.Intn(400), 1000, 3500, 3600 + r.Intn(2000), 9000})
	timeouts := map[[stun.TransactionIDSize]byte]int{}
	others := 0
	a := stun.NewAgent(func(e stun.Event) {
		if amEventClass(e) == evTimeout {
			timeouts[e.TransactionID]++
		} else {
			others++
		}
	})
	cut := amEpoch.Add(time.Second)
	want := map[[stun.TransactionIDSize]byte]bool{}
	for i := 0; i < n; i++ {
		var id [stun.TransactionIDSize]byte
		id[0], id[1], id[2] = byte(i), byte(i>>8), 0x4D
		d := cut.Add(time.Duration(r.Range(-3, 3)) * time.Nanosecond)
		if r.Chance(1, 4) {
			d = cut.Add(time.Hour)
		}
		if err := a.Start(id, d); err != nil {
			c.Violate("mass-start", "mass-start", err.Error())

			return
		}
		if d.Before(cut) {
			want[id] = true
		}
	}
	if err := a.Collect(cut); err != nil {
		c.Violate("mass-collect", "mass-collect", err.Error())

		return
	}
	c.Eval(1)
	c.Count("calls_compared", int64(n)+1)
	c.Count("events_compared", int64(len(timeouts)))
	bad := others != 0 || len(timeouts) != len(want)
	for id, k := range timeouts {
		if k != 1 || !want[id] {
			bad = true
		}
	}
	if bad {
		c.Violate("spec-mismatch-mass-expiry", "spec-mismatch:Collect-mass", map[string]interface{}{
			"registered": n, "deadline_before_collect_time": len(want), "timeout_events": len(timeouts), "other_events": others,
		})

		return
	}
	// the survivors are still registered: Close emits exactly one closed event for each
	closed := 0
	_ = a.SetHandler(func(e stun.Event) {
		if amEventClass(e) == evClosed {
			closed++
		}
	})
	_ = a.Close()
	if closed != n-len(want) {
		c.Violate("spec-mismatch-mass-expiry", "spec-mismatch:Close-after-mass", map[string]interface{}{"registered": n, "expired": len(want), "closed_events": closed})
	}
	c.Distinct(r.U64())
}
