package props

import (
	"bytes"
	"fmt"
	"time"

	"github.com/pion/stun/v3/verifharness/core"
	"github.com/pion/stun/v3/verifharness/gen"
)

// C11: retransmissions are bit-identical, bounded and on schedule.
func init() { core.Register("C11", c11) }

var c11Oracles = oracleSet{writes: true} //nolint:gochecknoglobals

var c11Sizes = []int{20, 21, 24, 1499, 1500, 1501, 2047, 2048, 2049, 4096, 65535, 65555} //nolint:gochecknoglobals

var c11RTOs = []time.Duration{1, time.Millisecond, 300 * time.Millisecond, time.Hour} //nolint:gochecknoglobals

// c11Walk drives one transaction along its whole schedule, probing just before / at / just after every deadline,
// with one optional interfering event at position pos. Everything is judged on the write log with virtual timestamps.
func c11Walk(c *core.Ctx, size int, rto time.Duration, noRetransmit bool, interfere string, pos int) {
	c11WalkAt(c, size, rto, noRetransmit, interfere, pos, time.Time{}, false)
}

// c11Epochs: instants for virtual time zero. The schedule is a matter of differences; where on the time line it lies -
// also astride the limits of a 64-bit nanosecond count (1677-09-21, 2262-04-11) or in year 1 - changes nothing.
var c11Epochs = []time.Time{ //nolint:gochecknoglobals
	time.Unix(0, 1<<63-1).Add(-5*time.Second - 500*time.Millisecond), // the first deadline crosses 2262-04-11T23:47:16.854775807Z
	time.Unix(0, 1<<63-1).Add(-5*time.Second - 1),
	time.Unix(0, 1<<63-1).Add(-9 * time.Second),
	time.Unix(0, -1<<63).Add(-6 * time.Second),
	time.Date(1, 1, 1, 0, 0, 0, 0, time.UTC),
	time.Time{}.Add(-5 * time.Second), // the clock reads exactly the zero time.Time (a fake clock's zero value) when the request is started
	time.Time{}.Add(-5*time.Second - 1),
	time.Date(2500, 6, 1, 0, 0, 0, 0, time.UTC),
	time.Unix(0, 0).Add(-5 * time.Second),
	time.Date(1969, 12, 31, 23, 59, 50, 0, time.UTC),
}

func c11WalkAt(c *core.Ctx, size int, rto time.Duration, noRetransmit bool, interfere string, pos int, epoch time.Time, staleHeaderID bool) {
	c.Eval(1)
	o := rigOpts{rto: rto, noRetransmit: noRetransmit, epoch: epoch}
	r, err := newRig(o)
	if err != nil {
		c.Violate("newclient", "newclient", err.Error())

		return
	}
	n := r.maxAttempts()
	name := fmt.Sprintf("size=%d rto=%v retransmissions=%d interfere=%s@%d", size, rto, n, interfere, pos)
	if !epoch.IsZero() {
		name += " epoch=" + epoch.UTC().Format(time.RFC3339Nano)
	}
	if staleHeaderID {
		name += " header-id-differs-from-field"
	}
	fail := func(kind, msg string) {
		c.Violate(kind, kind, map[string]interface{}{"walk": name, "problem": msg, "ledger": r.describe()})
	}
	id := seqTID(1)
	t := r.newTx("Start", id, size)
	if staleHeaderID {
		// the caller assigned m.TransactionID without re-encoding: the raw header still carries other bytes. What is
		// written is the message as it was, byte for byte.
		for k := 8; k < 20; k++ {
			t.msg.Raw[k] ^= 0xA5
		}
	}
	r.w.SetNow(int64(5 * time.Second))
	if err := r.start(t); err != nil {
		fail("start-failed", err.Error())

		return
	}
	effRTO := int64(rto)
	ended := ""
	expectWrites := 1
	check := func(when string) bool {
		ws := r.writesFor(t, r.conn.Writes())
		if len(ws) != expectWrites {
			fail("write-count", fmt.Sprintf("%s: %d transmissions on the wire, schedule says %d", when, len(ws), expectWrites))

			return false
		}
		for k, wr := range ws {
			if !bytes.Equal(wr.Bytes, t.Raw) {
				fail("write-differs", fmt.Sprintf("%s: transmission %d has %d bytes, the message had %d bytes when Start was called (first difference at byte %d)",
					when, k, len(wr.Bytes), len(t.Raw), firstDiff(wr.Bytes, t.Raw)))

				return false
			}
		}
		inv := t.invocations()
		wantInv := 0
		if ended != "" {
			wantInv = 1
		}
		if len(inv) != wantInv || (wantInv == 1 && inv[0].Class != ended) {
			fail("termination", fmt.Sprintf("%s: handler invocations %v, schedule says %q", when, classesOf(inv), ended))

			return false
		}

		return true
	}
	if !check("after Start") {
		return
	}
	// a collector tick while the clock still shows the instant of Start: nothing is due
	r.tickAt(r.w.VNow())
	if !check("after a tick at the instant of Start") {
		return
	}
	last := r.w.VNow() // time of the latest transmission
	for k := 0; k <= n && ended == ""; k++ {
		if pos == k {
			switch interfere {
			case "response":
				r.deliver(id, response(id, "c11"), true)
				ended = "response"
			case "setrto":
				r.client.SetRTO(7 * time.Nanosecond) // must not touch the in-flight schedule
			case "close":
				_ = r.close()
				ended = "closed"
			case "write-error":
				// the k-th retransmission fails (the error's shape rotates: plain, timeout net.Error, *net.OpError, ...):
				// the failed attempt ends the transaction with that error, nothing is written afterwards
				if k < n {
					r.conn.FailNext(1)
				}
			case "reuse":
				// the caller rebuilds and reuses its message object for something else
				copy(t.msg.Raw, bytes.Repeat([]byte{0xEE}, len(t.msg.Raw)))
			}
			if !check("after " + interfere) {
				return
			}
			if ended != "" {
				break
			}
		}
		deadline := last + int64(k+1)*effRTO
		// ticks while the clock has not moved at all, and half way to the deadline: nothing is due
		r.tickAt(r.w.VNow())
		if !check(fmt.Sprintf("tick without clock movement before deadline %d", k)) {
			return
		}
		if half := last + int64(k+1)*effRTO/2; half > r.w.VNow() {
			r.tickAt(half)
			if !check(fmt.Sprintf("tick half way to deadline %d", k)) {
				return
			}
		}
		r.tickAt(deadline - 1)
		if !check(fmt.Sprintf("tick just before deadline %d", k)) {
			return
		}
		r.tickAt(deadline)
		if !check(fmt.Sprintf("tick at deadline %d", k)) {
			return
		}
		r.tickAt(deadline + 1)
		switch {
		case k < n && pos == k && interfere == "write-error":
			expectWrites++ // the failed attempt is on the log
			ended = "write-error"
		case k < n:
			expectWrites++
			last = deadline + 1
		default:
			ended = "timeout"
		}
		if !check(fmt.Sprintf("tick just after deadline %d", k)) {
			return
		}
		c.Count("deadlines_probed", 1)
	}
	// nothing more is written for a transaction that has ended
	if ended != "closed" {
		for j := 1; j <= 3; j++ {
			r.tickAt(r.w.VNow() + int64(j)*effRTO*20 + int64(time.Hour))
			if !check("tick long after termination") {
				return
			}
		}
	}
	if ended != "closed" {
		_ = r.close()
	}
	if !check("after Close") {
		return
	}
	for _, p := range r.judge(c11Oracles, true) {
		fail(p.Kind, p.Detail)
	}
	c.Count("transmissions_compared", int64(expectWrites))
	c.DistinctStr(name)
	if c.WantSample() && size == 2049 {
		c.Sample(map[string]interface{}{"walk": name, "ledger": r.describe()})
	}
}

func c11(c *core.Ctx) {
	interferes := []string{"none", "response", "setrto", "close", "reuse", "write-error"}
	type walk struct {
		size      int
		rto       time.Duration
		noRetrans bool
		interfere string
		pos       int
	}
	var plan []walk
	for _, size := range c11Sizes {
		for _, rto := range c11RTOs {
			for _, nr := range []bool{false, true} {
				n := 7
				if nr {
					n = 0
				}
				for _, in := range interferes {
					if in == "none" {
						plan = append(plan, walk{size, rto, nr, in, -1})

						continue
					}
					for pos := 0; pos <= n; pos++ {
						plan = append(plan, walk{size, rto, nr, in, pos})
					}
				}
			}
		}
	}
	c.Section("schedule-walks", int64(len(plan)), func(i int64, _ *gen.Rand) {
		w := plan[i]
		c11Walk(c, w.size, w.rto, w.noRetrans, w.interfere, w.pos)
	})
	c.MarkExhaustive("schedule walks: 12 sizes x 4 RTOs x {7,0} retransmissions x 6 interferences x every position")
	// the same walks somewhere else on the time line, and with a request whose raw header id differs from its field
	c.Section("schedule-walks-epochs", int64(len(c11Epochs)*2*len(interferes)*2), func(i int64, r *gen.Rand) {
		k := int(i)
		ep := c11Epochs[k%len(c11Epochs)]
		k /= len(c11Epochs)
		nr := k%2 == 1
		k /= 2
		in := interferes[k%len(interferes)]
		stale := k/len(interferes) == 1
		n := 7
		if nr {
			n = 0
		}
		rto := []time.Duration{time.Second, 300 * time.Millisecond, time.Hour, 3 * time.Second}[int(i)%4]
		c11WalkAt(c, []int{20, 28, 1500, 2049}[int(i/3)%4], rto, nr, in, r.Intn(n+1), ep, stale)
	})
	// the library's own ticker collector must collect at the injected clock's time, not at wall time: virtual time is
	// held decades before the wall clock, ticks fire every millisecond of real time, nothing may be retransmitted
	c.SectionSerial("ticker-collector-with-virtual-clock", 3, func(i int64, _ *gen.Rand) {
		c.Eval(1)
		r, err := newRig(rigOpts{realCollector: true, rto: 300 * time.Millisecond, noRetransmit: i == 2})
		if err != nil {
			c.Violate("newclient", "newclient", err.Error())

			return
		}
		r.w.SetNow(-int64(27 * 365 * 24 * time.Hour)) // about the year 2000
		t := r.newTx("Start", seqTID(1), 64)
		if err := r.start(t); err != nil {
			c.Violate("start-failed", "start-failed", err.Error())

			return
		}
		time.Sleep(40 * time.Millisecond) // dozens of ticks; the virtual clock has not moved
		ws := r.writesFor(t, r.conn.Writes())
		inv := t.invocations()
		if len(ws) != 1 || len(inv) != 0 {
			c.Violate("write-count", "write-before-deadline:ticker-collector", map[string]interface{}{
				"problem": fmt.Sprintf("virtual clock stands still before the first deadline, yet %d transmissions and handler invocations %v", len(ws), classesOf(inv)), "ledger": r.describe()})
		}
		if i >= 1 {
			// one nanosecond before the deadline: still nothing
			r.w.SetNow(r.w.VNow() + int64(300*time.Millisecond) - 1)
			time.Sleep(20 * time.Millisecond)
			if n := len(r.writesFor(t, r.conn.Writes())); n != 1 || len(t.invocations()) != 0 {
				c.Violate("write-count", "write-before-deadline:ticker-collector", map[string]interface{}{
					"problem": fmt.Sprintf("virtual clock 1ns before the first deadline, yet %d transmissions / invocations %v", n, classesOf(t.invocations())), "ledger": r.describe()})
			}
		}
		_ = r.close()
		c.Count("ticker_collector_walks", 1)
		c.DistinctStr(fmt.Sprintf("ticker-collector-%d", i))
	})
	c.Section("buffers-not-shared-across-clients", 8, func(i int64, _ *gen.Rand) {
		targetedBuffersNotShared(c, int(c.N(40, 2000)))
		c.DistinctStr(fmt.Sprintf("buffers-not-shared-%d", i))
	})
	c.Section("short-write", 4, func(i int64, _ *gen.Rand) {
		targetedShortWrite(c, int(i))
		c.DistinctStr(fmt.Sprintf("short-write-%d", i))
	})
	c.Section("response-vs-timeout", 4, func(i int64, _ *gen.Rand) {
		targetedResponseVsTimeout(c, int(c.N(800, 20000)), c11Oracles)
		c.DistinctStr(fmt.Sprintf("response-vs-timeout-%d", i))
	})
	c.Section("overlapping-retransmissions", 4, func(i int64, _ *gen.Rand) {
		targetedOverlappingRetransmissions(c, int(i))
		c.DistinctStr(fmt.Sprintf("overlapping-retransmissions-%d", i))
	})
	c.Section("stops-and-budget", 6, func(i int64, _ *gen.Rand) {
		targetedStopsAndBudget(c, int(i))
		c.DistinctStr(fmt.Sprintf("stops-and-budget-%d", i))
	})
	c.Section("ticker-follows-clock", 3, func(i int64, _ *gen.Rand) {
		targetedTickerFollowsClock(c, int(i))
		c.DistinctStr(fmt.Sprintf("ticker-follows-clock-%d", i))
	})
	c.Section("clock-moves-inside-tick", 3, func(i int64, _ *gen.Rand) {
		targetedClockMovesInsideTick(c, int(i))
		c.DistinctStr(fmt.Sprintf("clock-moves-inside-tick-%d", i))
	})
	// Close while the library's ticker collector is in the middle of a retransmission: nothing is written once Close returned
	c.Section("close-during-retransmitting-tick", 4, func(i int64, _ *gen.Rand) {
		targetedCloseDuringCollectorTick(c, 8+int(i))
		c.DistinctStr(fmt.Sprintf("close-during-retransmitting-tick-%d", i))
	})
	// random sizes
	c.Section("schedule-walks-random", c.N(300, 200000), func(_ int64, r *gen.Rand) {
		size := r.PickInt([]int{20 + r.Intn(3000), 2040 + r.Intn(20), 20 + r.Intn(65536)})
		rto := time.Duration(1 + r.Intn(1000000000))
		nr := r.Chance(1, 4)
		n := 7
		if nr {
			n = 0
		}
		c11Walk(c, size, rto, nr, interferes[r.Intn(len(interferes))], r.Intn(n+1))
	})
	// histories with SetRTO and mixed sizes against the model (write counts after every event)
	depth := int(c.N(4, 6))
	prefixes := historyPrefixes(2)
	c.Section("histories-with-setrto", int64(len(prefixes)), func(i int64, _ *gen.Rand) {
		st := newSeqStats()
		var n int64
		enumerateHistories(depth, 2, true, prefixes[i], func(h []hEvent) bool {
			hh := append([]hEvent(nil), h...)
			for k := range hh {
				if hh[k].Kind == 'S' || hh[k].Kind == 'D' {
					hh[k].Size = []int{2049, 3000, 24}[(k+int(hh[k].ID))%3]
				}
			}
			probs, _, rg := runHistory(rigOpts{}, hh, c11Oracles, st)
			n++
			if len(probs) > 0 {
				reportRigProblems(c, probs, rg, map[string]interface{}{"history": histString(hh)})

				return false
			}

			return true
		})
		c.Eval(n)
		flushSeqStats(c, st)
		c.Distinct(uint64(i) | 1<<50)
	})
	clientPairwise(c, c11Oracles)
	clientStress(c, c11Oracles, c.N(150, 5000), func(i int64, r *gen.Rand) stressCfg {
		return stressCfg{goroutines: 2 + r.Intn(7), opsPerG: 2 + r.Intn(7), closers: 1, opts: rigOpts{noRetransmit: i%4 == 0, rto: time.Duration(50+r.Intn(300)) * time.Millisecond}}
	})
}
