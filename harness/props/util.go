// Package props holds one workload+oracle per property.
package props

import (
	"bytes"
	"errors"
	"fmt"
	"io"
	"os"
	"path/filepath"
	"reflect"
	"runtime"
	"sort"
	"strconv"
	"strings"
	"sync"
	"unsafe"

	"github.com/pion/stun/v3"
	"github.com/pion/stun/v3/verifharness/core"
	"github.com/pion/stun/v3/verifharness/gen"
	"github.com/pion/stun/v3/verifharness/ref"
)

// repoDir is where the tree under test lives (only used to read testdata seeds).
func repoDir() string {
	if d := os.Getenv("VERIF_REPO"); d != "" {
		return d
	}

	return "/repo"
}

var (
	seedOnce sync.Once //nolint:gochecknoglobals
	seedData [][]byte  //nolint:gochecknoglobals
)

// rfc5769 vectors (from the RFC, section 2): request, IPv4 response, IPv6 response, long-term request.
var rfc5769 = []string{ //nolint:gochecknoglobals
	"\x00\x01\x00\x58\x21\x12\xa4\x42\xb7\xe7\xa7\x01\xbc\x34\xd6\x86\xfa\x87\xdf\xae\x80\x22\x00\x10STUN test client\x00\x24\x00\x04\x6e\x00\x01\xff\x80\x29\x00\x08\x93\x2f\xf9\xb1\x51\x26\x3b\x36\x00\x06\x00\x09\x65\x76\x74\x6a\x3a\x68\x36\x76\x59\x20\x20\x20\x00\x08\x00\x14\x9a\xea\xa7\x0c\xbf\xd8\xcb\x56\x78\x1e\xf2\xb5\xb2\xd3\xf2\x49\xc1\xb5\x71\xa2\x80\x28\x00\x04\xe5\x7a\x3b\xcf",
	"\x01\x01\x00\x3c\x21\x12\xa4\x42\xb7\xe7\xa7\x01\xbc\x34\xd6\x86\xfa\x87\xdf\xae\x80\x22\x00\x0b\x74\x65\x73\x74\x20\x76\x65\x63\x74\x6f\x72\x20\x00\x20\x00\x08\x00\x01\xa1\x47\xe1\x12\xa6\x43\x00\x08\x00\x14\x2b\x91\xf5\x99\xfd\x9e\x90\xc3\x8c\x74\x89\xf9\x2a\xf9\xba\x53\xf0\x6b\xe7\xd7\x80\x28\x00\x04\xc0\x7d\x4c\x96",
	"\x01\x01\x00\x48\x21\x12\xa4\x42\xb7\xe7\xa7\x01\xbc\x34\xd6\x86\xfa\x87\xdf\xae\x80\x22\x00\x0b\x74\x65\x73\x74\x20\x76\x65\x63\x74\x6f\x72\x20\x00\x20\x00\x14\x00\x02\xa1\x47\x01\x13\xa9\xfa\xa5\xd3\xf1\x79\xbc\x25\xf4\xb5\xbe\xd2\xb9\xd9\x00\x08\x00\x14\xa3\x82\x95\x4e\x4b\xe6\x7b\xf1\x17\x84\xc9\x7c\x82\x92\xc2\x75\xbf\xe3\xed\x41\x80\x28\x00\x04\xc8\xfb\x0b\x4c",
}

// seeds returns the byte strings used as mutation seeds: RFC 5769 vectors
// plus the repository's fuzz corpus and sample captures when readable.
func seeds() [][]byte {
	seedOnce.Do(func() {
		for _, s := range rfc5769 {
			seedData = append(seedData, []byte(s))
		}
		root := filepath.Join(repoDir(), "testdata")
		_ = filepath.Walk(filepath.Join(root, "fuzz"), func(p string, info os.FileInfo, err error) error {
			if err != nil || info.IsDir() {
				return nil //nolint:nilerr
			}
			data, rerr := os.ReadFile(p) //nolint:gosec
			if rerr != nil {
				return nil //nolint:nilerr
			}
			for _, line := range strings.Split(string(data), "\n") {
				line = strings.TrimSpace(line)
				if strings.HasPrefix(line, "[]byte(") && strings.HasSuffix(line, ")") {
					if s, uerr := strconv.Unquote(line[7 : len(line)-1]); uerr == nil {
						seedData = append(seedData, []byte(s))
					}
				}
			}

			return nil
		})
		if data, err := os.ReadFile(filepath.Join(root, "ex1_chrome.stun")); err == nil { //nolint:gosec
			seedData = append(seedData, data)
		}
	})

	return seedData
}

// selfCheckOracles cross-checks the reference oracles against the RFC 5769
// vectors; a mismatch means the harness is broken (exit 3), not the library.
func selfCheckOracles() {
	pass := []byte("VOkJxbRl1RmTxUk/WvJxBt")
	for i, s := range rfc5769 {
		b := []byte(s)
		m, why := ref.Parse(b)
		if m == nil {
			fatalHarness(fmt.Sprintf("ref.Parse rejects RFC 5769 vector %d: %s", i, why))
		}
		mac, tlv, ok := ref.IntegrityExpected(b, m, pass)
		if !ok || !bytes.Equal(mac, b[tlv.Off:tlv.Off+20]) {
			fatalHarness(fmt.Sprintf("ref HMAC disagrees with RFC 5769 vector %d", i))
		}
		fp := m.TLVs[len(m.TLVs)-1]
		if fp.Type != 0x8028 {
			fatalHarness("vector without fingerprint")
		}
		v := ref.FingerprintValue(b[:fp.Off-4])
		if v != uint32(b[fp.Off])<<24|uint32(b[fp.Off+1])<<16|uint32(b[fp.Off+2])<<8|uint32(b[fp.Off+3]) {
			fatalHarness(fmt.Sprintf("ref CRC disagrees with RFC 5769 vector %d", i))
		}
	}
	if ref.JoinType(1, 0) != 0x0001 || ref.JoinType(1, 2) != 0x0101 || ref.JoinType(1, 3) != 0x0111 || ref.JoinType(1, 1) != 0x0011 {
		fatalHarness("ref.JoinType disagrees with RFC 5389 binding types")
	}
	// XOR-MAPPED-ADDRESS of vector 1: 192.0.2.1:32853
	m, _ := ref.Parse([]byte(rfc5769[1]))
	for _, t := range m.TLVs {
		if t.Type == 0x0020 {
			ip, port, ok := ref.DecXORAddr([]byte(rfc5769[1])[t.Off:t.Off+t.Len], m.TID)
			if !ok || port != 32853 || !bytes.Equal(ip, []byte{192, 0, 2, 1}) {
				fatalHarness("ref.DecXORAddr disagrees with RFC 5769")
			}
		}
	}
}

func fatalHarness(msg string) {
	fmt.Fprintln(os.Stderr, "HARNESS-BROKEN:", msg)
	os.Exit(3)
}

// attrView is one attribute as the library reports it.
type attrView struct {
	Type  uint16
	Len   int
	Value []byte // copy
}

// msgView is the library's struct content, deep-copied.
type msgView struct {
	Method uint16
	Class  uint8
	Length uint32
	TID    [12]byte
	Attrs  []attrView
	Raw    []byte // copy of Raw[:len]
}

func viewOf(m *stun.Message) msgView {
	v := msgView{Method: uint16(m.Type.Method), Class: uint8(m.Type.Class), Length: m.Length, TID: m.TransactionID}
	for _, a := range m.Attributes {
		v.Attrs = append(v.Attrs, attrView{Type: uint16(a.Type), Len: int(a.Length), Value: append([]byte(nil), a.Value...)})
	}
	v.Raw = append([]byte(nil), m.Raw...)

	return v
}

func (v msgView) equal(o msgView) bool { return v.diff(o) == "" }

func (v msgView) diff(o msgView) string {
	if v.Method != o.Method || v.Class != o.Class {
		return fmt.Sprintf("type %x/%d vs %x/%d", v.Method, v.Class, o.Method, o.Class)
	}
	if v.Length != o.Length {
		return fmt.Sprintf("Length %d vs %d", v.Length, o.Length)
	}
	if v.TID != o.TID {
		return "transaction id"
	}
	if len(v.Attrs) != len(o.Attrs) {
		return fmt.Sprintf("attribute count %d vs %d", len(v.Attrs), len(o.Attrs))
	}
	for i := range v.Attrs {
		a, b := v.Attrs[i], o.Attrs[i]
		if a.Type != b.Type || a.Len != b.Len || !bytes.Equal(a.Value, b.Value) {
			return fmt.Sprintf("attribute %d: (%#x,%d,%x) vs (%#x,%d,%x)", i, a.Type, a.Len, clip(a.Value), b.Type, b.Len, clip(b.Value))
		}
	}
	if !bytes.Equal(v.Raw, o.Raw) {
		return fmt.Sprintf("Raw differs (len %d vs %d)", len(v.Raw), len(o.Raw))
	}

	return ""
}

func clip(b []byte) []byte {
	if len(b) > 24 {
		return b[:24]
	}

	return b
}

// diffRef compares the library struct with a reference parse of b.
func diffRef(m *stun.Message, rm *ref.Msg, b []byte) string {
	if uint16(m.Type.Method) != rm.Method || uint8(m.Type.Class) != rm.Class {
		return fmt.Sprintf("type: lib %x/%d ref %x/%d", m.Type.Method, m.Type.Class, rm.Method, rm.Class)
	}
	if int(m.Length) != rm.Length {
		return fmt.Sprintf("Length: lib %d ref %d", m.Length, rm.Length)
	}
	if m.TransactionID != rm.TID {
		return "transaction id"
	}
	if len(m.Attributes) != len(rm.TLVs) {
		return fmt.Sprintf("attribute count: lib %d ref %d", len(m.Attributes), len(rm.TLVs))
	}
	for i, a := range m.Attributes {
		t := rm.TLVs[i]
		if uint16(a.Type) != t.Type || int(a.Length) != t.Len || len(a.Value) != t.Len || !bytes.Equal(a.Value, b[t.Off:t.Off+t.Len]) {
			return fmt.Sprintf("attribute %d: lib (%#x,%d,len %d) ref (%#x,%d)", i, uint16(a.Type), a.Length, len(a.Value), t.Type, t.Len)
		}
	}

	return ""
}

// memview checks that every non-empty Value is a view of exactly the
// reference bytes inside m.Raw: pointer offset == reference offset, in order,
// non-overlapping, inside Raw[20:20+Length].
func memview(m *stun.Message, rm *ref.Msg) string {
	if len(m.Raw) == 0 {
		return ""
	}
	base := uintptr(unsafe.Pointer(unsafe.SliceData(m.Raw)))
	prevEnd := 20
	for i, a := range m.Attributes {
		if i >= len(rm.TLVs) {
			return "more attributes than reference"
		}
		t := rm.TLVs[i]
		if len(a.Value) != t.Len {
			return fmt.Sprintf("attribute %d: len(Value)=%d declared %d", i, len(a.Value), t.Len)
		}
		if len(a.Value) == 0 {
			continue
		}
		p := uintptr(unsafe.Pointer(unsafe.SliceData(a.Value)))
		off := int(p - base)
		if p < base || off != t.Off {
			return fmt.Sprintf("attribute %d: Value at offset %d of Raw, reference says %d", i, off, t.Off)
		}
		if off < prevEnd {
			return fmt.Sprintf("attribute %d: overlaps or out of order (offset %d < %d)", i, off, prevEnd)
		}
		if off+len(a.Value) > 20+int(m.Length) || off+len(a.Value) > len(m.Raw) {
			return fmt.Sprintf("attribute %d: value [%d,%d) leaves declared body (20+%d) / Raw (%d)", i, off, off+len(a.Value), m.Length, len(m.Raw))
		}
		prevEnd = off + len(a.Value)
	}

	return ""
}

// Placement of an input in memory.
const (
	placeRedzone = iota // cap == len: any access past the message end panics
	placeSpare          // inside a larger buffer whose surroundings are poisoned
)

// place copies b into a buffer according to mode and returns the view.
// In placeSpare mode the spare capacity is filled according to fill:
// 0 zero, 1 0xFF, 2 random, 3 "plausible" (looks like further attributes).
func place(b []byte, mode int, fill int, extra int, r *gen.Rand) []byte {
	if mode == placeRedzone {
		buf := make([]byte, len(b))
		copy(buf, b)

		return buf[:len(b):len(b)]
	}
	buf := make([]byte, len(b)+extra)
	copy(buf, b)
	fillBytes(buf[len(b):], fill, r)

	return buf[:len(b)]
}

func fillBytes(p []byte, fill int, r *gen.Rand) {
	switch fill {
	case 0:
		for i := range p {
			p[i] = 0
		}
	case 1:
		for i := range p {
			p[i] = 0xFF
		}
	case 2:
		r.Fill(p)
	default:
		// plausible: family codes / small lengths that a reader would interpret
		pat := []byte{0x00, 0x01, 0x00, 0x04, 0x00, 0x02, 0x00, 0x14, 0x80, 0x28, 0x00, 0x04}
		off := r.Intn(len(pat))
		for i := range p {
			p[i] = pat[(off+i)%len(pat)]
		}
	}
}

// errClass maps an error to a stable class name.
func errClass(err error) string {
	switch {
	case err == nil:
		return "nil"
	case errors.Is(err, stun.ErrAttributeNotFound):
		return "not-found"
	case errors.Is(err, io.ErrUnexpectedEOF):
		return "unexpected-eof"
	case stun.IsAttrSizeInvalid(err):
		return "size-invalid"
	case stun.IsAttrSizeOverflow(err):
		return "size-overflow"
	case errors.Is(err, stun.ErrBadUnknownAttrsSize):
		return "bad-unknown-size"
	case errors.Is(err, stun.ErrBadIPLength):
		return "bad-ip-length"
	case errors.Is(err, stun.ErrNoDefaultReason):
		return "no-default-reason"
	case errors.Is(err, stun.ErrFingerprintBeforeIntegrity):
		return "fingerprint-before-integrity"
	case errors.Is(err, stun.ErrIntegrityMismatch):
		return "integrity-mismatch"
	case errors.Is(err, stun.ErrFingerprintMismatch):
		return "fingerprint-mismatch"
	case errors.Is(err, stun.ErrUnexpectedHeaderEOF):
		return "header-eof"
	}
	var de *stun.DecodeErr
	if errors.As(err, &de) {
		return "decode:" + de.Place.String()
	}
	t := reflect.TypeOf(err).String()
	switch t {
	case "*stun.IntegrityErr":
		return "integrity-mismatch"
	case "*stun.CRCMismatch":
		return "fingerprint-mismatch"
	}

	return "other:" + t + ":" + err.Error()
}

// safely runs f and reports a recovered panic.
func safely(f func()) (panicked interface{}, stack string) {
	defer func() {
		if p := recover(); p != nil {
			panicked = p
			buf := make([]byte, 8192)
			stack = string(buf[:runtime.Stack(buf, false)])
		}
	}()
	f()

	return nil, ""
}

// panicKey is the known-finding signature of a panic: its first stun frame.
func panicKey(stack string) string {
	for _, l := range strings.Split(stack, "\n") {
		if strings.HasPrefix(l, "github.com/pion/stun/v3.") || strings.HasPrefix(l, "github.com/pion/stun/v3/internal/") {
			if k := strings.LastIndex(l, "("); k > 0 {
				return "panic:" + l[:k]
			}
		}
	}

	return "panic:?"
}

func reportPanic(c *core.Ctx, what string, p interface{}, stack string, detail map[string]interface{}) {
	if detail == nil {
		detail = map[string]interface{}{}
	}
	detail["call"] = what
	detail["panic"] = fmt.Sprint(p)
	detail["stack"] = stack
	c.Violate("panic", panicKey(stack), detail)
}

func sortedKeys(m map[string]int64) []string {
	out := make([]string, 0, len(m))
	for k := range m {
		out = append(out, k)
	}
	sort.Strings(out)

	return out
}

// refTLVsToAttrs extracts (type,value) pairs of a reference parse.
func refTLVsToAttrs(b []byte, rm *ref.Msg) []ref.Attr {
	out := make([]ref.Attr, 0, len(rm.TLVs))
	for _, t := range rm.TLVs {
		out = append(out, ref.Attr{Type: t.Type, Value: append([]byte(nil), b[t.Off:t.Off+t.Len]...)})
	}

	return out
}
