package props

import (
	"bytes"
	"encoding/json"
	"errors"
	"fmt"
	"sync"
	"sync/atomic"

	"github.com/pion/stun/v3"
	"github.com/pion/stun/v3/verifharness/core"
	"github.com/pion/stun/v3/verifharness/gen"
	"github.com/pion/stun/v3/verifharness/ref"
)

// C04: MESSAGE-INTEGRITY is computed and verified exactly as RFC 5389 section 15.4.
func init() { core.Register("C04", c04) }

func c04Key(r *gen.Rand) []byte {
	switch r.Intn(8) {
	case 0:
		return r.Bytes(r.PickInt([]int{63, 64, 65}))
	case 1:
		return r.Bytes(r.Range(66, 200))
	case 2:
		if r.Bool() {
			return nil // the zero-length key as a nil slice (`var key MessageIntegrity`): the same key as []byte{}
		}

		return []byte{}
	default:
		return r.Bytes(r.Intn(64))
	}
}

// c04Pass is a checker that has nothing to object to.
type c04Pass struct{}

func (c04Pass) Check(*stun.Message) error { return nil }

// c04Oracle: should Check(key) succeed on these bytes?
func c04Oracle(b []byte, rm *ref.Msg, key []byte) (pass bool, why string) {
	mac, tlv, ok := ref.IntegrityExpected(b, rm, key)
	if !ok {
		return false, "no MESSAGE-INTEGRITY"
	}
	if tlv.Len != 20 {
		return false, fmt.Sprintf("first MESSAGE-INTEGRITY has length %d", tlv.Len)
	}
	if !bytes.Equal(mac, b[tlv.Off:tlv.Off+20]) {
		return false, "MAC differs"
	}

	return true, "MAC equals"
}

// c04Judge decodes b with the library and compares Check(key) with the oracle.
// mustFail additionally demands a failing verdict (decode error or non-nil Check).
func c04Judge(c *core.Ctx, b, key []byte, what string, mustFail bool) {
	c.Eval(1)
	rm, _ := ref.Parse(b)
	m := new(stun.Message)
	mode := int(gen.HashBytes(b) % 3)
	var err error
	switch mode {
	case 0:
		err = stun.Decode(b, m)
	case 1: // in place, no spare capacity
		m.Raw = append(make([]byte, 0, len(b)), b...)
		err = m.Decode()
	default: // in place, spare capacity with garbage
		buf := make([]byte, len(b)+40)
		for i := range buf {
			buf[i] = 0xCC
		}
		copy(buf, b)
		m.Raw = buf[:len(b)]
		err = m.Decode()
	}
	if (err == nil) != (rm != nil) {
		c.Violate("decode-verdict", "decode-verdict", map[string]interface{}{"what": what, "input_hex": core.Hex(b), "err": fmt.Sprint(err)})

		return
	}
	if rm == nil {
		c.Count("undecodable_after_mutation", 1)

		return
	}
	before := viewOf(m)
	var cerr error
	if p, stack := safely(func() { cerr = stun.MessageIntegrity(key).Check(m) }); p != nil {
		reportPanic(c, "MessageIntegrity.Check", p, stack, map[string]interface{}{"what": what, "input_hex": core.Hex(b), "key_hex": core.Hex(key)})

		return
	}
	want, why := c04Oracle(b, rm, key)
	if want {
		c.Count("oracle_pass", 1)
	} else {
		c.Count("oracle_fail", 1)
	}
	if (cerr == nil) != want {
		c.Violate("check-verdict", "check-verdict:"+what, map[string]interface{}{
			"what": what, "input_hex": core.Hex(b), "key_hex": core.Hex(key), "lib": fmt.Sprint(cerr), "oracle": why,
		})
	}
	// the same checker run through the Message.Check helper (alone, as a pointer, behind a checker that passes): the verdict
	// is the checker's
	mik := stun.MessageIntegrity(key)
	for hv, herr := range []error{m.Check(mik), m.Check(&mik), m.Check(c04Pass{}, mik)} {
		if (herr == nil) != (cerr == nil) {
			c.Violate("check-verdict", "check-verdict:Message.Check-helper", map[string]interface{}{
				"what": what, "input_hex": core.Hex(b), "key_hex": core.Hex(key), "direct": fmt.Sprint(cerr), "through_Message.Check": fmt.Sprint(herr), "form": hv, "oracle": why,
			})

			break
		}
	}
	if mustFail && cerr == nil {
		c.Violate("tamper-undetected", "tamper-undetected:"+what, map[string]interface{}{
			"what": what, "input_hex": core.Hex(b), "key_hex": core.Hex(key),
		})
	}
	if cerr != nil {
		cl := errClass(cerr)
		if cl != "integrity-mismatch" && cl != "not-found" {
			c.Violate("check-error-class", "check-error-class", map[string]interface{}{"what": what, "class": cl})
		}
	}
	if d := before.diff(viewOf(m)); d != "" {
		c.Violate("check-mutated", "check-mutated", map[string]interface{}{"what": what, "input_hex": core.Hex(b), "diff": d})
	}
	// The same check made from a ForEach callback (the way a server picks the credential that belongs to the visited
	// USERNAME/REALM): the message bytes and the key are the same, so is the verdict - as long as the window ForEach
	// shows to its callback still contains the first MESSAGE-INTEGRITY.
	_, mtlv, has := ref.IntegrityExpected(b, rm, key)
	if !has {
		return
	}
	first := -1
	for k, t := range rm.TLVs {
		if t.Off == mtlv.Off {
			first = k
		}
	}
	if first < 0 || len(rm.TLVs) > 64 {
		return
	}
	pick := int(gen.HashBytes(key) % uint64(first+1)) // an attribute at or before the MAC
	at := rm.TLVs[pick].Type
	if at == 0x8020 {
		at = 0x0020
	}
	nth := 0 // which visit of that type is attribute `pick`
	for k := 0; k < pick; k++ {
		kt := rm.TLVs[k].Type
		if kt == 0x8020 {
			kt = 0x0020
		}
		if kt == at {
			nth++
		}
	}
	visit, called := 0, false
	var inner error
	p, stack := safely(func() {
		_ = m.ForEach(stun.AttrType(at), func(mm *stun.Message) error {
			if visit == nth {
				called = true
				inner = stun.MessageIntegrity(key).Check(mm)
			}
			visit++

			return nil
		})
	})
	if p != nil {
		reportPanic(c, "Check inside ForEach", p, stack, map[string]interface{}{"what": what, "input_hex": core.Hex(b)})

		return
	}
	if called {
		c.Count("checks_inside_foreach", 1)
		if (inner == nil) != want {
			c.Violate("check-verdict", "check-verdict:inside-ForEach", map[string]interface{}{
				"what": what, "input_hex": core.Hex(b), "key_hex": core.Hex(key), "lib": fmt.Sprint(inner), "oracle": why, "visited_index": pick,
			})
		}
	}
	if d := before.diff(viewOf(m)); d != "" {
		c.Violate("check-mutated", "check-mutated:inside-ForEach", map[string]interface{}{"what": what, "input_hex": core.Hex(b), "diff": d})
	}
}

// c04Craft builds a message by hand (reference encoder) with a MESSAGE-INTEGRITY variant.
func c04Craft(r *gen.Rand, key []byte) (wire []byte, variant string) {
	var attrs []ref.Attr
	nBefore := r.Intn(9)
	maxVal := 64
	if r.Chance(1, 80) {
		nBefore, maxVal = 1000+r.Intn(200), 3 // more than a thousand attributes in front of the MAC
	}
	for i := 0; i < nBefore; i++ {
		t := r.AttrType()
		if t == 0x0008 {
			t = 0x0006
		}
		attrs = append(attrs, ref.Attr{Type: t, Value: r.Bytes(r.ValueLen(maxVal))})
	}
	miIndex := len(attrs)
	variants := []string{"correct", "correct", "correct", "random20", "otherkey", "trunc0", "trunc4", "trunc19", "ext21", "ext24", "bitflip", "none",
		"rfc3489-zero-padded-text", "length-not-rewritten", "text-includes-attr-header", "sha1-without-key"}
	variant = variants[r.Intn(len(variants))]
	miLen := 20
	switch variant {
	case "trunc0":
		miLen = 0
	case "trunc4":
		miLen = 4
	case "trunc19":
		miLen = 19
	case "ext21":
		miLen = 21
	case "ext24":
		miLen = 24
	}
	if variant != "none" {
		attrs = append(attrs, ref.Attr{Type: 0x0008, Value: make([]byte, miLen)})
	}
	nAfter := r.Intn(5)
	for i := 0; i < nAfter; i++ {
		t := r.AttrType()
		switch r.Intn(5) {
		case 0:
			t = 0x8028
		case 1:
			t = 0x0008 // a second MESSAGE-INTEGRITY: only the first counts
		}
		n := r.ValueLen(40)
		if t == 0x0008 && r.Bool() {
			n = 20
		}
		attrs = append(attrs, ref.Attr{Type: t, Value: r.Bytes(n)})
	}
	spec := gen.MsgSpec{Type: uint16(r.U64()) & 0x3fff, TID: r.TID(), Attrs: attrs}
	wire = r.WireDirty(spec) // random padding, maybe leading bits and trailing bytes
	if variant == "none" {
		return wire, variant
	}
	rm, _ := ref.Parse(wire)
	tlv := rm.TLVs[miIndex]
	useKey := key
	if variant == "otherkey" {
		useKey = append(append([]byte(nil), key...), 0x01)
	}
	if (variant == "trunc4" || variant == "trunc19" || variant == "ext21" || variant == "ext24" || variant == "trunc0") && r.Bool() {
		// the first MESSAGE-INTEGRITY has the wrong size and a LATER one is exactly what RFC 5389 prescribes for its
		// own position: the first one is the one that counts, so the check fails all the same
		for _, t2 := range rm.TLVs[miIndex+1:] {
			if t2.Type == 0x0008 && t2.Len == 20 {
				text := append([]byte(nil), wire[:t2.Off-4]...)
				l := t2.Off - 4 - 20 + 24
				text[2], text[3] = byte(l>>8), byte(l)
				copy(wire[t2.Off:], ref.HMACSHA1(key, text))
				variant += "+valid-later-one"

				break
			}
		}
	}
	mac, _, _ := ref.IntegrityExpected(wire, rm, useKey)
	// near misses: MACs that some other (older or sloppier) procedure would produce; only the RFC 5389 one is acceptable
	alt := func(text []byte, rewrite bool) []byte {
		t := append([]byte(nil), text...)
		if rewrite {
			l := tlv.Off - 4 - 20 + 24
			t[2], t[3] = byte(l>>8), byte(l)
		}

		return t
	}
	var planted []byte
	switch variant {
	case "rfc3489-zero-padded-text": // RFC 3489 11.2.8: text padded with zeros to a multiple of 64 bytes
		t := alt(wire[:tlv.Off-4], true)
		if r.Bool() {
			t = append(t, make([]byte, 64-len(t)%64)...) // always pads (a full block when already aligned)
		} else {
			t = append(t, make([]byte, (64-len(t)%64)%64)...)
		}
		planted = ref.HMACSHA1(key, t)
	case "length-not-rewritten":
		planted = ref.HMACSHA1(key, alt(wire[:tlv.Off-4], false))
	case "text-includes-attr-header":
		planted = ref.HMACSHA1(key, alt(wire[:tlv.Off], true))
	case "sha1-without-key":
		planted = ref.HMACSHA1(nil, alt(wire[:tlv.Off-4], true))
	}
	if planted != nil {
		copy(wire[tlv.Off:], planted)
		if bytes.Equal(planted, mac) {
			variant = "correct"
		}

		return wire, variant
	}
	switch variant {
	case "random20":
		copy(wire[tlv.Off:], r.Bytes(20))
	case "bitflip":
		copy(wire[tlv.Off:], mac)
		wire[tlv.Off+r.Intn(20)] ^= 1 << uint(r.Intn(8))
	default:
		copy(wire[tlv.Off:tlv.Off+tlv.Len], mac) // truncated variants take a prefix
		for k := 20; k < tlv.Len; k++ {
			wire[tlv.Off+k] = byte(r.U64())
		}
	}

	return wire, variant
}

// c04Sign builds and signs a message with the library.
func c04Sign(c *core.Ctx, r *gen.Rand) (m *stun.Message, key []byte, ok bool) {
	m = new(stun.Message)
	setters := []stun.Setter{stun.NewType(stun.Method(r.Intn(0x1000)), stun.MessageClass(r.Intn(4))), stun.NewTransactionIDSetter(r.TID())}
	for k := r.Intn(6); k > 0; k-- {
		t := r.AttrType()
		if t == 0x0008 || t == 0x8028 {
			t = 0x8022
		}
		setters = append(setters, stun.RawAttribute{Type: stun.AttrType(t), Value: r.Bytes(r.ValueLen(80))})
	}
	if err := m.Build(setters...); err != nil {
		c.Violate("build", "build", err.Error())

		return nil, nil, false
	}
	var mi stun.MessageIntegrity
	if r.Chance(1, 3) {
		u, re, p := string(r.Bytes(r.Intn(20))), string(r.Bytes(r.Intn(20))), string(r.Bytes(r.Intn(20)))
		if r.Bool() {
			// credentials are used byte for byte: no case folding, no Unicode normalisation, nothing trimmed or mapped away
			odd := []string{"\u00a0", "\u00ad", "\u200d", "\ufeff", "\u3000", "\u212b", "\u00c5", "A\u030a", "\u017f", "I", "\u0130", " ", "\t", ":", "\x00", "\u2000", "\u1680", "\u034f", "\u180e"}
			word := func() string {
				s := ""
				for k := 1 + r.Intn(4); k > 0; k-- {
					if r.Bool() {
						s += odd[r.Intn(len(odd))]
					} else {
						s += string(rune('a' + r.Intn(26)))
					}
				}

				return s
			}
			u, re, p = word(), word(), word()
		}
		if r.Chance(1, 6) {
			// no limit on the password (or on the sum of the three)
			p = string(r.Bytes(r.PickInt([]int{700, 1300, 2041, 2042, 3000, 9000})))
		}
		if r.Bool() {
			// an earlier holder of the same credentials wipes its key when it is done with it
			first := stun.NewLongTermIntegrity(u, re, p)
			for k := range first {
				first[k] = 0
			}
		}
		mi = stun.NewLongTermIntegrity(u, re, p)
		key = ref.LongTermKey(u, re, p)
		c.Count("long_term_keys", 1)
	} else {
		key = c04Key(r)
		mi = stun.NewShortTermIntegrity(string(key))
		if len(key) == 0 && r.Bool() {
			mi = nil // zero bytes of key held in a nil slice
			c.Count("nil_keys", 1)
		}
	}
	pre := append([]byte(nil), m.Raw...)
	l := len(pre) - 20 + 24
	pre[2], pre[3] = byte(l>>8), byte(l)
	want := ref.HMACSHA1(key, pre)
	if err := mi.AddTo(m); err != nil {
		c.Violate("sign-error", "sign-error", err.Error())

		return nil, nil, false
	}
	if !bytes.Equal(mi, key) {
		c.Violate("key-derivation", "key-derivation", map[string]interface{}{"lib_key": core.Hex(mi), "ref_key": core.Hex(key)})

		return nil, nil, false
	}
	tail := m.Raw[len(m.Raw)-24:]
	if tail[0] != 0 || tail[1] != 8 || tail[2] != 0 || tail[3] != 20 || !bytes.Equal(tail[4:], want) {
		c.Violate("appended-bytes", "appended-bytes", map[string]interface{}{"raw_hex": core.Hex(m.Raw), "want_mac": core.Hex(want)})

		return nil, nil, false
	}
	if err := mi.Check(m); err != nil {
		c.Violate("signed-does-not-verify", "signed-does-not-verify", map[string]interface{}{"raw_hex": core.Hex(m.Raw), "key_hex": core.Hex(key), "err": err.Error()})

		return nil, nil, false
	}
	// attributes after the MAC, whatever their number and length, do not matter
	for k := r.Intn(5); k > 0; k-- {
		switch r.Intn(3) {
		case 0:
			if !m.Contains(stun.AttrFingerprint) {
				if r.Chance(1, 3) {
					m.Add(stun.AttrFingerprint, r.Bytes(r.PickInt([]int{0, 1, 3, 5, 8}))) // any attribute of that type is a FINGERPRINT
				} else {
					_ = stun.Fingerprint.AddTo(m)
				}
			}
		default:
			m.Add(stun.AttrType(r.PickU16([]uint16{0x8022, 0x0024, 0x7f00, 0x8029})), r.Bytes(r.ValueLen(30)))
		}
	}
	if m.Contains(stun.AttrFingerprint) {
		snap := viewOf(m)
		err := mi.AddTo(m)
		c.Count("refusals_after_fingerprint", 1)
		if !errors.Is(err, stun.ErrFingerprintBeforeIntegrity) {
			c.Violate("integrity-after-fingerprint", "integrity-after-fingerprint", map[string]interface{}{"raw_hex": core.Hex(m.Raw), "err": fmt.Sprint(err)})
		}
		if d := snap.diff(viewOf(m)); d != "" {
			c.Violate("refusal-mutated", "refusal-mutated", d)
		}
	}

	return m, key, true
}

func c04(c *core.Ctx) {
	selfCheckOracles()
	// (a) hand-made messages: the iff against the oracle
	c.Section("crafted", c.N(20000, 4000000), func(_ int64, r *gen.Rand) {
		key := c04Key(r)
		wire, variant := c04Craft(r, key)
		c.Count("variant."+variant, 1)
		c.Distinct(gen.HashBytes(wire))
		c04Judge(c, wire, key, "crafted:"+variant, variant != "correct")
		if c.WantSample() && len(wire) < 90 && variant == "trunc19" {
			c.Sample(map[string]interface{}{"section": "crafted", "variant": variant, "key_hex": core.Hex(key), "input_hex": core.Hex(wire)})
		}
	})
	// (b) library-signed messages: verify, wrong keys, appended bytes
	c.Section("signed", c.N(4000, 1000000), func(_ int64, r *gen.Rand) {
		m, key, ok := c04Sign(c, r)
		if !ok {
			return
		}
		wire := append([]byte(nil), m.Raw...)
		c.Distinct(gen.HashBytes(wire))
		c04Judge(c, wire, key, "signed", false)
		if r.Chance(1, 3) && !m.Contains(stun.AttrFingerprint) {
			// the signed message keeps growing until its buffer moves (the attribute values handed out so far stay where
			// they were): what follows the MAC does not matter, it verifies
			grow := cap(m.Raw) - len(m.Raw) + 1 + r.Intn(64)
			if len(m.Raw)+grow < 60000 {
				m.Add(stun.AttrSoftware, r.Bytes(grow))
				c.Count("signed_then_grown_beyond_capacity", 1)
				if err := stun.MessageIntegrity(key).Check(m); err != nil {
					c.Violate("signed-does-not-verify", "signed-does-not-verify:after-growing", map[string]interface{}{"raw_hex": core.Hex(m.Raw), "key_hex": core.Hex(key), "err": err.Error()})

					return
				}
			}
		}
		if r.Chance(1, 8) {
			// the message as an application value restored from encoding/json (all fields are exported): Raw and the
			// attribute values are separate allocations with the same content
			var back stun.Message
			if js, err := json.Marshal(m); err == nil && json.Unmarshal(js, &back) == nil && bytes.Equal(back.Raw, m.Raw) && len(back.Attributes) == len(m.Attributes) {
				c.Count("signed_then_restored_from_json", 1)
				if err := stun.MessageIntegrity(key).Check(&back); err != nil {
					c.Violate("signed-does-not-verify", "signed-does-not-verify:restored-from-json", map[string]interface{}{"raw_hex": core.Hex(m.Raw), "key_hex": core.Hex(key), "err": err.Error()})

					return
				}
			}
		}
		for k := 0; k < 3; k++ {
			wrong := c04Key(r)
			if k == 0 && len(key) > 0 {
				wrong = append([]byte(nil), key...)
				wrong[r.Intn(len(wrong))] ^= 1 << uint(r.Intn(8))
			}
			if k == 1 {
				wrong = append(append([]byte(nil), key...), 0)
			}
			// a wrong key must fail whenever it yields a different HMAC (the oracle decides; HMAC pads short keys with zeros,
			// so key||0x00 is the same key for lengths below the block size)
			c04Judge(c, wire, wrong, "signed-wrong-key", false)
		}
	})
	// (b3) several goroutines signing and checking at once, each with its own keys (long ones included): every MAC is
	// the RFC one, every own message verifies
	c.Section("concurrent-signers", c.N(30, 3000), func(i int64, _ *gen.Rand) {
		const g = 8
		var wg sync.WaitGroup
		var bad atomic.Value
		for k := 0; k < g; k++ {
			wg.Add(1)
			rk := gen.Derive(c.Seed, uint64(i), uint64(k), 0xC04C)
			go func() {
				defer wg.Done()
				for n := 0; n < 60; n++ {
					key := rk.Bytes(rk.PickInt([]int{0, 16, 20, 64, 65, 80, 100, 200}))
					m := new(stun.Message)
					_ = m.Build(stun.BindingRequest, stun.NewTransactionIDSetter(rk.TID()), stun.RawAttribute{Type: 0x8022, Value: rk.Bytes(rk.Intn(40))})
					pre := append([]byte(nil), m.Raw...)
					l := len(pre) - 20 + 24
					pre[2], pre[3] = byte(l>>8), byte(l)
					want := ref.HMACSHA1(key, pre)
					mi := stun.MessageIntegrity(key)
					if err := mi.AddTo(m); err != nil {
						bad.Store("AddTo: " + err.Error())

						return
					}
					if got := m.Raw[len(m.Raw)-20:]; !bytes.Equal(got, want) {
						bad.Store(fmt.Sprintf("key %d bytes: appended MAC %x, HMAC-SHA1 per RFC %x", len(key), got, want))

						return
					}
					if err := mi.Check(m); err != nil {
						bad.Store(fmt.Sprintf("key %d bytes: own message does not verify: %v", len(key), err))

						return
					}
				}
			}()
		}
		wg.Wait()
		c.Eval(g * 60)
		c.Count("concurrent_sign_and_check", g*60)
		if v, _ := bad.Load().(string); v != "" {
			c.Violate("concurrent-mismatch", "concurrent-mismatch", map[string]interface{}{"goroutines": g, "problem": v})
		}
		c.Distinct(uint64(i) | 6<<50)
	})
	// (b4) right after a message was verified, the same message with eight covered bytes rewritten so that every cheap
	// digest of the covered text (CRC-32, and with it length, key and MAC) stays the same: it is another text, the MAC
	// does not match it
	c.Section("crc-neutral-rewrite-after-genuine", c.N(200, 50000), func(_ int64, r *gen.Rand) {
		key := c04Key(r)
		m := new(stun.Message)
		_ = m.Build(stun.BindingRequest, stun.NewTransactionIDSetter(r.TID()), stun.RawAttribute{Type: 0x0006, Value: r.Bytes(8 + 4*r.Intn(6))},
			stun.RawAttribute{Type: 0x8022, Value: r.Bytes(r.Intn(12))}, stun.MessageIntegrity(key))
		if r.Bool() {
			_ = stun.Fingerprint.AddTo(m)
		}
		genuine := append([]byte(nil), m.Raw...)
		c04Judge(c, genuine, key, "genuine-before-rewrite", false)
		forged := append([]byte(nil), genuine...)
		p := 24 + 4*r.Intn(1)                 // inside the first attribute's value (at least 8 bytes long)
		for _, variant := range []int{0, 1} { // CRC computed over the bytes as they are on the wire / with the header length the HMAC uses
			f := append([]byte(nil), forged...)
			g := append([]byte(nil), genuine...)
			if variant == 1 {
				rm, _ := ref.Parse(g)
				_, tlv, _ := ref.IntegrityExpected(g, rm, key)
				l := tlv.Off - 4 - 20 + 24
				f[2], f[3], g[2], g[3] = byte(l>>8), byte(l), byte(l>>8), byte(l)
			}
			f[p], f[p+1], f[p+2], f[p+3] = f[p]^0x5A, f[p+1]^0x01, f[p+2]^0x80, f[p+3]^0x33
			x := crcSolve(f[:p+4], ref.CRC32(g[:p+8]))
			copy(f[p+4:p+8], x[:])
			if ref.CRC32(f[:p+8]) != ref.CRC32(g[:p+8]) {
				fatalHarness("C04: CRC-neutral rewrite is wrong")
			}
			out := append([]byte(nil), genuine...)
			copy(out[p:p+8], f[p:p+8])
			// the genuine message is verified once more immediately before (the state a verifier is in when the rewrite arrives)
			dec := new(stun.Message)
			_ = stun.Decode(genuine, dec)
			_ = stun.MessageIntegrity(key).Check(dec)
			c04Judge(c, out, key, "crc-neutral-rewrite", true)
		}
		c.Distinct(gen.HashBytes(genuine))
	})
	// (b2) one key buffer rewritten in place between uses (the pooled HMAC must not remember keys by reference)
	c.Section("key-buffer-reuse", c.N(300, 100000), func(_ int64, r *gen.Rand) {
		buf := r.Bytes(r.PickInt([]int{8, 16, 16, 20, 64, 80}))
		mi := stun.MessageIntegrity(buf)
		for round := 0; round < 6; round++ {
			m := new(stun.Message)
			_ = m.Build(stun.BindingRequest, stun.NewTransactionIDSetter(r.TID()), stun.RawAttribute{Type: 0x8022, Value: r.Bytes(r.Intn(30))})
			if err := mi.AddTo(m); err != nil {
				c.Violate("sign-error", "sign-error", err.Error())

				return
			}
			wire := append([]byte(nil), m.Raw...)
			keyNow := append([]byte(nil), buf...)
			c04Judge(c, wire, keyNow, "key-buffer-reuse:signed", false)
			// the same bytes checked through the very same (aliased) key value
			rm, _ := ref.Parse(wire)
			want, _ := c04Oracle(wire, rm, keyNow)
			dec := new(stun.Message)
			_ = stun.Decode(wire, dec)
			if got := mi.Check(dec) == nil; got != want {
				c.Violate("check-verdict", "check-verdict:key-buffer-reuse", map[string]interface{}{
					"round": round, "key_hex": core.Hex(keyNow), "input_hex": core.Hex(wire), "lib_pass": got, "oracle_pass": want})

				return
			}
			r.Fill(buf) // the caller overwrites its key buffer in place
			// the old message must now fail under the new key (different HMAC)
			c04Judge(c, wire, append([]byte(nil), buf...), "key-buffer-reuse:old-message-new-key", false)
			if got := mi.Check(dec) == nil; got {
				if ok, _ := c04Oracle(wire, rm, buf); !ok {
					c.Violate("check-verdict", "check-verdict:key-buffer-reuse", map[string]interface{}{
						"round": round, "problem": "message signed under the previous content of the key buffer verifies under its new content", "input_hex": core.Hex(wire)})

					return
				}
			}
		}
		c.Distinct(r.U64())
	})
	// (c) every single-bit flip of signed messages
	c.Section("bitflips", c.N(50, 20000), func(_ int64, r *gen.Rand) {
		m, key, ok := c04Sign(c, r)
		if !ok {
			return
		}
		wire := append([]byte(nil), m.Raw...)
		rm, _ := ref.Parse(wire)
		_, tlv, _ := ref.IntegrityExpected(wire, rm, key)
		miStart := tlv.Off - 4
		c.Distinct(gen.HashBytes(wire))
		if c.WantSample() && len(wire) < 100 {
			c.Sample(map[string]interface{}{"section": "bitflips", "key_hex": core.Hex(key), "signed_hex": core.Hex(wire), "flips": len(wire) * 8})
		}
		for bit := 0; bit < len(wire)*8; bit++ {
			byteIdx := bit / 8
			flipped := append([]byte(nil), wire...)
			flipped[byteIdx] ^= 0x80 >> uint(bit%8)
			// covered: header except the length field, everything before the MAC attribute, and the MAC value
			covered := (byteIdx < 2 || (byteIdx >= 4 && byteIdx < miStart)) || (byteIdx >= tlv.Off && byteIdx < tlv.Off+20)
			if covered {
				c.Count("covered_bit_flips", 1)
			}
			c04Judge(c, flipped, key, "bitflip", covered)
		}
	})
}
