package props

import (
	"bytes"
	"errors"
	"fmt"
	"hash"
	"io"
	"runtime"
	"strings"
	"sync"
	"unsafe"

	"github.com/pion/stun/v3"
	"github.com/pion/stun/v3/internal/hmac"
	"github.com/pion/stun/v3/verifharness/core"
	"github.com/pion/stun/v3/verifharness/gen"
	"github.com/pion/stun/v3/verifharness/ref"
)

// C18: pooled HMAC equals standard HMAC for every key, message and reuse history.
func init() { core.Register("C18", c18) }

// eofWithDataReader hands out its data in steps and returns the final error (io.EOF unless fail is set) TOGETHER with
// the last bytes, as the io.Reader contract allows.
type eofWithDataReader struct {
	data []byte
	step int
	fail error
}

func (e *eofWithDataReader) Read(p []byte) (int, error) {
	n := e.step
	if n > len(p) {
		n = len(p)
	}
	if n >= len(e.data) {
		n = copy(p, e.data)
		e.data = nil
		if e.fail != nil {
			return n, e.fail
		}

		return n, io.EOF
	}
	copy(p, e.data[:n])
	e.data = e.data[n:]

	return n, nil
}

func c18Key(r *gen.Rand, prevLong bool) []byte {
	// alternate long / short / empty so that a recycled object carries the previous key's padded or marshaled state
	if prevLong {
		switch r.Intn(3) {
		case 0:
			return []byte{}
		case 1:
			return r.Bytes(r.Intn(8))
		}
	}
	switch r.Intn(8) {
	case 0:
		return r.Bytes(r.PickInt([]int{63, 64, 65}))
	case 1, 2:
		return r.Bytes(r.Range(65, 300))
	case 3:
		return nil
	default:
		return r.Bytes(r.Intn(64))
	}
}

// c18Sibling returns a different key of the same length that agrees with k in what a cheap fingerprint would look at:
// same CRC-32 (the last four bytes are solved for), or same first/last bytes, or one bit apart.
func c18Sibling(r *gen.Rand, k []byte) []byte {
	s := append([]byte(nil), k...)
	switch {
	case len(k) >= 5 && r.Chance(2, 3):
		r.Fill(s[:len(s)-4])
		// register after the prefix
		reg := ^uint32(0)
		for _, x := range s[:len(s)-4] {
			reg ^= uint32(x)
			for b := 0; b < 8; b++ {
				if reg&1 == 1 {
					reg = reg>>1 ^ 0xEDB88320
				} else {
					reg >>= 1
				}
			}
		}
		// the register the whole key must end in, run backwards over four zero bytes
		f := ^ref.CRC32(k)
		for b := 0; b < 32; b++ {
			if f&0x80000000 != 0 {
				f = (f^0xEDB88320)<<1 | 1
			} else {
				f <<= 1
			}
		}
		x := reg ^ f
		s[len(s)-4], s[len(s)-3], s[len(s)-2], s[len(s)-1] = byte(x), byte(x>>8), byte(x>>16), byte(x>>24)
		if ref.CRC32(s) != ref.CRC32(k) {
			fatalHarness("C18: CRC-32 sibling construction is wrong")
		}
	case len(k) >= 3 && r.Bool():
		r.Fill(s[1 : len(s)-1]) // same first and last byte
	case len(k) >= 1:
		s[r.Intn(len(s))] ^= 1 << uint(r.Intn(8))
	}

	return s
}

// c18Program runs acquire(key), write*, sum, [reset, write*, sum]*, put against crypto/hmac.
// Returns the number of digests compared, and a description on mismatch.
func c18Program(r *gen.Rand, seen map[uintptr]int) (digests int, steps []string, bad string) {
	sha256 := r.Bool()
	perRound := r.Bool() // the two pools used in turn by one caller (same keys included)
	var prevLong bool
	// callers often keep ONE key buffer and overwrite it in place (e.g. an MD5 sum into a scratch slice)
	shared := make([]byte, 0, 320)
	reuseBuffer := r.Chance(1, 3)
	var prevKey []byte
	for round := 1 + r.Intn(4); round > 0; round-- {
		key := c18Key(r, prevLong)
		if prevKey != nil && r.Chance(1, 3) {
			key = c18Sibling(r, prevKey)
		}
		if perRound {
			sha256 = !sha256
			if prevKey != nil && r.Bool() {
				key = append([]byte(nil), prevKey...) // the very same key, now for the other hash
			}
		}
		// the key may be a window of a larger buffer (a credential inside a packet): what lies behind it - here a canary and
		// the message itself - is not the pool's to touch
		var carved, canary []byte
		if !reuseBuffer && r.Chance(1, 3) {
			buf := make([]byte, len(key)+96)
			copy(buf, key)
			for k := len(key); k < len(buf); k++ {
				buf[k] = 0xC7 ^ byte(k)
			}
			key = buf[:len(key)] // capacity reaches to the end of buf
			carved = buf[len(key):]
			canary = append([]byte(nil), carved...)
		}
		if reuseBuffer {
			if r.Bool() && len(shared) > 0 {
				// same length as last time, different content
				r.Fill(shared)
			} else {
				shared = append(shared[:0], key...)
			}
			key = shared
		}
		prevLong = len(key) > 64
		prevKey = append([]byte(nil), key...)
		var h hash.Hash
		name := "sha1"
		if sha256 {
			h = hmac.AcquireSHA256(key)
			name = "sha256"
		} else {
			h = hmac.AcquireSHA1(key)
		}
		if seen != nil {
			// pointer identity of the pooled object: counts how often a recycled object was observed
			p := (*[2]uintptr)(unsafe.Pointer(&h))[1]
			seen[p]++
		}
		steps = append(steps, fmt.Sprintf("acquire-%s(key %dB)", name, len(key)))
		if carved != nil {
			steps = append(steps, "key is a window of a larger buffer")
			if !bytes.Equal(carved, canary) {
				return digests, steps, fmt.Sprintf("acquire wrote behind the key: the %d bytes following it in the caller's buffer changed", len(carved))
			}
		}
		var msg []byte
		segments := 1 + r.Intn(3)
		for s := 0; s < segments; s++ {
			total := r.PickInt([]int{0, 1, 55, 56, 63, 64, 65, 119, 128, r.Intn(4097)})
			data := r.Bytes(total)
			if carved != nil && s == 0 && total <= len(carved) {
				data = carved[:total] // the message is carved from the same buffer, right behind the key
			}
			if r.Chance(1, 4) {
				// a message that is given up: bytes are written and the object is reset with no Sum in between (once or
				// twice in a row); what follows is a new message under the same key
				for k := 1 + r.Intn(2); k > 0; k-- {
					junk := r.Bytes(r.PickInt([]int{1, 3, 15, 16, 17, 63, 64, 65, 1 + r.Intn(300)}))
					for off := 0; off < len(junk); {
						n := 1 + r.Intn(len(junk)-off)
						_, _ = h.Write(junk[off : off+n])
						off += n
					}
					h.Reset()
					steps = append(steps, fmt.Sprintf("write(%dB) abandoned ; reset", len(junk)))
				}
				msg = msg[:0]
			}
			if r.Chance(1, 3) {
				_, _ = h.Write(nil) // an empty chunk is a legal write and changes nothing
			}
			streaming := carved == nil && r.Chance(1, 3) // chunks pass through ONE buffer that is refilled (io.Copy, a read loop)
			var chunkBuf []byte
			for off := 0; off < len(data); {
				n := 1 + r.Intn(len(data)-off)
				if r.Chance(1, 4) {
					n = len(data) - off
				}
				chunk := data[off : off+n]
				if streaming {
					chunkBuf = append(chunkBuf[:0], chunk...)
					chunk = chunkBuf
				}
				// the chunk reaches the hash the way writers are fed: Write, or the io helpers (which use whatever optional
				// interfaces - io.ReaderFrom, io.StringWriter - the destination offers)
				var (
					wrote int64
					err   error
					via   = "Write"
				)
				switch r.Intn(9) {
				case 0:
					via = "io.Copy from a reader that returns its last bytes together with io.EOF"
					wrote, err = io.Copy(h, &eofWithDataReader{data: chunk, step: 1 + r.Intn(700)})
				case 1:
					via = "io.WriteString"
					var k int
					k, err = io.WriteString(h, string(chunk))
					wrote = int64(k)
				case 2:
					via = "io.Copy from a strings.Reader"
					wrote, err = io.Copy(h, strings.NewReader(string(chunk)))
				case 3:
					via = "io.Copy from a reader that fails after its data"
					wrote, err = io.Copy(h, &eofWithDataReader{data: chunk, step: 1 + r.Intn(700), fail: errors.New("connection reset")})
					if err != nil && err.Error() == "connection reset" {
						err = nil // the reader's error, after every byte was delivered
					}
				default:
					var k int
					k, err = h.Write(chunk)
					wrote = int64(k)
				}
				if err != nil {
					return digests, steps, via + " error: " + err.Error()
				}
				if wrote != int64(len(chunk)) {
					return digests, steps, fmt.Sprintf("%s of a %d byte chunk reports %d bytes written", via, len(chunk), wrote)
				}
				if via != "Write" {
					steps = append(steps, fmt.Sprintf("%dB via %s", len(chunk), via))
				}
				if streaming {
					for k := range chunkBuf {
						chunkBuf[k] = 0xEE // Write has consumed its argument when it returns
					}
				}
				off += n
			}
			if streaming {
				steps = append(steps, "chunks written through one refilled buffer")
			}
			if r.Chance(1, 3) {
				_, _ = h.Write(data[:0]) // ... also as the last chunk of a message
				steps = append(steps, "write(0B)")
			}
			msg = append(msg, data...)
			steps = append(steps, fmt.Sprintf("write(%dB)", total))
			for k := 1 + r.Intn(2); k > 0; k-- {
				prefix := r.Bytes(r.Intn(5))
				got := h.Sum(append([]byte(nil), prefix...))
				var want []byte
				if sha256 {
					want = ref.HMACSHA256(key, msg)
				} else {
					want = ref.HMACSHA1(key, msg)
				}
				digests++
				steps = append(steps, "sum")
				if !bytes.Equal(got[:len(prefix)], prefix) || !bytes.Equal(got[len(prefix):], want) {
					return digests, steps, fmt.Sprintf("digest %x, crypto/hmac %x (key %x, message %d bytes)", got[len(prefix):], want, key, len(msg))
				}
			}
			if r.Bool() {
				n := 1
				if r.Chance(1, 8) {
					n = 14 + r.Intn(30) // an object that is reset over and over inside one acquisition
				}
				for ; n > 0; n-- {
					h.Reset()
					steps = append(steps, "reset")
				}
				msg = msg[:0]
			}
		}
		if sha256 {
			hmac.PutSHA256(h)
		} else {
			hmac.PutSHA1(h)
		}
		steps = append(steps, "put")
	}

	return digests, steps, ""
}

func c18(c *core.Ctx) {
	selfCheckOracles()
	// (1) single goroutine
	seen := map[uintptr]int{}
	c.Section("sequential", c.N(6000, 3000000), func(_ int64, r *gen.Rand) {
		d, steps, bad := c18Program(r, seen)
		c.Eval(1)
		c.Count("digests_compared", int64(d))
		c.Distinct(gen.HashString(strings.Join(steps, ";")))
		if bad != "" {
			c.Violate("digest-mismatch", "digest-mismatch", map[string]interface{}{"program": strings.Join(steps, " ; "), "problem": bad})
		}
		if c.WantSample() && len(steps) < 12 {
			c.Sample(strings.Join(steps, " ; "))
		}
	})
	reused := int64(0)
	for _, n := range seen {
		if n > 1 {
			reused += int64(n - 1)
		}
	}
	c.Count("acquires_that_returned_a_recycled_object", reused)
	// (1b) bursts: many objects held at once, released, and held again (more than any fixed-size free list would keep);
	// every holder writes its own message in turns, every digest is its own
	c.Section("bursts", c.N(30, 3000), func(i int64, r *gen.Rand) {
		for round := 0; round < 3; round++ {
			n := r.PickInt([]int{2, 63, 64, 65, 100, 130, 300, 1023, 1024, 1025, 3000}) // "however many": also more than a thousand holders at once
			type held struct {
				h        hash.Hash
				key, msg []byte
			}
			hs := make([]held, n)
			sha256 := r.Bool()
			for k := range hs {
				hs[k].key = r.Bytes(r.PickInt([]int{0, 8, 20, 64, 65, 100}))
				if sha256 {
					hs[k].h = hmac.AcquireSHA256(hs[k].key)
				} else {
					hs[k].h = hmac.AcquireSHA1(hs[k].key)
				}
			}
			for pass := 0; pass < 2; pass++ {
				for k := range hs {
					d := r.Bytes(r.Intn(70))
					_, _ = hs[k].h.Write(d)
					hs[k].msg = append(hs[k].msg, d...)
				}
			}
			for k := range hs {
				var want []byte
				if sha256 {
					want = ref.HMACSHA256(hs[k].key, hs[k].msg)
				} else {
					want = ref.HMACSHA1(hs[k].key, hs[k].msg)
				}
				c.Count("digests_compared", 1)
				if got := hs[k].h.Sum(nil); !bytes.Equal(got, want) {
					c.Violate("digest-mismatch", "digest-mismatch:burst", map[string]interface{}{
						"problem": fmt.Sprintf("holder %d of %d simultaneous holders (round %d): digest %x, crypto/hmac %x", k, n, round, got, want)})

					return
				}
			}
			for k := range hs {
				if sha256 {
					hmac.PutSHA256(hs[k].h)
				} else {
					hmac.PutSHA1(hs[k].h)
				}
			}
		}
		c.Eval(1)
		c.Distinct(uint64(i) | 3<<50)
	})
	// (1c) a long life: after a lease that used Reset, one pooled object is re-keyed 255/256/257 and 65535/65536/65537
	// times (no Reset in those leases, the library's own pattern), then used with Reset again
	c.SectionSerial("long-lived-pool-object", 6, func(i int64, r *gen.Rand) {
		defer runtime.GOMAXPROCS(runtime.GOMAXPROCS(1)) // one P: the object put back is the object handed out next
		gap := []int{255, 256, 257, 65535, 65536, 65537}[i]
		check := func(stage string, useReset bool) bool {
			key := r.Bytes(r.PickInt([]int{0, 16, 64, 100}))
			h := hmac.AcquireSHA1(key)
			defer hmac.PutSHA1(h)
			msg := r.Bytes(r.Intn(200))
			_, _ = h.Write(msg)
			if useReset {
				h.Reset()
				_, _ = h.Write(msg)
			}
			var got []byte
			p, _ := safely(func() { got = h.Sum(nil) })
			c.Count("digests_compared", 1)
			if p != nil || !bytes.Equal(got, ref.HMACSHA1(key, msg)) {
				c.Violate("digest-mismatch", "digest-mismatch:long-lived-pool-object", map[string]interface{}{
					"problem": fmt.Sprintf("%s (%d plain re-keyings after a lease that used Reset): digest %x, panic %v", stage, gap, got, p)})

				return false
			}

			return true
		}
		if !check("first lease", true) {
			return
		}
		for k := 0; k < gap; k++ {
			if !check("plain lease", false) {
				return
			}
		}
		check("lease with Reset at the end", true)
		check("plain lease at the end", false)
		c.Eval(1)
		c.Distinct(uint64(gap) | 4<<50)
	})
	// (2) many goroutines sharing the pools
	c.Section("concurrent", c.N(40, 10000), func(i int64, r *gen.Rand) {
		g := 2 + r.Intn(15)
		var wg sync.WaitGroup
		results := make([]string, g)
		progs := make([]string, g)
		counts := make([]int, g)
		for k := 0; k < g; k++ {
			wg.Add(1)
			rk := gen.Derive(c.Seed, uint64(i), uint64(k), 0xC18)
			go func(k int) {
				defer wg.Done()
				for n := 0; n < 40 && results[k] == ""; n++ {
					d, steps, bad := c18Program(rk, nil)
					counts[k] += d
					if bad != "" {
						results[k], progs[k] = bad, strings.Join(steps, " ; ")
					}
				}
			}(k)
		}
		wg.Wait()
		c.Eval(int64(g) * 40)
		c.Max("max_goroutines", int64(g))
		for k := 0; k < g; k++ {
			c.Count("digests_compared", int64(counts[k]))
			if results[k] != "" {
				c.Violate("digest-mismatch-concurrent", "digest-mismatch", map[string]interface{}{"goroutines": g, "program": progs[k], "problem": results[k]})
			}
		}
		c.Distinct(uint64(i) | 1<<50)
	})
	// (3) through the public path: MessageIntegrity AddTo/Check from many goroutines on distinct messages
	c.Section("public-path", c.N(20, 5000), func(i int64, r *gen.Rand) {
		g := 16
		var wg sync.WaitGroup
		errs := make([]string, g)
		for k := 0; k < g; k++ {
			wg.Add(1)
			rk := gen.Derive(c.Seed, uint64(i), uint64(k), 0xC18B)
			go func(k int) {
				defer wg.Done()
				keyBuf := make([]byte, 0, 320)
				for n := 0; n < 30; n++ {
					key := c18Key(rk, n%2 == 0)
					if k%2 == 0 { // half of the goroutines keep one key buffer and rewrite it in place
						if n%3 == 1 && len(keyBuf) > 0 {
							rk.Fill(keyBuf)
						} else {
							keyBuf = append(keyBuf[:0], key...)
						}
						key = keyBuf
					}
					m := new(stun.Message)
					_ = m.Build(stun.BindingRequest, stun.NewTransactionIDSetter(rk.TID()), stun.Software(rk.Bytes(rk.Intn(60))))
					pre := append([]byte(nil), m.Raw...)
					l := len(pre) - 20 + 24
					pre[2], pre[3] = byte(l>>8), byte(l)
					want := ref.HMACSHA1(key, pre)
					mi := stun.MessageIntegrity(key)
					if err := mi.AddTo(m); err != nil {
						errs[k] = err.Error()

						return
					}
					if !bytes.Equal(m.Raw[len(m.Raw)-20:], want) {
						errs[k] = fmt.Sprintf("MAC %x, crypto/hmac %x", m.Raw[len(m.Raw)-20:], want)

						return
					}
					if err := mi.Check(m); err != nil {
						errs[k] = "Check: " + err.Error()

						return
					}
				}
			}(k)
		}
		wg.Wait()
		c.Eval(int64(g) * 30)
		c.Count("digests_compared", int64(g)*30*2)
		for k := 0; k < g; k++ {
			if errs[k] != "" {
				c.Violate("public-path-mismatch", "public-path-mismatch", errs[k])
			}
		}
		c.Distinct(uint64(i) | 2<<50)
	})
}
