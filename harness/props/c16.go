package props

import (
	"context"
	"errors"
	"fmt"
	"net"
	"runtime"
	"sort"
	"strings"
	"sync"
	"sync/atomic"
	"time"

	"github.com/pion/stun/v3"
	"github.com/pion/stun/v3/verifharness/core"
	"github.com/pion/stun/v3/verifharness/gen"
)

// C16: ParseURI terminates safely on every string. The deciding oracle is the
// supervising process: this worker runs with debug.SetMaxStack(1 MiB) and a heap
// watchdog; every input is noted in the crash journal before the call.
func init() { core.Register("C16", c16) }

var c16Alphabet = []string{"[", "]", ":", "?", "=", "&", "%", "/", "@", ".", "-", "+", "0", "9", "a", "x", "#", "\\", " ", "ü"} //nolint:gochecknoglobals

var c16Prefixes = []string{"stun:", "stuns:", "turn:", "turns:", "stun://", ""} //nolint:gochecknoglobals

func c16Call(c *core.Ctx, s string) {
	c.JournalNote([]byte(s))
	var (
		u   *stun.URI
		err error
	)
	// the argument is a string: immutable. It is handed over as a private heap copy whose content is compared afterwards
	// (a parser that "normalises" in place through unsafe would fault on a constant and silently edit a heap string).
	arg := strings.Clone(s)
	p, stack := safely(func() {
		u, err = stun.ParseURI(arg)
		if err != nil {
			_ = err.Error() // "returns an error": one that can be looked at (formatted, logged) like any other
			if len(arg) < 256 {
				_ = fmt.Sprintf("%v|%+v|%q", err, err, err)
			}
		} else if u != nil {
			_ = u.String()
		}
	})
	if p != nil {
		reportPanic(c, "ParseURI", p, stack, map[string]interface{}{"input": s, "input_hex": core.Hex([]byte(s))})

		return
	}
	if arg != s {
		c.Violate("input-mutated", "input-mutated", map[string]interface{}{"input": s, "after_the_call": arg})
	}
	if (u == nil) == (err == nil) {
		c.Violate("neither-uri-nor-error", "neither", map[string]interface{}{"input": s})
	}
	if err == nil {
		c.Count("accepted", 1)
	} else {
		c.Count("rejected", 1)
	}
}

// c16Lookups counts name-service activity of the process. ParseURI is a parser: its time is bounded by its input, so it
// has no business with the resolver (whose time is bounded by nothing). The process-wide resolver is replaced by one that
// only counts and refuses.
var c16Lookups int32 //nolint:gochecknoglobals

// c16RetransmittingClient runs a real client over an in-memory pipe until it has written a request at least three times.
func c16RetransmittingClient(c *core.Ctx, big bool) {
	a, b := net.Pipe()
	var writes int32
	done := make(chan struct{})
	go func() {
		defer close(done)
		buf := make([]byte, 4096)
		for {
			if _, err := b.Read(buf); err != nil {
				return
			}
			atomic.AddInt32(&writes, 1)
		}
	}()
	cl, err := stun.NewClient(a, stun.WithRTO(2*time.Millisecond))
	if err != nil {
		fatalHarness("C16 first-use: " + err.Error())
	}
	req := stun.MustBuild(stun.TransactionID, stun.BindingRequest)
	if big {
		req = stun.MustBuild(stun.TransactionID, stun.BindingRequest, stun.NewSoftware(strings.Repeat("s", 280)))
	}
	_ = cl.Start(req, func(stun.Event) {})
	for spins := 0; atomic.LoadInt32(&writes) < 3 && spins < 4000; spins++ {
		time.Sleep(time.Millisecond)
	}
	c.Count("client_writes_before_parsing", int64(atomic.LoadInt32(&writes)))
	_ = cl.Close()
	_ = b.Close()
	<-done
}

func c16InstallResolver() {
	net.DefaultResolver = &net.Resolver{PreferGo: true, Dial: func(context.Context, string, string) (net.Conn, error) {
		atomic.AddInt32(&c16Lookups, 1)

		return nil, errors.New("C16: no name service in this process")
	}}
}

func c16(c *core.Ctx) {
	c16InstallResolver()
	defer func() {
		if n := atomic.LoadInt32(&c16Lookups); n > 0 {
			c.Violate("name-service-contacted", "name-service-contacted", map[string]interface{}{
				"problem": "ParseURI made the process contact the name service (a call whose duration does not depend on the input's length)", "connections_attempted": n})
		}
		c.Count("name_service_connections", int64(atomic.LoadInt32(&c16Lookups)))
	}()
	// The first thing a process does with the URI code - or with the code next to it - must not matter to the parser.
	firstUse := int64(7)
	if strings.HasPrefix(c.Config, "race") {
		// not in the race build: it has four batches only, and thousands of sequential parses at the start of each would
		// bring whatever the parser keeps between calls into its steady state before the concurrent sections begin
		firstUse = 0
	}
	c.SectionFirst("first-use-order", firstUse, func(i int64, _ *gen.Rand) {
		switch i {
		case 0:
			_ = stun.NewSchemeType("turns")
		case 1:
			_ = stun.NewProtoType("tcp")
		case 2:
			_ = stun.SchemeTypeTURN.String() + stun.ProtoTypeUDP.String()
		case 3:
			u := stun.URI{Scheme: stun.SchemeTypeSTUN, Host: "example.org", Port: 3478, Proto: stun.ProtoTypeUDP}
			_ = u.String()
		case 4:
			u := stun.URI{Scheme: stun.SchemeTypeTURNS}
			_ = u.IsSecure()
		case 5, 6:
			// a client that retransmitted a request (20 bytes for i=5, 300 for i=6) and was closed: its buffers are back in
			// the package's pools. One P, so that the parser below meets them.
			defer runtime.GOMAXPROCS(runtime.GOMAXPROCS(1))
			c16RetransmittingClient(c, i == 6)
		}
		hosts := []string{"", "a", "example.org", "[::1]", "[2001:db8::1]", "127.0.0.1"}
		for n := 1; n <= 2100; n += 1 + n/64 {
			hosts = append(hosts, strings.Repeat("h", n), strings.Repeat("a.", n/2)+"b")
		}
		for round := 0; round < 3; round++ {
			for _, h := range hosts {
				for _, sch := range []string{"stun", "stuns", "turn", "turns"} {
					c16Call(c, sch+":"+h)
					c16Call(c, sch+":"+h+":3478")
					if sch[0] == 't' {
						c16Call(c, sch+":"+h+"?transport=tcp")
					}
				}
			}
		}
		c.Count("first_use_variants_run", 1)
	})
	maxLen := int(c.N(5, 6))
	if c.Config == "race" {
		maxLen = 2
	}
	k := len(c16Alphabet)
	// exhaustive: every string up to maxLen over the alphabet after each prefix; one case per (prefix, first two symbols)
	c.Section("exhaustive", int64(len(c16Prefixes)*k*k), func(i int64, _ *gen.Rand) {
		pfx := c16Prefixes[int(i)/(k*k)]
		a, b := c16Alphabet[int(i)/k%k], c16Alphabet[int(i)%k]
		var n int64
		if int(i)%(k*k) == 0 {
			// the strings shorter than two symbols, once per prefix
			c16Call(c, pfx)
			n++
			for _, x := range c16Alphabet {
				c16Call(c, pfx+x)
				n++
			}
		}
		idx := make([]int, maxLen-2)
		for l := 0; l <= maxLen-2; l++ {
			for j := range idx[:l] {
				idx[j] = 0
			}
			for {
				var sb strings.Builder
				sb.WriteString(pfx)
				sb.WriteString(a)
				sb.WriteString(b)
				for j := 0; j < l; j++ {
					sb.WriteString(c16Alphabet[idx[j]])
				}
				c16Call(c, sb.String())
				n++
				j := l - 1
				for j >= 0 {
					idx[j]++
					if idx[j] < k {
						break
					}
					idx[j] = 0
					j--
				}
				if j < 0 {
					break
				}
			}
		}
		c.Eval(n)
		c.Distinct(uint64(i))
		if i == 7 {
			c.Sample(map[string]interface{}{"prefix": pfx, "first_symbols": a + b, "strings_in_block": n, "max_len": maxLen})
		}
	})
	c.MarkExhaustive(fmt.Sprintf("all strings of length <= %d over the 20-symbol alphabet after each of %d prefixes", maxLen, len(c16Prefixes)))
	if c.Thorough() && c.Config != "race" {
		// deeper over the 12 most URI-significant symbols: every string of length 7 and 8 after the four scheme prefixes
		small := []string{"[", "]", ":", "?", "=", "&", "%", "/", "@", ".", "0", "a"}
		ks := len(small)
		c.Section("exhaustive-small-alphabet", int64(4*ks*ks*ks), func(i int64, _ *gen.Rand) {
			pfx := c16Prefixes[int(i)/(ks*ks*ks)]
			head := small[int(i)/(ks*ks)%ks] + small[int(i)/ks%ks] + small[int(i)%ks]
			var n int64
			for _, l := range []int{4, 5} { // total length 7 and 8
				idx := make([]int, l)
				for {
					var sb strings.Builder
					sb.WriteString(pfx)
					sb.WriteString(head)
					for j := 0; j < l; j++ {
						sb.WriteString(small[idx[j]])
					}
					c16Call(c, sb.String())
					n++
					j := l - 1
					for j >= 0 {
						idx[j]++
						if idx[j] < ks {
							break
						}
						idx[j] = 0
						j--
					}
					if j < 0 {
						break
					}
				}
			}
			c.Eval(n)
			c.Distinct(uint64(i) | 4<<50)
		})
		c.MarkExhaustive("all strings of length 7 and 8 over a 12-symbol alphabet after the four scheme prefixes")
	}
	// many goroutines parsing distinct and identical URIs at once: no shared state may be hurt (a fatal runtime error ends the child)
	c.Section("concurrent", c.N(24, 600), func(i int64, _ *gen.Rand) {
		const g = 16
		var wg sync.WaitGroup
		var panics int32
		for k := 0; k < g; k++ {
			wg.Add(1)
			rk := gen.Derive(c.Seed, uint64(i), uint64(k), 0xC16C)
			go func() {
				defer wg.Done()
				defer func() {
					if recover() != nil {
						atomic.AddInt32(&panics, 1)
					}
				}()
				for n := 0; n < 400; n++ {
					s := c16Random(rk, 1)
					if n%3 == 0 {
						s = fmt.Sprintf("turn:host%d.example.org:%d?transport=tcp", n, 1000+n) // valid and distinct: exercises any cache
					}
					if n%3 == 1 {
						// valid and distinct QUERIES (repeated keys take the first value, letters may be percent-encoded)
						q := []string{"transport=udp", "transport=tcp", "transport=%75dp", "transport=t%63p", "transport=ud%70"}[rk.Intn(5)]
						for k := rk.Intn(6); k > 0; k-- {
							q += fmt.Sprintf("&transport=%s", []string{"udp", "tcp", "u%64p", "%74cp"}[rk.Intn(4)])
						}
						s = fmt.Sprintf("turn%s:h%d.example:%d?%s", []string{"", "s"}[rk.Intn(2)], rk.Intn(50), 1+rk.Intn(65535), q)
					}
					_, _ = stun.ParseURI(s)
				}
			}()
		}
		wg.Wait()
		c.Eval(g * 400)
		c.Count("concurrent_parses", g*400)
		if panics > 0 {
			c.Violate("panic", "panic:concurrent", map[string]interface{}{"goroutines_that_panicked": panics})
		}
		c.Distinct(uint64(i) | 3<<50)
	})
	if c.Config == "race" {
		return
	}
	// very long hosts made of one repeated unit, for every character class (a per-call cost that grows faster than the
	// input shows as a call that does not return within the watchdog)
	units := []string{"a", "A", "Z", "0", ".", "-", "_", "~", "%41", "%", "ü", "Ü", "aA", "A.", "a-", "[", "]", ":", "@", "!", "$", "&", "'", "(", "*", "+", ",", ";", "=",
		"?&", "?a&", "?=&", "?;", "?transport=udp&", "?x=1&", "?%26&"} // the last ones: a host, then a query made of the repeated unit
	c.Section("long-inputs", int64(len(units)*3), func(i int64, _ *gen.Rand) {
		unit := units[int(i)%len(units)]
		size := []int{64 << 10, 1 << 20, 4 << 20}[int(i)/len(units)]
		head := ""
		if len(unit) > 1 && unit[0] == '?' {
			head, unit = "example.org:3478?", unit[1:]
		}
		s := []string{"stun:", "turns:", "turn:"}[int(i)%3] + head + strings.Repeat(unit, size/len(unit)) + []string{"", ":3478", "?transport=udp"}[int(i)%3]
		if head != "" {
			s = []string{"turn:", "turns:", "stun:"}[int(i)%3] + head + strings.Repeat(unit, size/len(unit)) + []string{"", "transport=udp", "x"}[int(i)/len(units)]
		}
		t0 := time.Now()
		c16Call(c, s)
		c.Max("max_ns_per_byte_for_inputs_over_4KiB", time.Since(t0).Nanoseconds()/int64(len(s)))
		c.Count("inputs_over_4KiB", 1)
		c.Eval(1)
		c.Distinct(uint64(i) | 8<<50)
	})
	// thousands of distinct valid hosts with revisits at every distance (caches and intern tables age, promote and evict),
	// and the time of a parse at the end of a long run of hits against the time at its beginning
	c.SectionSerial("many-distinct-hosts", 2, func(i int64, r *gen.Rand) {
		hosts := make([]string, 6000)
		for k := range hosts {
			switch k % 4 {
			case 0:
				hosts[k] = fmt.Sprintf("stun:h%d.example.org:%d", k, 1+k%65000)
			case 1:
				hosts[k] = fmt.Sprintf("turn:[2001:db8::%x]?transport=tcp", k)
			case 2:
				hosts[k] = fmt.Sprintf("turns:10.%d.%d.%d:5349", k>>16&255, k>>8&255, k&255)
			default:
				hosts[k] = fmt.Sprintf("stuns:x%d", k)
			}
		}
		for k := 0; k < len(hosts); k++ {
			c16Call(c, hosts[k])
			if k > 0 && k%7 == 0 {
				c16Call(c, hosts[r.Intn(k)]) // an old acquaintance, at a random distance
			}
			if k >= 1024 && k%5 == 0 {
				c16Call(c, hosts[k-1024-r.Intn(min(1024, k-1023))]) // ... and at the distances where two-generation tables turn over
			}
		}
		c.Eval(int64(len(hosts)))
		if i == 0 {
			return
		}
		// time after history, measured so that a loaded machine cannot fake a verdict: descheduling and GC pauses only
		// ever ADD time, so the MINIMUM over several repetitions of "a long run of hits, then ONE parse of a fresh URI"
		// is a floor that only the parser itself can raise. (A median over many fresh parses is kept as well: it sees
		// costs that every call pays, the minimum-of-firsts sees a cost that the first call after the history pays.)
		fresh := func(tag int) time.Duration {
			s := fmt.Sprintf("stun:fresh-%d-%d.example:%d", tag, r.U64()%100000000, 1+tag%60000)
			t0 := time.Now()
			_, _ = stun.ParseURI(s)

			return time.Since(t0)
		}
		minOf := func(n int, f func(k int) time.Duration) time.Duration {
			best := time.Duration(1 << 62)
			for k := 0; k < n; k++ {
				if d := f(k); d < best {
					best = d
				}
			}

			return best
		}
		median := func() time.Duration {
			ds := make([]time.Duration, 301)
			for k := range ds {
				ds[k] = fresh(k)
			}
			sort.Slice(ds, func(x, y int) bool { return ds[x] < ds[y] })

			return ds[150]
		}
		favourites := hosts[len(hosts)-100:]
		for _, h := range favourites {
			_, _ = stun.ParseURI(h)
		}
		// (the costly call need not be the very first fresh one: a table may first have to work through its other
		// entries. So each repetition takes the slowest of 400 consecutive fresh parses - a window of well under a
		// millisecond on the unchanged tree - and the minimum over the repetitions is judged.)
		slowestOf400 := func(tag int) time.Duration {
			var worst time.Duration
			for k := 0; k < 400; k++ {
				if d := fresh(tag*1000 + k); d > worst {
					worst = d
				}
			}

			return worst
		}
		earlyMin, earlyMedian := minOf(7, slowestOf400), median()
		lateMin := minOf(7, func(k int) time.Duration {
			for j := 0; j < 400000; j++ {
				_, _ = stun.ParseURI(favourites[j%100])
			}

			return slowestOf400(100 + k)
		})
		lateMedian := median()
		c.Max("slowest_of_400_fresh_parses_after_400k_hits_min_of_7_ns", lateMin.Nanoseconds())
		c.Max("slowest_of_400_fresh_parses_min_of_7_before_ns", earlyMin.Nanoseconds())
		c.Max("median_fresh_parse_after_history_ns", lateMedian.Nanoseconds())
		c.Count("hits_before_late_measurements", 7*400000)
		if (lateMin > time.Millisecond && lateMin > 100*earlyMin) || (lateMedian > time.Millisecond && lateMedian > 100*earlyMedian) {
			c.Violate("time-grows-with-history", "time-grows-with-history", map[string]interface{}{
				"problem":                 "parsing a fresh 30-byte URI after a long run of parses of 100 other URIs: minimum over 7 repetitions of the slowest of 400 fresh parses after 400000 hits, and median of 301 parses, against the same before the history",
				"first_after_hits_min_ns": lateMin.Nanoseconds(), "min_before_ns": earlyMin.Nanoseconds(), "median_after_ns": lateMedian.Nanoseconds(), "median_before_ns": earlyMedian.Nanoseconds()})
		}
	})
	// runs of one byte of every class (incl. UTF-8 continuation and lead bytes, NUL, 0xFF) at lengths around the usual
	// buffer/limit sizes, combined with the affixes that select the parser's different exits
	runBytes := []string{"\x80", "\xbf", "\xc3", "\xe2\x82", "\xf0", "\xff", "\x00", "a", ":", "[", "]", "%", "?", "0", ".", "@", "/", "%25"}
	runLens := []int{63, 64, 65, 253, 254, 255, 256, 257, 258, 300, 511, 512, 513, 1023, 1025, 4097, 70000}
	runPre := []string{"", "[", "a", "%", "[::", "a:"}
	runSuf := []string{"", ":1", ":1:2", "::", "]", "]:1", "]:1:2", ":99999", "?transport=tcp", "%zz", ":x", "]x", "?", ":-1"}
	c.Section("runs-with-affixes", int64(len(runBytes)*len(runLens)*len(runPre)), func(i int64, _ *gen.Rand) {
		rb := runBytes[int(i)%len(runBytes)]
		rest := int(i) / len(runBytes)
		n := runLens[rest%len(runLens)]
		pre := runPre[rest/len(runLens)]
		for k, suf := range runSuf {
			s := []string{"stun:", "stuns:", "turn:", "turns:"}[(int(i)+k)%4] + pre + strings.Repeat(rb, n) + suf
			c16Call(c, s)
			c.Eval(1)
		}
		c.Distinct(uint64(i) | 9<<50)
	})
	// random, grammar-mutated, control characters, invalid UTF-8, very long inputs
	c.Section("random", c.N(60000, 10000000), func(i int64, r *gen.Rand) {
		s := c16Random(r, i)
		t0 := time.Now()
		c16Call(c, s)
		if len(s) >= 4096 {
			// recorded as data (not judged): time against input length
			c.Max("max_ns_per_byte_for_inputs_over_4KiB", time.Since(t0).Nanoseconds()/int64(len(s)))
			c.Count("inputs_over_4KiB", 1)
		}
		c.Eval(1)
		c.Distinct(gen.HashString(s))
		if c.WantSample() && len(s) < 60 && i%7 == 0 {
			c.Sample(s)
		}
	})
}

func c16Random(r *gen.Rand, i int64) string {
	hosts := []string{"[2001:DB8::1]", "[2001:db8::A]", "[FE80::ABCD%25ETH0]", "[::FFFF:1.2.3.4]", "EXAMPLE.ORG", "[::g]", "[:::]", "[1::2::3]", "1.2.3.4.5", "1.2.3.4.5.6.7.8.9", "0.0.0.0.0", "256.1.1.1", "01.02.03.004", "1.2.3", "1..2", "0x7f.1", "1.2.3.4.", "999999999999", "[1.2.3.4.5]",
		"[fe80::1%\xe9th0]", "[fe80::1%\xc3\xa9th0]", "[::1%\xff]", "[fe80::1%25\xe2\x82\xac]", "[stun.example.org]", "[localhost]",
		"example.org", "a", "1.2.3.4", "[::1]", "[fe80::1%25eth0]", "[fe80::1%eth0]", "[::1", "::1]", "[]", "[[::1]]", "[::1]x", "host:", ":", "", "ü.example", "%41", "a@b", "[/]", "[/a]", "[a/b]", "[example.org]", "[1.2.3.4]", "[.]",
		"a%2541.example.org", "a%3Ab.example.org", "%5Bexample%5D", "%2525", "A.Example.ORG"}
	ports := []string{"", ":3478", ":0", ":65535", ":65536", ":-1", ":", ":x", ":+80", ":99999999999999999999", "::", ":3478:1"}
	queries := []string{"", "?transport=udp", "?transport=tcp", "?transport=", "?", "?&", "?transport=udp&transport=tcp", "?x=1", "?transport=udp&x", "?%zz", "?transport=%75dp", "#frag", "?;"}
	schemes := []string{"stun:", "stuns:", "turn:", "turns:", "stun://", "turn://", "STUN:", "http:", "", ":", "stun", "stun:stun:"}
	var s string
	switch r.Intn(8) {
	case 0, 1, 2: // grammar product
		s = schemes[r.Intn(len(schemes))] + hosts[r.Intn(len(hosts))] + ports[r.Intn(len(ports))] + queries[r.Intn(len(queries))]
	case 3, 4: // grammar then mutate
		s = schemes[r.Intn(4)] + hosts[r.Intn(len(hosts))] + ports[r.Intn(len(ports))] + queries[r.Intn(len(queries))]
		b := []byte(s)
		for k := 1 + r.Intn(3); k > 0 && len(b) > 0; k-- {
			switch r.Intn(4) {
			case 0:
				b[r.Intn(len(b))] = byte(r.U64())
			case 1:
				p := r.Intn(len(b) + 1)
				b = append(b[:p], append([]byte(c16Alphabet[r.Intn(len(c16Alphabet))]), b[p:]...)...)
			case 2:
				p := r.Intn(len(b))
				b = append(b[:p], b[p+1:]...)
			default:
				p := r.Intn(len(b))
				b = append(b[:p], append(append([]byte(nil), b[p:]...), b[p:]...)...)
			}
		}
		s = string(b)
	case 5: // random bytes incl. control characters and invalid UTF-8
		s = schemes[r.Intn(4)] + string(r.Bytes(r.Intn(40)))
	case 6: // repeated structure
		unit := []string{"[", "]", ":", "[::1]", "%25", "?", "a:", "[]", "1.", "255.", "0.", "9.9", "%e9"}[r.Intn(13)]
		s = schemes[r.Intn(4)] + strings.Repeat(unit, r.Intn(200))
	default: // very long inputs
		n := r.PickInt([]int{4096, 65536, 1 << 20})
		if i%50 != 0 {
			n = 4096
		}
		unit := []string{"a", "[", ":", "[::1]", "a.", "%41"}[r.Intn(6)]
		s = schemes[r.Intn(4)] + strings.Repeat(unit, n/len(unit)) + ports[r.Intn(len(ports))]
	}

	return s
}
