package props

import (
	"errors"
	"fmt"
	"net"
	"strings"
	"time"

	"github.com/pion/stun/v3"
	"github.com/pion/stun/v3/verifharness/core"
	"github.com/pion/stun/v3/verifharness/gen"
	"github.com/pion/stun/v3/verifharness/sim"
)

// C15: Client.Close is final, leak-free and honours connection ownership.
func init() { core.Register("C15", c15) }

var c15Oracles = oracleSet{closeRules: true} //nolint:gochecknoglobals

// c15Options enumerates the option product.
func c15Options() []rigOpts {
	var out []rigOpts
	for _, ncc := range []bool{false, true} {
		for _, realColl := range []bool{false, true} {
			for _, realClock := range []bool{false, true} {
				for _, fb := range []bool{false, true} {
					for rtoMode := 0; rtoMode < 3; rtoMode++ {
						for errMode := 0; errMode < 9; errMode++ {
							for _, defAgent := range []bool{false, true} {
								if defAgent && (errMode == 1 || errMode == 3 || errMode >= 7) {
									continue // the agent Close error is injected through the tapping agent
								}
								o := rigOpts{noConnClose: ncc, realCollector: realColl, realClock: realClock, fallback: fb, defaultAgent: defAgent}
								switch rtoMode {
								case 1:
									o.rto = time.Millisecond
								case 2:
									o.noRetransmit = true
								}
								switch errMode {
								case 1:
									o.agentCloseErr = errInjectedAgentClose
								case 2:
									o.connCloseErr = errInjectedConnClose
								case 3:
									o.agentCloseErr, o.connCloseErr = errInjectedAgentClose, errInjectedConnClose
								case 4:
									// what a real net.Conn answers to a second close
									o.connCloseErr = &net.OpError{Op: "close", Net: "udp", Err: net.ErrClosed}
								case 5:
									// what a TLS/DTLS connection answers when its close alert hits the write deadline: a net.Error, Timeout() true
									o.connCloseErr = sim.DressError(errInjectedConnClose, 1)
								case 6:
									o.connCloseErr = sim.DressError(errInjectedConnClose, 2)
								case 7:
									// both fail, and with the very same error value (one underlying resource)
									o.agentCloseErr, o.connCloseErr = errInjectedAgentClose, errInjectedAgentClose
								case 8:
									// ... or the connection's error wraps the agent's
									o.agentCloseErr, o.connCloseErr = errInjectedAgentClose, &net.OpError{Op: "close", Net: "udp", Err: errInjectedAgentClose}
								}
								out = append(out, o)
								if ncc && errMode == 0 && rtoMode == 0 {
									o2 := o
									o2.noConnCloseN = 2 + len(out)%2
									out = append(out, o2)
								}
								if !defAgent && errMode == 1 && rtoMode == 0 {
									o3 := o
									o3.agentKeeps = true
									out = append(out, o3)
								}
							}
						}
					}
				}
			}
		}
	}

	return out
}

// c15Script: a fixed scenario around Close for one option combination.
func c15Script(c *core.Ctx, o rigOpts, variant int) {
	c.Eval(1)
	r, err := newRig(o)
	if err != nil {
		c.Violate("newclient", "newclient", map[string]interface{}{"options": o.String(), "err": err.Error()})

		return
	}
	fail := func(kind, msg string) {
		c.Violate(kind, kind, map[string]interface{}{"options": o.String(), "variant": variant, "problem": msg, "ledger": r.describe()})
	}
	t0 := r.newTx("Start", seqTID(0), 24)
	_ = r.start(t0)
	t1 := r.newTx("Do", seqTID(1), 28)
	if o.agentKeeps {
		t1.Kind = "Start" // an agent that cannot shut down never ends its transactions: no Do is left waiting for one
		_ = r.start(t1)
	} else {
		// wait for the Do's own first transmission, not for any write: with the ticker collector on the system clock
		// a retransmission of #1 can come at any moment, and a Do that has not written yet when Close returns may
		// legitimately write afterwards (it was issued before Close, the statement does not cover it)
		raw1 := append([]byte(nil), t1.msg.Raw...)
		go func() { _ = r.do(t1) }()
		waitFor(func() bool { return t1.returned() || r.conn.CountWrites(raw1) > 0 })
	}
	if variant&1 == 1 {
		r.deliver(seqTID(0), response(seqTID(0), "c15"), true)
	}
	t2 := r.newTx("Start", seqTID(2), 32)
	_ = r.start(t2)
	// one or several Close calls, sequentially
	nClose := 1 + variant/2%3
	for k := 0; k < nClose; k++ {
		err := r.close()
		if k == 0 {
			if msg := checkCloseResult(o, err); msg != "" {
				fail("close-result", msg)

				return
			}
		} else if !errors.Is(err, stun.ErrClientClosed) {
			fail("close-result", fmt.Sprintf("Close #%d returned %v, expected ErrClientClosed", k+1, err))

			return
		}
	}
	// calls after Close
	writesBefore := r.conn.NWrites()
	for ki, kind := range []string{"Start", "Do", "Indicate", "Start", "Do"} {
		id := seqTID(3)
		if ki >= 3 {
			id = seqTID(2) // the id of a transaction that was in flight when Close was called
		}
		t := r.newTx(kind, id, 20)
		var cerr error
		if kind == "Do" {
			cerr = r.do(t)
		} else {
			cerr = r.start(t)
		}
		if !errors.Is(cerr, stun.ErrClientClosed) {
			fail("call-after-close", fmt.Sprintf("%s after Close returned %v", kind, cerr))

			return
		}
	}
	// ... whatever their arguments are: a closed client answers ErrClientClosed before it looks at anything else
	for name, call := range map[string]func() error{
		"Start(nil, handler)":  func() error { return r.client.Start(nil, func(stun.Event) {}) },
		"Start(nil, nil)":      func() error { return r.client.Start(nil, nil) },
		"Indicate(nil)":        func() error { return r.client.Indicate(nil) },
		"Do(nil, func)":        func() error { return r.client.Do(nil, func(stun.Event) {}) },
		"Do(nil, nil)":         func() error { return r.client.Do(nil, nil) },
		"Start(empty message)": func() error { return r.client.Start(new(stun.Message), nil) },
	} {
		var cerr error
		if p, _ := safely(func() { cerr = call() }); p != nil {
			fail("call-after-close", fmt.Sprintf("%s after Close panicked: %v", name, p))

			return
		}
		if !errors.Is(cerr, stun.ErrClientClosed) {
			fail("call-after-close", fmt.Sprintf("%s after Close returned %v", name, cerr))

			return
		}
	}
	if ws := r.conn.Writes(); len(ws) != writesBefore {
		var late []string
		for _, wr := range ws[writesBefore:] {
			late = append(late, fmt.Sprintf("[%d] %d bytes %x", wr.Stamp, len(wr.Bytes), clip(wr.Bytes)))
		}
		fail("write-after-close", fmt.Sprintf("a call issued after Close wrote to the connection: %d write(s) recorded after Close returned: %s",
			len(late), strings.Join(late, "; ")))

		return
	}
	r.client.SetRTO(time.Second) // must be harmless after Close
	if !o.agentKeeps && !waitFor(t1.returned) {
		fail("call-never-returned", "the pending Do did not return after Close")

		return
	}
	// a late tick / late datagram after Close must not reach any handler
	if r.coll != nil {
		r.tickAt(r.w.VNow() + int64(time.Hour))
	}
	for _, p := range r.judge(c15Oracles, true) {
		fail(p.Kind, p.Detail)
	}
	for _, p := range r.closeAccounting() {
		fail(p.Kind, p.Detail)
	}
	c.Count("close_scripts", 1)
}

func c15(c *core.Ctx) {
	if !strings.HasPrefix(c.Config, "race") {
		// in a process that has done nothing else yet (the count is process-wide)
		c.SectionFirst("closed-clients-leave-nothing", 2, func(i int64, _ *gen.Rand) {
			targetedClosedClientsLeaveNothing(c, int(i))
			c.Distinct(uint64(i) | 31<<50)
		})
	}
	opts := c15Options()
	if c.Config != "race" {
		c.Section("option-product", int64(len(opts)*6), func(i int64, _ *gen.Rand) {
			c15Script(c, opts[int(i)%len(opts)], int(i)/len(opts))
			c.Distinct(uint64(i))
			if c.WantSample() && i%53 == 0 {
				c.Sample(map[string]interface{}{"options": opts[int(i)%len(opts)].String(), "variant": int(i) / len(opts)})
			}
		})
		c.MarkExhaustive("option product x close variants")
		depth := int(c.N(4, 6))
		prefixes := historyPrefixes(3)
		simOpts := []rigOpts{{}, {noConnClose: true}, {fallback: true, noRetransmit: true}, {agentCloseErr: errInjectedAgentClose}, {connCloseErr: errInjectedConnClose, fallback: true}, {noConnClose: true, defaultAgent: true}}
		c.Section("histories", int64(len(prefixes)), func(i int64, _ *gen.Rand) {
			st := newSeqStats()
			var n int64
			enumerateHistories(depth, 3, false, prefixes[i], func(h []hEvent) bool {
				hasClose := false
				for _, e := range h {
					if e.Kind == 'C' {
						hasClose = true
					}
				}
				if !hasClose {
					return true // histories without an explicit Close are C10's; the runner closes at the end anyway
				}
				o := simOpts[int(n)%len(simOpts)]
				probs, _, rg := runHistory(o, h, c15Oracles, st)
				n++
				if len(probs) > 0 {
					reportRigProblems(c, probs, rg, map[string]interface{}{"history": histString(h), "client": o.String()})

					return false
				}

				return true
			})
			c.Eval(n)
			flushSeqStats(c, st)
			c.Distinct(uint64(i) | 1<<50)
		})
	}
	c15Targeted(c)
	clientPairwise(c, c15Oracles)
	defer func() {
		c.Count("goroutine_scans_skipped_because_an_abandoned_client_was_alive", leakScansSkipped.Load())
	}()
	clientStress(c, c15Oracles, c.N(200, 30000), func(i int64, r *gen.Rand) stressCfg {
		return stressCfg{
			goroutines: 2 + r.Intn(10), opsPerG: 2 + r.Intn(8), closers: 1 + r.Intn(4),
			opts: rigOpts{fallback: i%2 == 0, noRetransmit: i%4 == 0, noConnClose: i%3 == 0}, dupIDs: i%5 == 0,
		}
	})
}
