package props

import (
	"bytes"
	"fmt"
	"time"

	"github.com/pion/stun/v3"
	"github.com/pion/stun/v3/verifharness/core"
	"github.com/pion/stun/v3/verifharness/gen"
)

// C12: responses reach the transaction with the same ID and nothing else.
func init() { core.Register("C12", c12) }

var c12Oracles = oracleSet{identity: true} //nolint:gochecknoglobals

// bigResponse builds a decodable response of roughly `size` bytes (<= 1024) with a unique tag.
func bigResponse(id [12]byte, tag string, size int, r *gen.Rand) []byte {
	if size <= 20 {
		// a header-only response: nothing but type, length 0, cookie and id
		return append([]byte(nil), stun.MustBuild(stun.BindingSuccess, stun.NewTransactionIDSetter(id)).Raw...)
	}
	if size <= 200 && r.Chance(1, 3) {
		// any message type, attributes that do not verify or do not parse: routing looks at the transaction id only
		return dressedResponse(id, tag, r.U64())
	}
	typ := stun.BindingSuccess
	if r.Chance(1, 4) {
		typ = stun.NewType(stun.Method(r.Intn(0x1000)), stun.MessageClass(r.Intn(4)))
	}
	setters := []stun.Setter{typ, stun.NewTransactionIDSetter(id), stun.NewSoftware(tag)}
	m := stun.MustBuild(setters...)
	for len(m.Raw)+8 <= size {
		n := size - len(m.Raw) - 4
		if n > 700 {
			n = 700
		}
		m.Add(stun.AttrData, r.Bytes(n&^3))
	}

	return append([]byte(nil), m.Raw...)
}

type c12Datagram struct {
	id    [12]byte
	bytes []byte
	kind  string // response, duplicate, unknown, garbage, late
}

func c12Many(c *core.Ctx, r *gen.Rand, n int, fallback bool) {
	o := rigOpts{fallback: fallback, noRetransmit: true, rto: time.Second}
	rg, err := newRig(o)
	if err != nil {
		c.Violate("newclient", "newclient", err.Error())

		return
	}
	fail := func(kind, msg string) {
		c.Violate(kind, kind, map[string]interface{}{"transactions": n, "fallback_handler": fallback, "problem": msg, "ledger_tail": tailOf(rg.describe(), 25)})
	}
	// ids: random, and families that differ in a single bit
	ids := make([][12]byte, 0, n)
	base := r.TID()
	for len(ids) < n {
		id := r.TID()
		if len(ids) == 0 && r.Chance(1, 3) {
			id = [12]byte{} // a message built without a transaction-id setter carries the all-zero id
		}
		if r.Chance(1, 3) {
			id = base
			bit := r.Intn(96)
			id[bit/8] ^= 1 << uint(bit%8)
		}
		dup := false
		for _, x := range ids {
			if x == id {
				dup = true
			}
		}
		if !dup {
			ids = append(ids, id)
		}
	}
	txs := make([]*tx, n)
	for i, id := range ids {
		txs[i] = rg.newTx("Start", id, 20+4*r.Intn(30))
		if err := rg.start(txs[i]); err != nil {
			fail("start-failed", err.Error())

			return
		}
	}
	// a share of the transactions times out before its answer arrives (late responses)
	late := map[[12]byte]bool{}
	if r.Bool() && n > 1 {
		// expire everything started so far, then restart the on-time half
		rg.tickAt(int64(2 * time.Second))
		for i, id := range ids {
			if i%2 == 0 {
				late[id] = true
			} else {
				txs[i] = rg.newTx("Start", id, 20+4*r.Intn(30))
				if err := rg.start(txs[i]); err != nil {
					fail("start-failed", err.Error())

					return
				}
			}
		}
	}
	var plan []c12Datagram
	for i, id := range ids {
		size := r.PickInt([]int{20, 32, 100, 512, 1000, 1024, 32 + r.Intn(990)})
		kind := "response"
		if late[id] {
			kind = "late"
		}
		resp := bigResponse(id, fmt.Sprintf("resp-%d-%x", i, r.U64()), size, r)
		if n > 1 && len(resp) <= 700 && r.Chance(1, 5) {
			// bytes behind the message's declared length belong to no message - also when they look like one: here a
			// complete message carrying the id of ANOTHER transaction in flight (or, sometimes, of this one, or zeros)
			other := ids[(i+1+r.Intn(n-1))%n]
			var tail []byte
			switch r.Intn(4) {
			case 0:
				tail = make([]byte, 1+r.Intn(40))
			case 1:
				tail = bigResponse(id, fmt.Sprintf("tail-self-%d", i), 20+r.Intn(60), r)
			default:
				tail = bigResponse(other, fmt.Sprintf("tail-other-%d-%x", i, r.U64()), 20+r.Intn(200), r)
			}
			resp = append(resp, tail...)
			c.Count("datagrams_with_a_message_behind_the_message", 1)
		}
		plan = append(plan, c12Datagram{id, resp, kind})
		if r.Chance(1, 5) {
			plan = append(plan, c12Datagram{id, bigResponse(id, fmt.Sprintf("dup-%d-%x", i, r.U64()), size, r), "duplicate"})
		}
		if r.Chance(1, 10) {
			u := r.TID()
			plan = append(plan, c12Datagram{u, bigResponse(u, fmt.Sprintf("unknown-%x", r.U64()), 64, r), "unknown"})
		}
		if r.Chance(1, 10) {
			g := r.Bytes(r.PickInt([]int{0, 1, 19, 20, r.Intn(200)}))
			if r.Bool() && len(g) >= 20 { // looks like STUN but has a bad length
				g[4], g[5], g[6], g[7] = 0x21, 0x12, 0xA4, 0x42
				g[2], g[3] = 0xFF, 0xFF
			}
			plan = append(plan, c12Datagram{[12]byte{}, g, "garbage"})
		}
	}
	for i := len(plan) - 1; i > 0; i-- {
		j := r.Intn(i + 1)
		plan[i], plan[j] = plan[j], plan[i]
	}
	// expected routing, decided at delivery time
	answered := map[[12]byte][]byte{}
	var wantFallback [][]byte
	for _, d := range plan {
		if !rg.deliver(d.id, d.bytes, d.kind != "garbage") {
			fail("reader-gone", "the reader stopped taking datagrams")

			return
		}
		switch {
		case d.kind == "garbage":
			var m stun.Message
			if stun.Decode(d.bytes, &m) == nil {
				// random bytes happened to decode: treat as an unknown message
				wantFallback = append(wantFallback, d.bytes)
			}
		case d.kind == "unknown" || late[d.id] || answered[d.id] != nil:
			wantFallback = append(wantFallback, d.bytes)
		default:
			answered[d.id] = d.bytes
		}
		c.Count("datagrams."+d.kind, 1)
	}
	c.Eval(int64(len(plan)))
	for i, t := range txs {
		inv := t.invocations()
		want := answered[ids[i]]
		switch {
		case late[ids[i]]:
			if len(inv) != 1 || inv[0].Class != "timeout" {
				fail("late-response-affected-transaction", fmt.Sprintf("transaction %x timed out before its answer; invocations %v", ids[i][:4], classesOf(inv)))

				return
			}
		case want == nil:
			fail("plan", "internal: no answer planned")

			return
		default:
			if len(inv) != 1 || inv[0].Class != "response" {
				fail("not-delivered", fmt.Sprintf("transaction %x: invocations %v, one response was delivered for it", ids[i][:4], classesOf(inv)))

				return
			}
			if inv[0].EventTID != ids[i] || inv[0].MsgTID != ids[i] || !bytes.Equal(inv[0].MsgRaw, want) {
				fail("wrong-message", fmt.Sprintf("transaction %x: handler saw id %x and %d bytes %x..., the first datagram delivered for it is %d bytes %x...",
					ids[i][:4], inv[0].MsgTID[:4], len(inv[0].MsgRaw), clip(inv[0].MsgRaw), len(want), clip(want)))

				return
			}
		}
	}
	rg.mu.Lock()
	fb := append([]fbRec(nil), rg.fallback...)
	rg.mu.Unlock()
	if !fallback {
		wantFallback = nil
	}
	var gotMsgs [][]byte
	for _, f := range fb {
		if f.MsgRaw != nil {
			gotMsgs = append(gotMsgs, f.MsgRaw)
		} else {
			c.Count("fallback_error_events", 1)
		}
	}
	if len(gotMsgs) != len(wantFallback) {
		fail("fallback-routing", fmt.Sprintf("fallback handler saw %d messages, %d unmatched decodable datagrams were delivered", len(gotMsgs), len(wantFallback)))

		return
	}
	for i := range gotMsgs {
		if !bytes.Equal(gotMsgs[i], wantFallback[i]) {
			fail("fallback-routing", fmt.Sprintf("fallback message %d is %x..., expected the unmatched datagram %x...", i, clip(gotMsgs[i]), clip(wantFallback[i])))

			return
		}
	}
	c.Count("fallback_messages_matched", int64(len(gotMsgs)))
	c.Count("handlers_matched", int64(n))
	_ = rg.close()
	for _, p := range rg.judge(c12Oracles, true) {
		fail(p.Kind, p.Detail)
	}
	c.Max("max_concurrent_transactions", int64(n))
}

func tailOf(s []string, n int) []string {
	if len(s) > n {
		return s[len(s)-n:]
	}

	return s
}

// c12Churn runs many sequential transactions on one client so that the pooled objects are recycled over and over.
func c12Churn(c *core.Ctx, r *gen.Rand, k int) {
	rg, err := newRig(rigOpts{fallback: true, noRetransmit: r.Bool(), rto: time.Second})
	if err != nil {
		c.Violate("newclient", "newclient", err.Error())

		return
	}
	now := int64(0)
	for i := 0; i < k; i++ {
		id := r.TID()
		kind := "Start"
		if i%3 == 0 {
			kind = "Do"
		}
		t := rg.newTx(kind, id, 20+4*r.Intn(20))
		mode := "response"
		switch {
		case i%50 == 17:
			mode = "timeout"
		case i%70 == 31:
			mode = "write-error"
			rg.conn.FailNext(1)
		case i%90 == 47 && rg.maxAttempts() > 0 && kind == "Start":
			mode = "retransmission-write-error"
		}
		done := make(chan struct{})
		if kind == "Do" {
			pre := rg.conn.NWrites()
			go func() { _ = rg.do(t); close(done) }()
			waitFor(func() bool { return t.returned() || rg.conn.NWrites() > pre })
		} else {
			_ = rg.start(t)
			close(done)
		}
		var want []byte
		switch mode {
		case "response":
			want = bigResponse(id, fmt.Sprintf("churn-%d", i), 32+r.Intn(200), r)
			rg.deliver(id, want, true)
		case "timeout":
			for a := 0; a <= rg.maxAttempts(); a++ {
				now += int64(100 * time.Second)
				rg.tickAt(now)
			}
		case "retransmission-write-error":
			rg.conn.FailNext(1)
			now += int64(100 * time.Second)
			rg.tickAt(now) // the first retransmission fails: the transaction ends with that error
		}
		if !waitFor(t.returned) {
			c.Violate("call-never-returned", "never-returned:"+kind, map[string]interface{}{"iteration": i, "mode": mode})

			return
		}
		<-done
		inv := t.invocations()
		bad := ""
		switch mode {
		case "retransmission-write-error":
			if t.RetErr != nil || len(inv) != 1 || inv[0].Class != "write-error" {
				bad = fmt.Sprintf("the first retransmission failed: Start returned %v, invocations %v", t.RetErr, classesOf(inv))
			}
		case "write-error":
			if t.RetErr == nil || len(inv) != 0 {
				bad = fmt.Sprintf("write failed: returned %v, invocations %v", t.RetErr, classesOf(inv))
			}
		default:
			if t.RetErr != nil || len(inv) != 1 || inv[0].Class != mode || inv[0].EventTID != id || (want != nil && !bytes.Equal(inv[0].MsgRaw, want)) {
				bad = fmt.Sprintf("expected one %s for id %x, got %v (returned %v)", mode, id[:4], classesOf(inv), t.RetErr)
				if len(inv) == 1 && want != nil && !bytes.Equal(inv[0].MsgRaw, want) {
					bad += fmt.Sprintf("; message id %x instead", inv[0].MsgTID[:4])
				}
			}
		}
		if bad != "" {
			c.Violate("churn-mismatch", "churn-mismatch:"+mode, map[string]interface{}{"iteration": i, "problem": bad, "ledger_tail": tailOf(rg.describe(), 20)})

			return
		}
		// keep the ledger small
		rg.mu.Lock()
		rg.txs = rg.txs[:0]
		rg.delivered = map[[12]byte][][]byte{}
		rg.mu.Unlock()
	}
	c.Eval(int64(k))
	c.Count("sequential_transactions", int64(k))
	_ = rg.close()
}

func c12(c *core.Ctx) {
	if c.Config == "race" {
		c.Section("many-in-flight", c.N(40, 600), func(i int64, r *gen.Rand) {
			c12Many(c, r, 1+r.Intn(120), i%2 == 0)
			c.Distinct(r.U64())
		})
		clientPairwise(c, c12Oracles)
		clientStress(c, c12Oracles, c.N(150, 4000), func(i int64, r *gen.Rand) stressCfg {
			return stressCfg{goroutines: 2 + r.Intn(10), opsPerG: 2 + r.Intn(8), closers: 1, opts: rigOpts{fallback: true, noRetransmit: i%4 == 0}, dupIDs: true}
		})

		return
	}
	c.Section("many-in-flight", c.N(300, 30000), func(i int64, r *gen.Rand) {
		n := r.PickInt([]int{1, 2, 3, 10, 50, 1 + r.Intn(100), 100 + r.Intn(401), 500})
		c12Many(c, r, n, i%2 == 0)
		c.Distinct(r.U64())
		if c.WantSample() {
			c.Sample(map[string]interface{}{"section": "many-in-flight", "transactions": n, "fallback_handler": i%2 == 0})
		}
	})
	c.Section("simultaneous-start-same-id", 8, func(i int64, _ *gen.Rand) {
		targetedSimultaneousStartSameID(c, int(c.N(4000, 40000)))
		c.Distinct(uint64(i) | 27<<50)
	})
	c.Section("responses-during-retransmitting-tick", 4, func(i int64, _ *gen.Rand) {
		targetedResponsesDuringRetransmittingTick(c, int(i))
		c.Distinct(uint64(i) | 28<<50)
	})
	c.Section("response-during-close", 4, func(i int64, _ *gen.Rand) {
		targetedResponseDuringClose(c, int(i))
		c.Distinct(uint64(i) | 25<<50)
	})
	c.Section("real-connections", 8, func(i int64, _ *gen.Rand) {
		targetedRealConnections(c, int(i%4))
		c.Distinct(uint64(i) | 32<<50)
	})
	c.Section("idle-read-errors", 7, func(i int64, _ *gen.Rand) {
		targetedIdleReadErrors(c, []int{3, 999, 1000, 2500, 65535, 65536, 70000}[i])
		c.Distinct(uint64(i) | 21<<50)
	})
	c.Section("sequential-churn", c.N(16, 3000), func(_ int64, r *gen.Rand) {
		c12Churn(c, r, 2000)
		c.Distinct(r.U64())
	})
	depth := int(c.N(4, 6))
	prefixes := historyPrefixes(3)
	c.Section("histories", int64(len(prefixes)), func(i int64, _ *gen.Rand) {
		st := newSeqStats()
		var n int64
		enumerateHistories(depth, 3, false, prefixes[i], func(h []hEvent) bool {
			for _, o := range []rigOpts{{fallback: true}, {}} {
				probs, _, rg := runHistory(o, h, c12Oracles, st)
				n++
				if len(probs) > 0 {
					reportRigProblems(c, probs, rg, map[string]interface{}{"history": histString(h), "client": o.String()})

					return false
				}
			}

			return true
		})
		c.Eval(n)
		flushSeqStats(c, st)
		c.Distinct(uint64(i) | 1<<50)
	})
	clientPairwise(c, c12Oracles)
	clientStress(c, c12Oracles, c.N(150, 6000), func(i int64, r *gen.Rand) stressCfg {
		return stressCfg{goroutines: 2 + r.Intn(10), opsPerG: 2 + r.Intn(8), closers: 1, opts: rigOpts{fallback: true, noRetransmit: i%4 == 0}, dupIDs: true}
	})
}
