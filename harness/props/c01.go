package props

import (
	"bufio"
	"bytes"
	"errors"
	"fmt"
	"io"
	"net"
	"os"
	"runtime"
	"sync"
	"sync/atomic"
	"unsafe"

	"github.com/pion/stun/v3"
	"github.com/pion/stun/v3/verifharness/core"
	"github.com/pion/stun/v3/verifharness/gen"
	"github.com/pion/stun/v3/verifharness/ref"
)

// C01: decoding arbitrary bytes is total and memory-safe.
func init() { core.Register("C01", c01) }

// scriptedReader returns the datagram as scripted.
type scriptedReader struct {
	data  []byte
	mode  int // 0 whole, 1 short (n<20 bytes), 2 n>0 with error, 3 zero+EOF
	calls int
	next  []byte // what a second Read would return: the NEXT datagram, which belongs to nobody yet
}

var errScripted = errors.New("scripted read error")

func (s *scriptedReader) Read(p []byte) (int, error) {
	s.calls++
	if s.calls > 1 && s.mode == 0 {
		return copy(p, s.next), nil
	}
	switch s.mode {
	case 1:
		n := len(s.data)
		if n > 19 {
			n = 19
		}

		return copy(p, s.data[:n]), nil
	case 2:
		return copy(p, s.data), errScripted
	case 3:
		return 0, io.EOF
	case 4:
		return 0, nil // an empty datagram (what net.UDPConn.Read reports for one): no bytes, no error
	default:
		return copy(p, s.data), nil
	}
}

type c01Entry struct {
	name string
	// run decodes `in` (already placed) and returns the message, the bytes that were actually decoded and the error.
	run func(in []byte, r *gen.Rand) (*stun.Message, []byte, error)
	// copies: the entry point must not alias the caller's buffer
	copies bool
}

// usedMessage returns a destination that already holds a decoded message with attributes (receivers are reused in
// practice: the client decodes every datagram into one Message).
func usedMessage(r *gen.Rand) *stun.Message {
	if r.Bool() {
		return new(stun.Message)
	}
	if r.Chance(1, 12) {
		// a receiver with a long past: it once held a 16000-attribute, 64 KB message (prepared outside every measured
		// window). What a later, small input costs and where its values point does not depend on that.
		if v := c01Veteran(); v != nil {
			return v
		}
	}
	m := new(stun.Message)
	prev := stun.MustBuild(stun.BindingSuccess, stun.TransactionID, stun.NewSoftware("previous content"),
		stun.NewUsername("previous-user"), stun.RawAttribute{Type: 0x7f7f, Value: r.Bytes(1 + r.Intn(40))})
	if err := stun.Decode(prev.Raw, m); err != nil {
		fatalHarness("usedMessage: " + err.Error())
	}

	return m
}

var (
	c01Veterans   []*stun.Message //nolint:gochecknoglobals
	c01VeteranMu  sync.Mutex      //nolint:gochecknoglobals
	c01VeteranIdx int             //nolint:gochecknoglobals
)

// queueReader delivers one queued datagram per Read (a packet socket).
type queueReader struct{ q [][]byte }

func (q *queueReader) push(b []byte) { q.q = append(q.q, b) }

func (q *queueReader) Read(p []byte) (int, error) {
	if len(q.q) == 0 {
		return 0, io.EOF
	}
	n := copy(p, q.q[0])
	q.q = q.q[1:]

	return n, nil
}

// c01PrepareVeterans builds the pool of veteran receivers (called once per process, before the sections).
func c01PrepareVeterans() {
	big := &stun.Message{}
	big.WriteHeader()
	for k := 0; k < 16000; k++ {
		big.Add(stun.AttrType(0x7a00+k%7), nil) // 16000 value-less attributes: 64000 bytes, within the 16-bit length
	}
	for k := 0; k < 24; k++ {
		m := new(stun.Message)
		if err := stun.Decode(big.Raw, m); err != nil {
			fatalHarness("veteran: " + err.Error())
		}
		c01Veterans = append(c01Veterans, m)
	}
}

// c01Veteran hands out each veteran in turn (a veteran that has since decoded small inputs is still a veteran: whatever
// the library keeps or gives back, the cost of the next small input stays bounded by that input).
func c01Veteran() *stun.Message {
	c01VeteranMu.Lock()
	defer c01VeteranMu.Unlock()
	if len(c01Veterans) == 0 {
		return nil
	}
	c01VeteranIdx++

	return c01Veterans[c01VeteranIdx%len(c01Veterans)]
}

func c01Entries() []c01Entry {
	return []c01Entry{
		{"Decode", func(in []byte, r *gen.Rand) (*stun.Message, []byte, error) {
			m := usedMessage(r)
			err := stun.Decode(in, m)

			return m, in, err
		}, true},
		{"Message.Decode", func(in []byte, r *gen.Rand) (*stun.Message, []byte, error) {
			m := usedMessage(r) // the struct may have listed another message before; Raw is replaced by the input in place
			m.Raw = in
			err := m.Decode()

			return m, in, err
		}, false},
		{"Write", func(in []byte, r *gen.Rand) (*stun.Message, []byte, error) {
			m := usedMessage(r)
			n, err := m.Write(in)
			if n != len(in) {
				return m, in, fmt.Errorf("Write returned n=%d for %d bytes: %w", n, len(in), errHarnessAssert)
			}

			return m, in, err
		}, true},
		{"UnmarshalBinary", func(in []byte, r *gen.Rand) (*stun.Message, []byte, error) {
			m := usedMessage(r)
			err := m.UnmarshalBinary(in)

			return m, in, err
		}, true},
		{"GobDecode", func(in []byte, r *gen.Rand) (*stun.Message, []byte, error) {
			m := usedMessage(r)
			err := m.GobDecode(in)

			return m, in, err
		}, true},
		{"CloneTo", func(in []byte, r *gen.Rand) (*stun.Message, []byte, error) {
			src := &stun.Message{Raw: in}
			if r.Chance(1, 20) && c01BigMu.TryLock() {
				// the source sits in a large read buffer (allocated once, outside every measured window): what CloneTo
				// allocates follows the message, not that capacity - the allocation bound of the caller judges it
				defer c01BigMu.Unlock()
				big := c01Big[:len(in)]
				copy(big, in)
				dst := usedMessage(r)
				err := (&stun.Message{Raw: big}).CloneTo(dst)

				return dst, in, err
			}
			if r.Chance(1, 3) {
				// the source was decoded from other bytes of the same length before its buffer was rewritten in place
				// (same header, edited body): CloneTo must judge the bytes that are there now
				prev := append([]byte(nil), in...)
				if len(prev) > 24 {
					for k := 20; k < len(prev); k++ {
						prev[k] = 0
					}
					tmp := &stun.Message{Raw: prev}
					if tmp.Decode() == nil || r.Bool() {
						src = tmp
						copy(src.Raw, in)
					}
				}
			}
			dst := usedMessage(r)
			err := src.CloneTo(dst)

			return dst, in, err
		}, true},
		{"self-aliased input", func(in []byte, r *gen.Rand) (*stun.Message, []byte, error) {
			// the bytes to decode live inside the receiver's own buffer (a packet read into m.Raw behind a length prefix,
			// a message carried in the DATA attribute of the message just decoded, the second of two back-to-back messages)
			m := new(stun.Message)
			var data []byte
			if len(in) <= 60000 && r.Bool() {
				outer := ref.Encode(0x0017, r.TID(), []ref.Attr{{Type: 0x0013, Value: in}, {Type: 0x8022, Value: []byte("outer")}})
				if err := stun.Decode(outer, m); err != nil {
					return m, in, fmt.Errorf("outer message does not decode (%v): %w", err, errHarnessAssert)
				}
				v, err := m.Get(stun.AttrData)
				if err != nil || !bytes.Equal(v, in) {
					return m, in, fmt.Errorf("DATA value differs: %w", errHarnessAssert)
				}
				data = v
			} else {
				k := r.Intn(9)
				m.Raw = append(append(append(make([]byte, 0, k+len(in)+r.Intn(40)), r.Bytes(k)...), in...), r.Bytes(r.Intn(8))...)
				data = m.Raw[k : k+len(in)]
			}
			var err error
			switch r.Intn(4) {
			case 0:
				err = stun.Decode(data, m)
			case 1:
				_, err = m.Write(data)
			case 2:
				err = m.UnmarshalBinary(data)
			default:
				err = m.GobDecode(data)
			}

			return m, in, err
		}, true},
		{"ReadFrom", func(in []byte, r *gen.Rand) (*stun.Message, []byte, error) {
			// destination capacity: 0, 19, 20, exact, larger
			var capacity int
			switch r.Intn(6) {
			case 0:
				capacity = 0
			case 1:
				capacity = 19
			case 2:
				capacity = 20
			case 3:
				capacity = len(in)
			case 4:
				capacity = len(in) + 1 + r.Intn(64)
			default:
				capacity = 1024
			}
			m := usedMessage(r)
			m.Raw = make([]byte, r.Intn(capacity+1), capacity)
			rd := &scriptedReader{data: in, mode: 0}
			if r.Chance(1, 5) {
				rd.mode = 1 + r.Intn(4)
			}
			// the datagram after this one: the rest of this very message (as if a stream had split it) or another message
			if len(in) > 24 && r.Bool() {
				cut := 20 + r.Intn(len(in)-20)
				rd.data, rd.next = in[:cut], in[cut:]
				in = in[:cut]
			} else {
				rd.next = r.Spec(2, 16).Wire()
			}
			n, err := m.ReadFrom(rd)
			if rd.mode == 0 && rd.calls != 1 {
				return m, in, fmt.Errorf("ReadFrom called Read %d times: one call reads one datagram: %w", rd.calls, errHarnessAssert)
			}
			seen := in
			if len(seen) > capacity {
				seen = seen[:capacity]
			}
			switch rd.mode {
			case 4:
				seen = seen[:0] // nothing was read: nothing can have been decoded
			case 1:
				if len(seen) > 19 {
					seen = seen[:19]
				}
			case 2, 3:
				// the reader failed: ReadFrom must hand that error back and not decode
				if err == nil {
					return m, seen, fmt.Errorf("ReadFrom swallowed the reader's error: %w", errHarnessAssert)
				}

				return m, nil, errReaderFailed
			}
			if int(n) != len(seen) {
				return m, seen, fmt.Errorf("ReadFrom returned n=%d, reader gave %d: %w", n, len(seen), errHarnessAssert)
			}

			return m, seen, err
		}, true},
	}
}

var (
	errHarnessAssert = errors.New("entry-point contract")
	errReaderFailed  = errors.New("reader failed (no decode expected)")
)

func c01(c *core.Ctx) {
	selfCheckOracles()
	c.Setup("veteran-receivers", c01PrepareVeterans)
	if len(c01Veterans) == 0 {
		return // reported by Setup
	}
	entries := c01Entries()
	n := c.N(60000, 3000000)
	if c.Config != "rel" {
		n = c.N(30000, 1000000)
	}
	if c.Config == "race" {
		n = c.N(8000, 100000)
	}
	var ms0, ms1 runtime.MemStats
	judge := func(i int64, r *gen.Rand, in []byte, modes []int) {
		rm, why := ref.Parse(in)
		class := "rej:" + why
		if rm != nil {
			class = fmt.Sprintf("ok:%d", len(rm.TLVs))
		}
		c.Count("inputs."+classBucket(class), 1)
		c.Distinct(gen.HashBytes(in))
		if c.WantSample() && rm != nil && len(rm.TLVs) > 1 && len(in) < 120 {
			c.Sample(map[string]interface{}{"input_hex": core.Hex(in), "reference": class})
		}
		for _, mode := range modes {
			for ei, e := range entries {
				placed := place(in, mode, r.Intn(4), 1+r.Intn(64), r)
				orig := append([]byte(nil), placed...)
				var (
					m    *stun.Message
					seen []byte
					err  error
				)
				runtime.ReadMemStats(&ms0)
				p, stack := safely(func() { m, seen, err = e.run(placed, r) })
				runtime.ReadMemStats(&ms1)
				c.Eval(1)
				detail := func() map[string]interface{} {
					return map[string]interface{}{"entry": e.name, "placement": mode, "input_hex": core.Hex(in), "len": len(in)}
				}
				if p != nil {
					reportPanic(c, e.name, p, stack, detail())

					continue
				}
				if errors.Is(err, errHarnessAssert) {
					d := detail()
					d["error"] = err.Error()
					c.Violate("entry-contract", "contract:"+e.name, d)

					continue
				}
				alloc := int64(ms1.TotalAlloc - ms0.TotalAlloc)
				bound := 64*int64(len(in)) + 4096 + 2048 // + the reused destination built inside the measured window
				for rep := 0; alloc > bound && rep < 4; rep++ {
					// TotalAlloc is process-wide: the runtime's own sporadic allocations land in
					// the window now and then. An allocation caused by the input repeats; noise
					// does not. Re-measure the same call and keep the minimum.
					c.Count("alloc_remeasured", 1)
					again := place(in, mode, 0, 8, r)
					rr := gen.New(uint64(i))
					runtime.ReadMemStats(&ms0)
					_, _ = safely(func() { _, _, _ = e.run(again, rr) })
					runtime.ReadMemStats(&ms1)
					if a := int64(ms1.TotalAlloc - ms0.TotalAlloc); a < alloc {
						alloc = a
					}
				}
				if alloc > bound {
					d := detail()
					d["allocated"] = alloc
					c.Violate("alloc-bound", "alloc:"+e.name, d)
				} else {
					c.Max("max_alloc_bytes_per_call", alloc)
				}
				if !bytes.Equal(placed, orig) {
					c.Violate("input-mutated", "input-mutated:"+e.name, detail())
				}
				if errors.Is(err, errReaderFailed) {
					c.Count("reader_failures", 1)

					continue
				}
				want, wantWhy := rm, why
				if ei == len(entries)-1 { // ReadFrom may have seen a truncated datagram
					want, wantWhy = ref.Parse(seen)
				}
				if (err == nil) != (want != nil) {
					d := detail()
					d["lib_error"] = fmt.Sprint(err)
					d["reference"] = wantWhy
					c.Violate("verdict", "verdict:"+e.name, d)

					continue
				}
				if err != nil {
					c.Count("rejected", 1)

					continue
				}
				c.Count("accepted", 1)
				c.Count("values_checked", int64(len(m.Attributes)))
				if !stun.IsMessage(seen) {
					c.Violate("ismessage", "IsMessage", detail())
				}
				if d := diffRef(m, want, seen); d != "" {
					dd := detail()
					dd["diff"] = d
					c.Violate("content", "content:"+e.name, dd)
				}
				if !bytes.Equal(m.Raw, seen) {
					c.Violate("raw", "raw:"+e.name, detail())
				}
				if d := memview(m, want); d != "" {
					dd := detail()
					dd["diff"] = d
					c.Violate("memview", "memview:"+e.name, dd)
				}
				if len(m.Raw) > 0 && len(placed) > 0 {
					same := unsafe.SliceData(m.Raw) == unsafe.SliceData(placed)
					if e.copies && aliases(m.Raw, placed) {
						c.Violate("aliasing", "alias:"+e.name, detail())
					}
					if !e.copies && !same {
						c.Violate("in-place-moved", "moved:"+e.name, detail())
					}
				}
			}
		}
	}
	c.Section("inputs", n, func(i int64, r *gen.Rand) {
		judge(i, r, r.Hostile(seeds(), 65555), []int{0, 1})
	})
	// attribute values kept by the application after it dropped the Message stay what they were: across garbage
	// collections and whatever is decoded into other (New, pooled, reused) messages afterwards
	c.SectionSerial("retained-values", c.N(6, 200), func(i int64, r *gen.Rand) {
		type kept struct{ view, copy []byte }
		var keep []kept
		for k := 0; k < 300; k++ {
			spec := r.Spec(4, 40)
			spec.Attrs = append(spec.Attrs, ref.Attr{Type: 0x0006, Value: r.Bytes(8 + r.Intn(40))})
			wire := spec.Wire()
			var m *stun.Message
			switch k % 3 {
			case 0:
				m = stun.New()
			case 1:
				m = new(stun.Message)
			default:
				m = &stun.Message{Raw: make([]byte, 0, 64+r.Intn(200))}
			}
			var err error
			switch k % 4 {
			case 0:
				_, err = m.Write(wire)
			case 1:
				err = stun.Decode(wire, m)
			case 2:
				err = m.UnmarshalBinary(wire)
			default:
				if cap(m.Raw) < len(wire) {
					m.Raw = make([]byte, 0, len(wire)+r.Intn(32)) // ReadFrom reads into the capacity it is given
				}
				_, err = m.ReadFrom(bytes.NewReader(wire))
			}
			if err != nil {
				fatalHarness("C01 retained-values: " + err.Error())
			}
			v, _ := m.Get(stun.AttrUsername)
			keep = append(keep, kept{v, append([]byte(nil), v...)})
		} // the messages are unreachable now, their values are not
		for round := 0; round < 3; round++ {
			runtime.GC()
			runtime.Gosched()
			for k := 0; k < 400; k++ {
				m := stun.New()
				_, _ = m.Write(r.Spec(5, 60).Wire())
				m.Add(stun.AttrSoftware, bytes.Repeat([]byte{0x5A}, 1+r.Intn(200)))
			}
		}
		c.Eval(int64(len(keep)))
		for k, kv := range keep {
			if !bytes.Equal(kv.view, kv.copy) {
				c.Violate("retained-value-changed", "retained-value-changed", map[string]interface{}{
					"problem":       "an attribute value obtained from a decoded message changed after the message was dropped, a garbage collection ran and other messages were decoded",
					"message_index": k, "value_then_hex": core.Hex(kv.copy), "value_now_hex": core.Hex(kv.view)})

				return
			}
		}
		c.Count("retained_values_checked", int64(len(keep)))
		c.Distinct(uint64(i) | 7<<50)
	})
	// ReadFrom is handed readers of the kinds programs really use (a bufio.Reader around a socket, a bytes.Buffer, a
	// net.Pipe end, an os pipe): what the message exposes afterwards is its own - it stays what it was when the same
	// reader delivers the next datagrams to other messages and the sender reuses its buffers.
	c.Section("reader-kinds", c.N(120, 6000), func(i int64, r *gen.Rand) {
		var (
			rd      io.Reader
			feed    func([]byte)
			closeFn func()
		)
		kind := int(i % 7)
		switch kind {
		case 0, 1, 2, 3:
			src := &queueReader{}
			rd, feed = bufio.NewReaderSize(src, []int{16, 600, 4096, 65536}[kind]), src.push
		case 4:
			buf := new(bytes.Buffer)
			rd, feed = buf, func(b []byte) { buf.Write(b) }
		case 5:
			a, b := net.Pipe()
			rd, feed, closeFn = a, func(d []byte) { go func(d []byte) { _, _ = b.Write(d) }(append([]byte(nil), d...)) }, func() { _ = a.Close(); _ = b.Close() }
		default:
			pr, pw, err := os.Pipe()
			if err != nil {
				c.Inconclusive(1)

				return
			}
			rd, feed, closeFn = pr, func(d []byte) { _, _ = pw.Write(d) }, func() { _ = pr.Close(); _ = pw.Close() }
		}
		if closeFn != nil {
			defer closeFn()
		}
		type held struct {
			m    *stun.Message
			wire []byte
			raw  []byte
			vals [][]byte
		}
		var all []held
		for k := 0; k < 4; k++ {
			spec := r.Spec(4, 40)
			spec.Attrs = append(spec.Attrs, ref.Attr{Type: 0x0006, Value: r.Bytes(8 + r.Intn(40))})
			wire := spec.Wire()
			sent := append([]byte(nil), wire...)
			feed(sent)
			m := &stun.Message{Raw: make([]byte, 0, 1024)}
			var err error
			if p, stack := safely(func() { _, err = m.ReadFrom(rd) }); p != nil {
				reportPanic(c, "ReadFrom", p, stack, map[string]interface{}{"reader": fmt.Sprintf("%T", rd), "input_hex": core.Hex(wire)})

				return
			}
			for j := range sent {
				sent[j] = 0xC3 // the sender's buffer is the sender's
			}
			rm, _ := ref.Parse(wire)
			if err != nil || rm == nil {
				c.Violate("reader-kinds", "reader-kinds:verdict", map[string]interface{}{"reader": fmt.Sprintf("%T", rd), "input_hex": core.Hex(wire), "err": fmt.Sprint(err)})

				return
			}
			h := held{m: m, wire: wire, raw: append([]byte(nil), m.Raw...)}
			for _, a := range m.Attributes {
				h.vals = append(h.vals, append([]byte(nil), a.Value...))
			}
			all = append(all, h)
			c.Eval(1)
			for n, o := range all { // every message read so far, the new one included
				orm, _ := ref.Parse(o.wire)
				d := diffRef(o.m, orm, o.wire)
				if d == "" && !bytes.Equal(o.m.Raw, o.raw) {
					d = "Raw changed"
				}
				for q := range o.vals {
					if d == "" && (q >= len(o.m.Attributes) || !bytes.Equal(o.m.Attributes[q].Value, o.vals[q])) {
						d = fmt.Sprintf("value of attribute %d changed", q)
					}
				}
				if d != "" {
					c.Violate("reader-kinds", "reader-kinds:bystander", map[string]interface{}{"reader": fmt.Sprintf("%T", rd), "message_read_as_number": n, "after_reading_number": k,
						"problem": "a message obtained with ReadFrom no longer is what was read once the same reader delivered later datagrams to other messages", "diff": d})

					return
				}
			}
		}
		c.Count("reader_kinds."+fmt.Sprintf("%T", rd), 1)
	})
	// several goroutines decoding independent hostile inputs at the same time (and formatting the errors they get): a
	// decoder has no business with shared state; a crash or a race report ends the child process / the race build
	c.Section("concurrent-decoders", c.N(40, 2000), func(i int64, _ *gen.Rand) {
		const g = 8
		var wg sync.WaitGroup
		var panics int32
		for k := 0; k < g; k++ {
			wg.Add(1)
			rk := gen.Derive(c.Seed, uint64(i), uint64(k), 0xC01C)
			go func() {
				defer wg.Done()
				defer func() {
					if recover() != nil {
						atomic.AddInt32(&panics, 1)
					}
				}()
				m := new(stun.Message)
				for n := 0; n < 150; n++ {
					in := rk.Hostile(nil, 300)
					if n%3 == 0 { // truncated inside a value of an unknown attribute type
						s := rk.Spec(2, 20)
						s.Attrs = append(s.Attrs, ref.Attr{Type: uint16(rk.U64()), Value: rk.Bytes(8 + rk.Intn(20))})
						w := s.Wire()
						in = w[:len(w)-1-rk.Intn(6)]
						l := len(w) - 20
						in[2], in[3] = byte(l>>8), byte(l)
					}
					var err error
					switch n % 4 {
					case 0:
						err = stun.Decode(in, m)
					case 1:
						_, err = m.Write(in)
					case 2:
						err = m.UnmarshalBinary(in)
					default:
						m2 := &stun.Message{Raw: append([]byte(nil), in...)}
						err = m2.Decode()
					}
					if err != nil {
						_ = err.Error()
						_ = fmt.Sprintf("%v %+v", err, err)
					} else {
						_ = m.String()
						for _, a := range m.Attributes {
							_ = a.String()
						}
					}
				}
			}()
		}
		wg.Wait()
		c.Eval(g * 150)
		c.Count("concurrent_decodes", g*150)
		if panics > 0 {
			c.Violate("panic", "panic:concurrent-decoders", map[string]interface{}{"goroutines_that_panicked": panics})
		}
		c.Distinct(uint64(i) | 8<<50)
	})
	// every value of the first two bytes, with an intact and with a damaged cookie: no type value is special
	tf := int64(65536)
	if c.Config == "race" {
		tf = 4096
	}
	c.Section("typefield", tf, func(i int64, r *gen.Rand) {
		spec := r.Spec(2, 12)
		in := spec.Wire()
		v := uint16(i)
		if tf < 65536 {
			v = uint16(r.U64())
		}
		in[0], in[1] = byte(v>>8), byte(v)
		if r.Bool() {
			in[4+r.Intn(4)] ^= 1 << uint(r.Intn(8))
		}
		judge(i, r, in, []int{r.Intn(2)})
	})
}

// c01Big is a read buffer much larger than any message (capacity 2 MiB), shared under c01BigMu.
var (
	c01Big   = make([]byte, 70000, 2<<20) //nolint:gochecknoglobals
	c01BigMu sync.Mutex                   //nolint:gochecknoglobals
)

func classBucket(class string) string {
	if len(class) > 3 && class[:3] == "ok:" {
		if class == "ok:0" {
			return "ok.0attrs"
		}

		return "ok.with_attrs"
	}

	return class
}

// aliases reports whether the two slices' backing ranges [ptr, ptr+cap) intersect.
func aliases(a, b []byte) bool {
	pa := uintptr(unsafe.Pointer(unsafe.SliceData(a)))
	pb := uintptr(unsafe.Pointer(unsafe.SliceData(b)))
	ea, eb := pa+uintptr(cap(a)), pb+uintptr(cap(b))

	return pa < eb && pb < ea
}
