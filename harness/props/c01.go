package props

import (
	"bytes"
	"errors"
	"fmt"
	"io"
	"runtime"
	"unsafe"

	"github.com/pion/stun/v3"
	"github.com/pion/stun/v3/verifharness/core"
	"github.com/pion/stun/v3/verifharness/gen"
	"github.com/pion/stun/v3/verifharness/ref"
)

// C01: decoding arbitrary bytes is total and memory-safe.
func init() { core.Register("C01", c01) }

// scriptedReader returns the datagram as scripted.
type scriptedReader struct {
	data []byte
	mode int // 0 whole, 1 short (n<20 bytes), 2 n>0 with error, 3 zero+EOF
}

var errScripted = errors.New("scripted read error")

func (s *scriptedReader) Read(p []byte) (int, error) {
	switch s.mode {
	case 1:
		n := len(s.data)
		if n > 19 {
			n = 19
		}

		return copy(p, s.data[:n]), nil
	case 2:
		return copy(p, s.data), errScripted
	case 3:
		return 0, io.EOF
	default:
		return copy(p, s.data), nil
	}
}

type c01Entry struct {
	name string
	// run decodes `in` (already placed) and returns the message, the bytes that were actually decoded and the error.
	run func(in []byte, r *gen.Rand) (*stun.Message, []byte, error)
	// copies: the entry point must not alias the caller's buffer
	copies bool
}

// usedMessage returns a destination that already holds a decoded message with attributes (receivers are reused in
// practice: the client decodes every datagram into one Message).
func usedMessage(r *gen.Rand) *stun.Message {
	if r.Bool() {
		return new(stun.Message)
	}
	m := new(stun.Message)
	prev := stun.MustBuild(stun.BindingSuccess, stun.TransactionID, stun.NewSoftware("previous content"),
		stun.NewUsername("previous-user"), stun.RawAttribute{Type: 0x7f7f, Value: r.Bytes(1 + r.Intn(40))})
	if err := stun.Decode(prev.Raw, m); err != nil {
		fatalHarness("usedMessage: " + err.Error())
	}

	return m
}

func c01Entries() []c01Entry {
	return []c01Entry{
		{"Decode", func(in []byte, r *gen.Rand) (*stun.Message, []byte, error) {
			m := usedMessage(r)
			err := stun.Decode(in, m)

			return m, in, err
		}, true},
		{"Message.Decode", func(in []byte, r *gen.Rand) (*stun.Message, []byte, error) {
			m := usedMessage(r) // the struct may have listed another message before; Raw is replaced by the input in place
			m.Raw = in
			err := m.Decode()

			return m, in, err
		}, false},
		{"Write", func(in []byte, r *gen.Rand) (*stun.Message, []byte, error) {
			m := usedMessage(r)
			n, err := m.Write(in)
			if n != len(in) {
				return m, in, fmt.Errorf("Write returned n=%d for %d bytes: %w", n, len(in), errHarnessAssert)
			}

			return m, in, err
		}, true},
		{"UnmarshalBinary", func(in []byte, r *gen.Rand) (*stun.Message, []byte, error) {
			m := usedMessage(r)
			err := m.UnmarshalBinary(in)

			return m, in, err
		}, true},
		{"GobDecode", func(in []byte, r *gen.Rand) (*stun.Message, []byte, error) {
			m := usedMessage(r)
			err := m.GobDecode(in)

			return m, in, err
		}, true},
		{"CloneTo", func(in []byte, r *gen.Rand) (*stun.Message, []byte, error) {
			src := &stun.Message{Raw: in}
			if r.Chance(1, 3) {
				// the source was decoded from other bytes of the same length before its buffer was rewritten in place
				// (same header, edited body): CloneTo must judge the bytes that are there now
				prev := append([]byte(nil), in...)
				if len(prev) > 24 {
					for k := 20; k < len(prev); k++ {
						prev[k] = 0
					}
					tmp := &stun.Message{Raw: prev}
					if tmp.Decode() == nil || r.Bool() {
						src = tmp
						copy(src.Raw, in)
					}
				}
			}
			dst := usedMessage(r)
			err := src.CloneTo(dst)

			return dst, in, err
		}, true},
		{"ReadFrom", func(in []byte, r *gen.Rand) (*stun.Message, []byte, error) {
			// destination capacity: 0, 19, 20, exact, larger
			var capacity int
			switch r.Intn(6) {
			case 0:
				capacity = 0
			case 1:
				capacity = 19
			case 2:
				capacity = 20
			case 3:
				capacity = len(in)
			case 4:
				capacity = len(in) + 1 + r.Intn(64)
			default:
				capacity = 1024
			}
			m := usedMessage(r)
			m.Raw = make([]byte, r.Intn(capacity+1), capacity)
			rd := &scriptedReader{data: in, mode: 0}
			if r.Chance(1, 5) {
				rd.mode = 1 + r.Intn(3)
			}
			n, err := m.ReadFrom(rd)
			seen := in
			if len(seen) > capacity {
				seen = seen[:capacity]
			}
			switch rd.mode {
			case 1:
				if len(seen) > 19 {
					seen = seen[:19]
				}
			case 2, 3:
				// the reader failed: ReadFrom must hand that error back and not decode
				if err == nil {
					return m, seen, fmt.Errorf("ReadFrom swallowed the reader's error: %w", errHarnessAssert)
				}

				return m, nil, errReaderFailed
			}
			if int(n) != len(seen) {
				return m, seen, fmt.Errorf("ReadFrom returned n=%d, reader gave %d: %w", n, len(seen), errHarnessAssert)
			}

			return m, seen, err
		}, true},
	}
}

var (
	errHarnessAssert = errors.New("entry-point contract")
	errReaderFailed  = errors.New("reader failed (no decode expected)")
)

func c01(c *core.Ctx) {
	selfCheckOracles()
	entries := c01Entries()
	n := c.N(60000, 3000000)
	if c.Config != "rel" {
		n = c.N(30000, 1000000)
	}
	if c.Config == "race" {
		n = c.N(8000, 100000)
	}
	var ms0, ms1 runtime.MemStats
	judge := func(i int64, r *gen.Rand, in []byte, modes []int) {
		rm, why := ref.Parse(in)
		class := "rej:" + why
		if rm != nil {
			class = fmt.Sprintf("ok:%d", len(rm.TLVs))
		}
		c.Count("inputs."+classBucket(class), 1)
		c.Distinct(gen.HashBytes(in))
		if c.WantSample() && rm != nil && len(rm.TLVs) > 1 && len(in) < 120 {
			c.Sample(map[string]interface{}{"input_hex": core.Hex(in), "reference": class})
		}
		for _, mode := range modes {
			for ei, e := range entries {
				placed := place(in, mode, r.Intn(4), 1+r.Intn(64), r)
				orig := append([]byte(nil), placed...)
				var (
					m    *stun.Message
					seen []byte
					err  error
				)
				runtime.ReadMemStats(&ms0)
				p, stack := safely(func() { m, seen, err = e.run(placed, r) })
				runtime.ReadMemStats(&ms1)
				c.Eval(1)
				detail := func() map[string]interface{} {
					return map[string]interface{}{"entry": e.name, "placement": mode, "input_hex": core.Hex(in), "len": len(in)}
				}
				if p != nil {
					reportPanic(c, e.name, p, stack, detail())

					continue
				}
				if errors.Is(err, errHarnessAssert) {
					d := detail()
					d["error"] = err.Error()
					c.Violate("entry-contract", "contract:"+e.name, d)

					continue
				}
				alloc := int64(ms1.TotalAlloc - ms0.TotalAlloc)
				bound := 64*int64(len(in)) + 4096 + 2048 // + the reused destination built inside the measured window
				for rep := 0; alloc > bound && rep < 4; rep++ {
					// TotalAlloc is process-wide: the runtime's own sporadic allocations land in
					// the window now and then. An allocation caused by the input repeats; noise
					// does not. Re-measure the same call and keep the minimum.
					c.Count("alloc_remeasured", 1)
					again := place(in, mode, 0, 8, r)
					rr := gen.New(uint64(i))
					runtime.ReadMemStats(&ms0)
					_, _ = safely(func() { _, _, _ = e.run(again, rr) })
					runtime.ReadMemStats(&ms1)
					if a := int64(ms1.TotalAlloc - ms0.TotalAlloc); a < alloc {
						alloc = a
					}
				}
				if alloc > bound {
					d := detail()
					d["allocated"] = alloc
					c.Violate("alloc-bound", "alloc:"+e.name, d)
				} else {
					c.Max("max_alloc_bytes_per_call", alloc)
				}
				if !bytes.Equal(placed, orig) {
					c.Violate("input-mutated", "input-mutated:"+e.name, detail())
				}
				if errors.Is(err, errReaderFailed) {
					c.Count("reader_failures", 1)

					continue
				}
				want, wantWhy := rm, why
				if ei == len(entries)-1 { // ReadFrom may have seen a truncated datagram
					want, wantWhy = ref.Parse(seen)
				}
				if (err == nil) != (want != nil) {
					d := detail()
					d["lib_error"] = fmt.Sprint(err)
					d["reference"] = wantWhy
					c.Violate("verdict", "verdict:"+e.name, d)

					continue
				}
				if err != nil {
					c.Count("rejected", 1)

					continue
				}
				c.Count("accepted", 1)
				c.Count("values_checked", int64(len(m.Attributes)))
				if !stun.IsMessage(seen) {
					c.Violate("ismessage", "IsMessage", detail())
				}
				if d := diffRef(m, want, seen); d != "" {
					dd := detail()
					dd["diff"] = d
					c.Violate("content", "content:"+e.name, dd)
				}
				if !bytes.Equal(m.Raw, seen) {
					c.Violate("raw", "raw:"+e.name, detail())
				}
				if d := memview(m, want); d != "" {
					dd := detail()
					dd["diff"] = d
					c.Violate("memview", "memview:"+e.name, dd)
				}
				if len(m.Raw) > 0 && len(placed) > 0 {
					same := unsafe.SliceData(m.Raw) == unsafe.SliceData(placed)
					if e.copies && aliases(m.Raw, placed) {
						c.Violate("aliasing", "alias:"+e.name, detail())
					}
					if !e.copies && !same {
						c.Violate("in-place-moved", "moved:"+e.name, detail())
					}
				}
			}
		}
	}
	c.Section("inputs", n, func(i int64, r *gen.Rand) {
		judge(i, r, r.Hostile(seeds(), 65555), []int{0, 1})
	})
	// every value of the first two bytes, with an intact and with a damaged cookie: no type value is special
	tf := int64(65536)
	if c.Config == "race" {
		tf = 4096
	}
	c.Section("typefield", tf, func(i int64, r *gen.Rand) {
		spec := r.Spec(2, 12)
		in := spec.Wire()
		v := uint16(i)
		if tf < 65536 {
			v = uint16(r.U64())
		}
		in[0], in[1] = byte(v>>8), byte(v)
		if r.Bool() {
			in[4+r.Intn(4)] ^= 1 << uint(r.Intn(8))
		}
		judge(i, r, in, []int{r.Intn(2)})
	})
}

func classBucket(class string) string {
	if len(class) > 3 && class[:3] == "ok:" {
		if class == "ok:0" {
			return "ok.0attrs"
		}

		return "ok.with_attrs"
	}

	return class
}

// aliases reports whether the two slices' backing ranges [ptr, ptr+cap) intersect.
func aliases(a, b []byte) bool {
	pa := uintptr(unsafe.Pointer(unsafe.SliceData(a)))
	pb := uintptr(unsafe.Pointer(unsafe.SliceData(b)))
	ea, eb := pa+uintptr(cap(a)), pb+uintptr(cap(b))

	return pa < eb && pb < ea
}
