package props

import (
	"fmt"
	"os"
	"runtime"
	"sort"
	"strings"
	"sync"
	"sync/atomic"
	"time"

	"github.com/pion/stun/v3/verifharness/core"
	"github.com/pion/stun/v3/verifharness/gen"
)

// Pairwise control-point interleavings and perturbed concurrent runs of the
// client (DESIGN 3.7). Only the interleaving-robust oracles are applied.

type pairA struct {
	name  string
	opts  rigOpts
	setup func(r *rig)
	run   func(r *rig)
	role  string // role of the goroutine that executes A's control points ("A", or "client-internal" for a delivery)
}

type pairB struct {
	name string
	run  func(r *rig)
}

func pairAs() []pairA {
	startID0 := func(r *rig) { _ = r.start(r.newTx("Start", seqTID(0), 20)) }
	pastAll := func(r *rig) { r.tickAt(r.w.VNow() + int64(100*time.Second)) }

	return []pairA{
		{"Start(id0)", rigOpts{fallback: true}, func(*rig) {}, startID0, "A"},
		{"Start(id0)/no-retransmit", rigOpts{noRetransmit: true}, func(*rig) {}, startID0, "A"},
		{"Do(id0)", rigOpts{}, func(*rig) {}, func(r *rig) { _ = r.do(r.newTx("Do", seqTID(0), 24)) }, "A"},
		{"Tick(retransmission of id0)", rigOpts{fallback: true}, startID0, pastAll, "A"},
		{"Tick(retransmission of id0)/collector-close-does-not-wait", rigOpts{fallback: true, collNoWait: true}, startID0, pastAll, "A"},
		{"Tick(final timeout of id0)", rigOpts{noRetransmit: true}, startID0, pastAll, "A"},
		{"Delivery(response id0)", rigOpts{fallback: true}, startID0, func(r *rig) { r.deliver(seqTID(0), response(seqTID(0), "pair-A"), true) }, "client-internal"},
		{"Close", rigOpts{}, startID0, func(r *rig) { _ = r.close() }, "A"},
		{"Close/no-conn-close", rigOpts{noConnClose: true}, startID0, func(r *rig) { _ = r.close() }, "A"},
	}
}

func pairBs() []pairB {
	return []pairB{
		{"Start(id0)", func(r *rig) { _ = r.start(r.newTx("Start", seqTID(0), 20)) }},
		{"Start(id1)", func(r *rig) { _ = r.start(r.newTx("Start", seqTID(1), 28)) }},
		{"Resp(id0)", func(r *rig) { r.deliver(seqTID(0), response(seqTID(0), "pair-B"), true) }},
		{"Tick(past all)", func(r *rig) { r.tickAt(r.w.VNow() + int64(200*time.Second)) }},
		{"Close", func(r *rig) { _ = r.close() }},
		{"Resp(id0)+Start(id0)", func(r *rig) { // the first transaction completes and the same id is started again
			r.deliver(seqTID(0), response(seqTID(0), "pair-B-restart"), true)
			_ = r.start(r.newTx("Start", seqTID(0), 44))
		}},
		{"Do(id1)+Resp(id1)", func(r *rig) {
			t := r.newTx("Do", seqTID(1), 32)
			done := make(chan struct{})
			go func() { r.w.SetRole("B"); _ = r.do(t); close(done) }()
			pre := r.conn.NWrites()
			waitFor(func() bool { return t.returned() || r.conn.NWrites() > pre })
			r.deliver(seqTID(1), response(seqTID(1), "pair-B-do"), true)
		}},
	}
}

type cpHit struct {
	cp  string
	nth int
}

// discoverCPs runs A alone and lists the control points its goroutine passes (with occurrence numbers).
func discoverCPs(a pairA) []cpHit {
	o := a.opts
	o.keepLog, o.useRoles = true, true
	r, err := newRig(o)
	if err != nil {
		return nil
	}
	a.setup(r)
	from := r.w.Stamp()
	done := make(chan struct{})
	go func() { r.w.SetRole("A"); a.run(r); close(done) }()
	select {
	case <-done:
	case <-time.After(10 * time.Second):
	}
	counts := map[string]int{}
	var out []cpHit
	r.w.SetRole("driver")
	// reading the log: the world is quiescent now
	for _, e := range logSnapshot(r) {
		if e.Stamp <= from || e.Role != a.role {
			continue
		}
		if e.CP == "conn.Read" {
			continue // the reader parked in Read is not "inside A"
		}
		counts[e.CP]++
		out = append(out, cpHit{e.CP, counts[e.CP]})
	}
	_ = r.close()
	for _, t := range r.allTxs() {
		waitFor(t.returned)
	}

	return out
}

type pairOutcome struct {
	probs        []rigProblem
	r            *rig
	parked       bool
	bBlocked     bool
	inconclusive bool
	sig          uint64
}

// runPair executes: setup; A until it parks at (cp,nth); B to completion (or blocked); optional write failure; release A;
// then a follow-up phase (two fresh transactions answered) and Close; judge.
func runPair(a pairA, b pairB, hit cpHit, failWrite bool, oracles oracleSet) pairOutcome {
	var out pairOutcome
	o := a.opts
	o.useRoles = true
	r, err := newRig(o)
	if err != nil {
		out.probs = []rigProblem{{"newclient", "newclient", err.Error()}}

		return out
	}
	out.r = r
	r.w.SetRole("driver")
	a.setup(r)
	p := r.w.AddPause(hit.cp, a.role, hit.nth)
	aDone, bDone := make(chan struct{}), make(chan struct{})
	go func() { r.w.SetRole("A"); a.run(r); close(aDone) }()
	select {
	case <-p.Parked:
		out.parked = true
	case <-aDone:
		// A finished without reaching the control point (occurrence numbers vary with the schedule): nothing to interleave
		p.Release()
	case <-time.After(10 * time.Second):
		p.Release()
		out.inconclusive = true
	}
	if out.parked {
		go func() { r.w.SetRole("B"); b.run(r); close(bDone) }()
		select {
		case <-bDone:
		case <-time.After(100 * time.Millisecond):
			out.bBlocked = true // B waits for something A holds: the order is "B after A"
		}
		if failWrite {
			r.conn.FailNext(1)
		}
		p.Release()
	} else {
		close(bDone)
	}
	stuck := func(what string) {
		d1 := allStacks()
		time.Sleep(500 * time.Millisecond)
		d2 := allStacks()
		f1, f2 := agentFrames(d1), agentFrames(d2)
		if len(f1) > 0 && fmt.Sprint(f1) == fmt.Sprint(f2) {
			out.probs = append(out.probs, rigProblem{"stuck", "stuck:" + f1[0], fmt.Sprintf("%s did not finish; goroutines parked in %v", what, f1)})
		} else {
			out.inconclusive = true
		}
	}
	if !strings.HasPrefix(a.name, "Do") { // a pending Do legitimately waits for its handler; the Close below ends it
		select {
		case <-aDone:
		case <-time.After(15 * time.Second):
			stuck("operation A")

			return out
		}
	}
	select {
	case <-bDone:
	case <-time.After(15 * time.Second):
		stuck("operation B")

		return out
	}
	// follow-up phase: the client (if still open) must serve two fresh transactions correctly; this is where
	// corruption of recycled internal objects becomes observable
	if r.firstCloseReturn() == 0 && !anyCloseCalled(r) {
		ids := [][12]byte{seqTID(4), seqTID(5)}
		var fts []*tx
		for k, id := range ids {
			t := r.newTx("Start", id, 36+4*k)
			fts = append(fts, t)
			_ = r.start(t)
		}
		for k, id := range ids {
			r.deliver(id, response(id, fmt.Sprintf("follow-up-%d", k)), true)
		}
		// ... and the id of the scenario itself can be started again once it is free (a leftover registration anywhere
		// must not make a refused Start reachable by a later response)
		if !inFlight(r, seqTID(0)) {
			again := r.newTx("Start", seqTID(0), 48)
			_ = r.start(again)
			r.deliver(seqTID(0), response(seqTID(0), "follow-up-same-id"), true)
			if again.RetErr == nil {
				fts = append(fts, again)
			}
		}
		for _, t := range fts {
			if t.RetErr == nil && len(t.invocations()) != 1 && oracles.exactlyOnce {
				out.probs = append(out.probs, rigProblem{"follow-up-not-served", "follow-up-not-served",
					fmt.Sprintf("follow-up transaction #%d (id %x) answered, handler invocations: %v", t.Seq, t.ID[:4], classesOf(t.invocations()))})
			}
		}
	}
	if !anyCloseCalled(r) {
		_ = r.close()
	}
	for _, t := range r.allTxs() {
		if !waitFor(t.returned) {
			break
		}
	}
	out.probs = append(out.probs, r.judge(oracles, true)...)
	if oracles.closeRules {
		out.probs = append(out.probs, r.closeAccounting()...)
	}
	out.sig = r.w.Signature()

	return out
}

// inFlight: a transaction with this id was started successfully and has not seen its handler yet.
func inFlight(r *rig, id [12]byte) bool {
	for _, t := range r.allTxs() {
		if t.ID == id && t.Kind != "Indicate" && (!t.returned() || (t.RetErr == nil && len(t.invocations()) == 0)) {
			return true
		}
	}

	return false
}

func anyCloseCalled(r *rig) bool {
	r.mu.Lock()
	defer r.mu.Unlock()

	return len(r.closes) > 0
}

func logSnapshot(r *rig) []simLogEntry {
	log := r.w.LogCopy()
	out := make([]simLogEntry, len(log))
	for i, e := range log {
		out[i] = simLogEntry{e.Stamp, e.CP, e.Role}
	}

	return out
}

type simLogEntry struct {
	Stamp int64
	CP    string
	Role  string
}

var (
	pairPlanOnce sync.Once  //nolint:gochecknoglobals
	pairPlan     []pairCase //nolint:gochecknoglobals
)

type pairCase struct {
	a    pairA
	b    pairB
	hit  cpHit
	fail bool
}

func buildPairPlan() []pairCase {
	pairPlanOnce.Do(func() {
		for _, a := range pairAs() {
			hits := discoverCPs(a)
			seen := map[cpHit]bool{}
			for _, h := range hits {
				if seen[h] {
					continue
				}
				seen[h] = true
				for _, b := range pairBs() {
					for _, f := range []bool{false, true} {
						pairPlan = append(pairPlan, pairCase{a, b, h, f})
					}
				}
			}
		}
	})

	return pairPlan
}

// clientPairwise runs every (A, control point, B, write outcome) scenario.
func clientPairwise(c *core.Ctx, oracles oracleSet) {
	full := buildPairPlan()
	plan := full[:0:0]
	for _, pc := range full {
		// C15 presupposes a collector whose Close waits for a running tick (as the library's own does): a handler
		// that a still-running tick invokes after Close returned is outside its statement
		if oracles.closeRules && pc.a.opts.collNoWait {
			continue
		}
		plan = append(plan, pc)
	}
	sigs := map[uint64]struct{}{}
	c.Section("pairwise-interleavings", int64(len(plan)), func(i int64, _ *gen.Rand) {
		pc := plan[i]
		name := fmt.Sprintf("A=%s paused at %s#%d, B=%s, next write %s", pc.a.name, pc.hit.cp, pc.hit.nth, pc.b.name, map[bool]string{false: "ok", true: "fails"}[pc.fail])
		out := runPair(pc.a, pc.b, pc.hit, pc.fail, oracles)
		if out.inconclusive {
			c.Inconclusive(1)

			return
		}
		c.Eval(1)
		if out.parked {
			c.Count("pairwise.parked", 1)
			c.Distinct(gen.HashString(name))
		} else {
			c.Count("pairwise.control_point_not_reached", 1)
		}
		if out.bBlocked {
			c.Count("pairwise.B_blocked_until_A_released", 1)
		}
		sigs[out.sig] = struct{}{}
		if len(out.probs) > 0 {
			reportRigProblems(c, out.probs, out.r, map[string]interface{}{"scenario": name})
		}
		if c.WantSample() && i%41 == 0 {
			c.Sample(map[string]interface{}{"scenario": name})
		}
	})
	c.Count("pairwise.distinct_control_point_orders", int64(len(sigs)))
}

// ---- perturbed concurrent runs ----

type stressCfg struct {
	goroutines int
	opsPerG    int
	opts       rigOpts
	closers    int
	dupIDs     bool
}

type stressResult struct {
	probs        []rigProblem
	r            *rig
	inconclusive bool
	overlap      int
	sig          uint64
	txs          int
	cps          int64
}

func runStress(seed uint64, idx int64, cfg stressCfg, oracles oracleSet) stressResult {
	var res stressResult
	pr := gen.Derive(seed, uint64(idx), 0x57E55)
	var pmu sync.Mutex
	o := cfg.opts
	o.perturb = func(string, string) int {
		pmu.Lock()
		defer pmu.Unlock()
		if pr.Chance(1, 3) {
			return 1 + pr.Intn(3)
		}

		return 0
	}
	r, err := newRig(o)
	if err != nil {
		res.probs = []rigProblem{{"newclient", "newclient", err.Error()}}

		return res
	}
	res.r = r
	var wg sync.WaitGroup
	stop := make(chan struct{})
	var idSeq int32
	freshID := func(rk *gen.Rand) [12]byte {
		n := atomic.AddInt32(&idSeq, 1)
		id := rk.TID()
		id[0], id[1] = byte(n>>8), byte(n)
		if cfg.dupIDs && rk.Chance(1, 6) {
			// one-bit-apart families and outright duplicates
			id = seqTID(int8(rk.Intn(3)))
			if rk.Bool() {
				id[5] ^= 1 << uint(rk.Intn(8))
			}
		}

		return id
	}
	// issuers
	issuersDone := make(chan struct{})
	var doTxs []*tx
	var doMu sync.Mutex
	for g := 0; g < cfg.goroutines; g++ {
		wg.Add(1)
		rk := gen.Derive(seed, uint64(idx), uint64(g), 0x155)
		go func() {
			defer wg.Done()
			for k := 0; k < cfg.opsPerG; k++ {
				switch x := rk.Intn(20); {
				case x < 10:
					_ = r.start(r.newTx("Start", freshID(rk), 20+4*rk.Intn(40)))
				case x < 15:
					t := r.newTx("Do", freshID(rk), 20+4*rk.Intn(40))
					doMu.Lock()
					doTxs = append(doTxs, t)
					doMu.Unlock()
					_ = r.do(t)
				case x < 18:
					_ = r.start(r.newTx("Indicate", freshID(rk), 20))
				default:
					r.client.SetRTO(time.Duration(100+rk.Intn(400)) * time.Millisecond)
				}
				if rk.Chance(1, 4) {
					runtime.Gosched()
				}
			}
		}()
	}
	go func() { wg.Wait(); close(issuersDone) }()
	// responder: answers requests seen on the wire in random order, with duplicates, unknown ids and garbage
	var aux sync.WaitGroup
	aux.Add(1)
	go func() {
		defer aux.Done()
		rk := gen.Derive(seed, uint64(idx), 0x4E59)
		seen := 0
		var pending [][12]byte
		for {
			select {
			case <-stop:
				return
			default:
			}
			ws := r.conn.Writes()
			for ; seen < len(ws); seen++ {
				if len(ws[seen].Bytes) >= 20 && !ws[seen].Failed {
					var id [12]byte
					copy(id[:], ws[seen].Bytes[8:20])
					pending = append(pending, id)
				}
			}
			if len(pending) == 0 {
				runtime.Gosched()

				continue
			}
			k := rk.Intn(len(pending))
			id := pending[k]
			switch x := rk.Intn(20); {
			case x < 12:
				pending = append(pending[:k], pending[k+1:]...)
				if !r.deliverAsync(id, response(id, fmt.Sprintf("stress-%x-%d", id[:2], seen)), true) {
					return
				}
			case x < 14: // answer but keep it: a duplicate will follow
				if !r.deliverAsync(id, response(id, fmt.Sprintf("stress-dup-%x-%d", id[:2], rk.Intn(1000))), true) {
					return
				}
			case x < 16:
				u := rk.TID()
				if !r.deliverAsync(u, response(u, "stress-unknown"), true) {
					return
				}
			case x < 18:
				if !r.deliverAsync(id, rk.Bytes(rk.Intn(64)), false) {
					return
				}
			default: // drop it: it will time out
				pending = append(pending[:k], pending[k+1:]...)
			}
		}
	}()
	// ticker: advances virtual time and collects
	aux.Add(1)
	go func() {
		defer aux.Done()
		rk := gen.Derive(seed, uint64(idx), 0x71C4)
		for {
			select {
			case <-stop:
				return
			default:
			}
			r.tickAt(r.w.VNow() + int64(time.Duration(rk.Intn(400))*time.Millisecond))
			for k := rk.Intn(30); k > 0; k-- {
				runtime.Gosched()
			}
		}
	}()
	// closers: fire once a random share of the work is done
	closeAfter := int32(gen.Derive(seed, uint64(idx), 0xC105E).Intn(cfg.goroutines*cfg.opsPerG + 1))
	var cwg sync.WaitGroup
	for k := 0; k < cfg.closers; k++ {
		cwg.Add(1)
		go func() {
			defer cwg.Done()
			for atomic.LoadInt32(&r.seq) < closeAfter {
				select {
				case <-issuersDone:
					_ = r.close()

					return
				default:
					runtime.Gosched()
				}
			}
			_ = r.close()
		}()
	}
	finished := make(chan struct{})
	go func() { wg.Wait(); cwg.Wait(); close(finished) }()
	select {
	case <-finished:
	case <-time.After(30 * time.Second):
		d1 := allStacks()
		time.Sleep(time.Second)
		d2 := allStacks()
		f1, f2 := agentFrames(d1), agentFrames(d2)
		close(stop)
		if len(f1) > 0 && fmt.Sprint(f1) == fmt.Sprint(f2) {
			// is it only Do calls waiting for handlers that never came? then the exactly-once oracle owns it
			res.probs = append(res.probs, r.judge(oracles, false)...)
			res.probs = append(res.probs, rigProblem{"stuck", "stuck:" + f1[0], fmt.Sprintf("goroutines parked in %v after 30 s with the closers done or blocked", f1)})
			fmt.Fprintln(os.Stderr, "stress: goroutines stuck; leaving them behind")

			return res
		}
		res.inconclusive = true

		return res
	}
	close(stop)
	if !anyCloseCalled(r) || r.firstCloseReturn() == 0 {
		_ = r.close()
	}
	r.conn.ReleaseRead() // lets a responder blocked in Deliver see the closed connection
	aux.Wait()
	for _, t := range doTxs {
		if !waitFor(t.returned) {
			break
		}
	}
	res.probs = append(res.probs, r.judge(oracles, true)...)
	if oracles.closeRules {
		res.probs = append(res.probs, r.closeAccounting()...)
	}
	res.sig = r.w.Signature()
	res.cps = r.w.CPCount()
	txs := r.allTxs()
	res.txs = len(txs)
	// overlapping operation pairs (by call/return stamps)
	type iv struct{ a, b int64 }
	var ivs []iv
	for _, t := range txs {
		if t.returned() {
			ivs = append(ivs, iv{t.CallStamp, t.RetStamp})
		}
	}
	sort.Slice(ivs, func(i, j int) bool { return ivs[i].a < ivs[j].a })
	for i := range ivs {
		for j := i + 1; j < len(ivs) && ivs[j].a < ivs[i].b; j++ {
			res.overlap++
		}
	}

	return res
}

func clientStress(c *core.Ctx, oracles oracleSet, n int64, mk func(i int64, r *gen.Rand) stressCfg) {
	sigs := map[uint64]struct{}{}
	c.Section("perturbed-concurrent-runs", n, func(i int64, r *gen.Rand) {
		cfg := mk(i, r)
		res := runStress(c.Seed, i, cfg, oracles)
		if res.inconclusive || (res.overlap == 0 && len(res.probs) == 0) {
			c.Inconclusive(1)

			return
		}
		c.Eval(1)
		c.Count("stress.transactions", int64(res.txs))
		c.Count("stress.overlapping_operation_pairs", int64(res.overlap))
		c.Count("stress.control_point_events", res.cps)
		sigs[res.sig] = struct{}{}
		c.Distinct(res.sig)
		if len(res.probs) > 0 {
			reportRigProblems(c, res.probs, res.r, map[string]interface{}{"run": fmt.Sprintf("%d goroutines x %d ops, %d closers, client %s", cfg.goroutines, cfg.opsPerG, cfg.closers, cfg.opts)})
		}
	})
	c.Count("stress.distinct_interleaving_signatures", int64(len(sigs)))
}

func c10Pairwise(c *core.Ctx) { clientPairwise(c, c10Oracles) }

func c10Stress(c *core.Ctx) {
	clientStress(c, c10Oracles, c.N(300, 10000), func(i int64, r *gen.Rand) stressCfg {
		return stressCfg{
			goroutines: 2 + r.Intn(7), opsPerG: 2 + r.Intn(7), closers: 1 + r.Intn(2),
			opts: rigOpts{fallback: i%2 == 0, noRetransmit: i%5 == 0}, dupIDs: i%3 == 0,
		}
	})
}
