package props

import (
	"bytes"
	"crypto/ecdsa"
	"crypto/elliptic"
	crand "crypto/rand"
	"crypto/tls"
	"crypto/x509"
	"crypto/x509/pkix"
	"errors"
	"fmt"
	"math/big"
	"net"
	"os"
	"runtime"
	"strconv"
	"strings"
	"sync"
	"syscall"
	"time"

	"github.com/pion/stun/v3"
	"github.com/pion/stun/v3/verifharness/core"
	"github.com/pion/stun/v3/verifharness/gen"
	"github.com/pion/transport/v3"
)

// C17: URIs get RFC 7064/7065 defaults, round-trip, and dial the transport they name.
func init() { core.Register("C17", c17) }

// ---- part 1: ParseURI against components-by-construction ----

type uriCase struct {
	raw    string
	scheme stun.SchemeType
	host   string // expected Host
	port   int    // expected Port when accepted
	proto  stun.ProtoType
	expect int // 1 accept, 0 reject, -1 undetermined (invariants + round trip only)
	why    string
}

var (
	c17Schemes = []string{"stun", "stuns", "turn", "turns"} //nolint:gochecknoglobals
	c17Hosts   = []struct{ raw, host string }{              //nolint:gochecknoglobals
		{"example.org", "example.org"}, {"a", "a"}, {"1.2.3.4", "1.2.3.4"}, {"[::1]", "::1"},
		{"[2001:db8::7]", "2001:db8::7"}, {"[fe80::1%25eth0]", "fe80::1%25eth0"}, {"xn--bcher-kva.example", "xn--bcher-kva.example"},
		// IPv4-mapped IPv6 literals in several spellings: they are IPv6 hosts and stay what was written
		{"[::ffff:192.0.2.7]", "::ffff:192.0.2.7"}, {"[::ffff:c000:207]", "::ffff:c000:207"}, {"[0:0:0:0:0:ffff:1.2.3.4]", "0:0:0:0:0:ffff:1.2.3.4"},
		{"[2001:db8::ffff:1.2.3.4]", "2001:db8::ffff:1.2.3.4"}, {"[::]", "::"}, {"[64:ff9b::192.0.2.33]", "64:ff9b::192.0.2.33"},
	}
	c17Ports = []struct { //nolint:gochecknoglobals
		raw    string
		port   int // -1: default
		expect int
	}{
		{"", -1, 1}, {":0", 0, 1}, {":1", 1, 1}, {":3478", 3478, 1}, {":5349", 5349, 1}, {":65535", 65535, 1},
		{":65536", 0, 0}, {":99999", 0, 0}, {":-1", 0, 0}, {":4294967297", 0, 0}, {":x", 0, 0}, {":12a", 0, 0},
		{":+80", 80, -1}, {":", 0, -1},
		// RFC 7064/7065: port = *DIGIT, a decimal number (leading zeros are digits; radix prefixes and separators are not)
		{":080", 80, 1}, {":010", 10, 1}, {":03478", 3478, 1}, {":0000", 0, 1}, {":00065535", 65535, 1},
		{":0x50", 0, 0}, {":0X1F", 0, 0}, {":0b101", 0, 0}, {":0o17", 0, 0}, {":1_000", 0, 0}, {":1e3", 0, 0}, {":٣٤٧٨", 0, 0}, {":34 78", 0, 0},
	}
	c17Queries = []struct { //nolint:gochecknoglobals
		raw    string
		proto  stun.ProtoType // for turn/turns; 0 = scheme default
		expect int            // for turn/turns
	}{
		{"", 0, 1}, {"?transport=udp", stun.ProtoTypeUDP, 1}, {"?transport=tcp", stun.ProtoTypeTCP, 1},
		{"?transport=xyz", 0, 0}, {"?transport=", 0, 0}, {"?transport=udp&x=1", 0, 0}, {"?x=1", 0, 0}, {"?x", 0, 0},
		{"?transport=sctp", 0, 0}, {"?%zz", 0, 0}, {"?a;b", 0, 0}, {"?transport=udp;x", 0, 0}, {"?%zz=1&transport=udp", 0, 0},
		{"?transport=udp&transport=tcp", 0, -1}, {"?", 0, -1}, {"?&", 0, -1}, {"?transport=UDP", 0, -1},
	}
)

func c17Build(si, hi, pi, qi int) uriCase {
	sc := c17Schemes[si]
	h, p, q := c17Hosts[hi], c17Ports[pi], c17Queries[qi]
	u := uriCase{raw: sc + ":" + h.raw + p.raw + q.raw, scheme: stun.NewSchemeType(sc), host: h.host, expect: 1}
	secure := sc == "stuns" || sc == "turns"
	u.port = p.port
	if p.port < 0 {
		u.port = 3478
		if secure {
			u.port = 5349
		}
	}
	merge := func(e int, why string) {
		if e == 0 {
			u.expect, u.why = 0, why
		} else if e < 0 && u.expect == 1 {
			u.expect, u.why = -1, why
		}
	}
	merge(p.expect, "port "+p.raw)
	if sc == "stun" || sc == "stuns" {
		u.proto = stun.ProtoTypeUDP
		if sc == "stuns" {
			u.proto = stun.ProtoTypeTCP
		}
		switch q.raw {
		case "":
		case "?", "?&":
			merge(-1, "separator-only query")
		case "?;":
			merge(0, "stun/stuns with a query")
		default:
			merge(0, "stun/stuns with a query")
		}
	} else {
		u.proto = q.proto
		if u.proto == 0 {
			u.proto = stun.ProtoTypeUDP
			if sc == "turns" {
				u.proto = stun.ProtoTypeTCP
			}
		}
		merge(q.expect, "query "+q.raw)
	}

	return u
}

// c17Invariants checks what the statement demands of every accepted URI, and the round trip.
// c17Kept: strings returned by URI.String() earlier, with a private copy of what they read then.
var c17Kept [64][2]string //nolint:gochecknoglobals
var c17KeptN int          //nolint:gochecknoglobals
var c17KeptMu sync.Mutex  //nolint:gochecknoglobals

func c17Invariants(c *core.Ctx, raw string, u *stun.URI) bool {
	detail := map[string]interface{}{"input": raw, "uri": fmt.Sprintf("%+v", *u)}
	formatted := u.String()
	// "formatting" is what Go code does with values: the URI by value and by pointer through the fmt verbs, as an element
	// of a slice, through the Stringer interface. All of them give the text the method gives.
	uv := *u
	forms := []string{fmt.Sprint(uv), fmt.Sprintf("%v", uv), fmt.Sprintf("%s", uv), fmt.Sprint(u), fmt.Sprintf("%s", u), strings.Trim(fmt.Sprint([]stun.URI{uv}), "[]")}
	if st, ok := interface{}(uv).(fmt.Stringer); ok {
		forms = append(forms, st.String())
	} else {
		forms = append(forms, "(a URI value is not a fmt.Stringer)")
	}
	for k, f := range forms {
		if f != formatted {
			detail["form"], detail["formatted"], detail["method_result"] = k, f, formatted
			c.Violate("roundtrip", "roundtrip:formatted-by-fmt", detail)

			return false
		}
	}
	c17KeptMu.Lock()
	for _, kv := range c17Kept {
		if kv[0] != kv[1] {
			c.Violate("roundtrip", "string-changed-after-it-was-returned", map[string]interface{}{"returned_then": kv[1], "reads_now": kv[0]})
			c17KeptMu.Unlock()

			return false
		}
	}
	c17Kept[c17KeptN%len(c17Kept)] = [2]string{formatted, strings.Clone(formatted)}
	c17KeptN++
	c17KeptMu.Unlock()
	if u.Scheme < stun.SchemeTypeSTUN || u.Scheme > stun.SchemeTypeTURNS {
		c.Violate("accepted-unknown-scheme", "invariant:scheme", detail)

		return false
	}
	if u.Host == "" {
		c.Violate("accepted-empty-host", "invariant:host", detail)

		return false
	}
	if u.Port < 0 || u.Port > 65535 {
		c.Violate("accepted-port-out-of-range", "invariant:port", detail)

		return false
	}
	if secure := u.Scheme == stun.SchemeTypeSTUNS || u.Scheme == stun.SchemeTypeTURNS; u.IsSecure() != secure {
		c.Violate("wrong-components", "invariant:IsSecure", detail)

		return false
	}
	if stun.NewProtoType(u.Proto.String()) != u.Proto || stun.NewSchemeType(u.Scheme.String()) != u.Scheme {
		c.Violate("wrong-components", "invariant:names", detail)

		return false
	}
	if u.Proto != stun.ProtoTypeUDP && u.Proto != stun.ProtoTypeTCP {
		c.Violate("accepted-without-transport", "invariant:proto", detail)

		return false
	}
	if (u.Scheme == stun.SchemeTypeSTUN && u.Proto != stun.ProtoTypeUDP) || (u.Scheme == stun.SchemeTypeSTUNS && u.Proto != stun.ProtoTypeTCP) {
		c.Violate("wrong-stun-transport", "invariant:stun-proto", detail)

		return false
	}
	s := u.String()
	back, err := stun.ParseURI(s)
	if err != nil || *back != *u {
		detail["formatted"] = s
		detail["reparsed"] = fmt.Sprintf("%+v err=%v", back, err)
		c.Violate("roundtrip", "roundtrip", detail)

		return false
	}
	c.Count("roundtrips_checked", 1)

	return true
}

// ---- part 2: DialURI with an injected network ----

type fakeConn struct {
	mu      sync.Mutex
	writes  [][]byte
	closed  chan struct{}
	once    sync.Once
	wrote   chan struct{}
	wonce   sync.Once
	network string
	addr    string
	raddr   net.Addr
}

func newFakeConn(network, addr string, raddr net.Addr) *fakeConn {
	return &fakeConn{closed: make(chan struct{}), wrote: make(chan struct{}), network: network, addr: addr, raddr: raddr}
}

var errFakeClosed = errors.New("fake conn closed")

func (f *fakeConn) Read([]byte) (int, error) { <-f.closed; return 0, errFakeClosed }
func (f *fakeConn) Write(b []byte) (int, error) {
	select {
	case <-f.closed:
		return 0, errFakeClosed
	default:
	}
	f.mu.Lock()
	f.writes = append(f.writes, append([]byte(nil), b...))
	f.mu.Unlock()
	f.wonce.Do(func() { close(f.wrote) })

	return len(b), nil
}
func (f *fakeConn) Close() error                           { f.once.Do(func() { close(f.closed) }); return nil }
func (f *fakeConn) LocalAddr() net.Addr                    { return &net.UDPAddr{IP: net.IPv4(127, 0, 0, 1), Port: 50000} }
func (f *fakeConn) RemoteAddr() net.Addr                   { return f.raddr }
func (f *fakeConn) SetDeadline(time.Time) error            { return nil }
func (f *fakeConn) SetReadDeadline(time.Time) error        { return nil }
func (f *fakeConn) SetWriteDeadline(time.Time) error       { return nil }
func (f *fakeConn) SetReadBuffer(int) error                { return nil }
func (f *fakeConn) SetWriteBuffer(int) error               { return nil }
func (f *fakeConn) ReadFrom([]byte) (int, net.Addr, error) { <-f.closed; return 0, nil, errFakeClosed }
func (f *fakeConn) ReadFromUDP([]byte) (int, *net.UDPAddr, error) {
	<-f.closed

	return 0, nil, errFakeClosed
}
func (f *fakeConn) ReadMsgUDP([]byte, []byte) (int, int, int, *net.UDPAddr, error) {
	<-f.closed

	return 0, 0, 0, nil, errFakeClosed
}
func (f *fakeConn) WriteTo(p []byte, _ net.Addr) (int, error)        { return f.Write(p) }
func (f *fakeConn) WriteToUDP(b []byte, _ *net.UDPAddr) (int, error) { return f.Write(b) }
func (f *fakeConn) WriteMsgUDP(b, _ []byte, _ *net.UDPAddr) (int, int, error) {
	n, err := f.Write(b)

	return n, 0, err
}
func (f *fakeConn) allWrites() [][]byte {
	f.mu.Lock()
	defer f.mu.Unlock()

	return append([][]byte(nil), f.writes...)
}

type fakeNet struct {
	mu    sync.Mutex
	dials []*fakeConn
	// failNetwork: dials of this network ("udp"/"tcp") fail with failErr
	failNetwork string
	failErr     error
	attempts    []string
}

func (n *fakeNet) add(f *fakeConn) { n.mu.Lock(); n.dials = append(n.dials, f); n.mu.Unlock() }

func (n *fakeNet) Dial(network, address string) (net.Conn, error) {
	n.mu.Lock()
	n.attempts = append(n.attempts, "Dial:"+network)
	fail := n.failNetwork == network
	n.mu.Unlock()
	if fail {
		return nil, n.failErr
	}
	f := newFakeConn("Dial:"+network, address, &net.TCPAddr{IP: net.IPv4(192, 0, 2, 1), Port: 1})
	n.add(f)

	return f, nil
}

func (n *fakeNet) DialUDP(network string, _, raddr *net.UDPAddr) (transport.UDPConn, error) {
	f := newFakeConn("DialUDP:"+network, raddr.String(), raddr)
	n.add(f)

	return f, nil
}
func (n *fakeNet) ListenPacket(string, string) (net.PacketConn, error) {
	return nil, transport.ErrNotSupported
}
func (n *fakeNet) ListenUDP(string, *net.UDPAddr) (transport.UDPConn, error) {
	return nil, transport.ErrNotSupported
}
func (n *fakeNet) ListenTCP(string, *net.TCPAddr) (transport.TCPListener, error) {
	return nil, transport.ErrNotSupported
}
func (n *fakeNet) DialTCP(string, *net.TCPAddr, *net.TCPAddr) (transport.TCPConn, error) {
	return nil, transport.ErrNotSupported
}
func (n *fakeNet) ResolveIPAddr(string, string) (*net.IPAddr, error) {
	return nil, transport.ErrNotSupported
}
func (n *fakeNet) ResolveUDPAddr(string, string) (*net.UDPAddr, error) {
	return nil, transport.ErrNotSupported
}
func (n *fakeNet) ResolveTCPAddr(string, string) (*net.TCPAddr, error) {
	return nil, transport.ErrNotSupported
}
func (n *fakeNet) Interfaces() ([]*transport.Interface, error) { return nil, transport.ErrNotSupported }
func (n *fakeNet) InterfaceByIndex(int) (*transport.Interface, error) {
	return nil, transport.ErrNotSupported
}
func (n *fakeNet) InterfaceByName(string) (*transport.Interface, error) {
	return nil, transport.ErrNotSupported
}
func (n *fakeNet) CreateDialer(*net.Dialer) transport.Dialer { return nil }

// c17Dial dials u through a recording network, sends one indication, and classifies what was seen.
type dialObs struct {
	err          error
	network      string // "Dial:udp", "Dial:tcp", "DialUDP:udp" or ""
	address      string
	nDials       int
	firstBytes   []byte
	plaintext    bool   // the STUN indication appeared verbatim on the wire
	hello        string // "tls", "dtls" or ""
	sni          bool   // the host name appears in the hello
	inconclusive bool
}

func c17Dial(u *stun.URI) (o dialObs) {
	fn := &fakeNet{}
	cfg := &stun.DialConfig{Net: fn}
	cfg.TLSConfig.InsecureSkipVerify = true  //nolint:gosec
	cfg.DTLSConfig.InsecureSkipVerify = true //nolint:gosec
	var client *stun.Client
	p, stack := safely(func() { client, o.err = stun.DialURI(u, cfg) })
	if p != nil {
		o.err = fmt.Errorf("panic: %v\n%s", p, stack)

		return o
	}
	fn.mu.Lock()
	o.nDials = len(fn.dials)
	var fc *fakeConn
	if o.nDials > 0 {
		fc = fn.dials[0]
		o.network, o.address = fc.network, fc.addr
	}
	fn.mu.Unlock()
	if o.err != nil || client == nil {
		return o
	}
	ind := stun.MustBuild(stun.TransactionID, stun.NewType(stun.MethodBinding, stun.ClassIndication), stun.NewSoftware("c17-plaintext-marker"))
	sent := make(chan struct{})
	go func() { _ = client.Indicate(ind); close(sent) }()
	select {
	case <-fc.wrote:
	case <-time.After(10 * time.Second):
		o.inconclusive = true
	}
	if !o.inconclusive {
		// let a possible second write (plaintext after hello, or hello fragments) land
		select {
		case <-sent:
		case <-time.After(50 * time.Millisecond):
		}
	}
	_ = client.Close()
	_ = fc.Close()
	select {
	case <-sent:
	case <-time.After(10 * time.Second):
		o.inconclusive = true
	}
	ws := fc.allWrites()
	var all []byte
	for _, w := range ws {
		all = append(all, w...)
	}
	if len(ws) > 0 {
		o.firstBytes = ws[0]
		if len(o.firstBytes) > 16 {
			o.firstBytes = o.firstBytes[:16]
		}
	}
	o.plaintext = bytes.Contains(all, []byte("c17-plaintext-marker")) || bytes.Contains(all, ind.Raw[:20])
	if len(ws) > 0 && len(ws[0]) >= 3 && ws[0][0] == 0x16 {
		switch {
		case ws[0][1] == 0x03:
			o.hello = "tls"
		case ws[0][1] == 0xfe:
			o.hello = "dtls"
		}
	}
	o.sni = u.Host != "" && bytes.Contains(all, []byte(u.Host))

	return o
}

func c17CheckDial(c *core.Ctx, u *stun.URI, fromParse bool, what string) {
	c.Eval(1)
	o := c17Dial(u)
	detail := map[string]interface{}{
		"what": what, "uri": fmt.Sprintf("%+v", *u), "err": fmt.Sprint(o.err), "dial": o.network, "address": o.address,
		"dials": o.nDials, "first_bytes_hex": core.Hex(o.firstBytes), "plaintext_seen": o.plaintext, "hello": o.hello, "sni_seen": o.sni,
	}
	if o.inconclusive {
		c.Inconclusive(1)

		return
	}
	secure := u.Scheme == stun.SchemeTypeSTUNS || u.Scheme == stun.SchemeTypeTURNS
	if o.err != nil && strings.HasPrefix(o.err.Error(), "panic:") {
		c.Violate("dial-panic", "dial-panic", detail)

		return
	}
	// the rule for every combination: a secure scheme is never dialled in plaintext
	if secure && o.err == nil && (o.plaintext || o.hello == "") {
		c.Violate("secure-scheme-in-plaintext", "secure-plaintext", detail)

		return
	}
	if secure && o.err != nil && o.nDials == 0 && !errors.Is(o.err, stun.ErrUnsupportedURI) && !fromParse {
		c.Violate("secure-unsupported-error", "secure-error-class", detail)

		return
	}
	c.Count("dial."+u.Scheme.String()+"/"+u.Proto.String()+"="+o.network+"+"+o.hello, 1)
	if !fromParse {
		return
	}
	// a URI ParseURI can produce: exactly the transport it denotes
	wantAddr := net.JoinHostPort(u.Host, strconv.Itoa(u.Port))
	var wantNet, wantHello string
	switch {
	case u.Scheme == stun.SchemeTypeSTUN:
		wantNet = "Dial:udp"
	case u.Scheme == stun.SchemeTypeTURN && u.Proto == stun.ProtoTypeUDP:
		wantNet = "Dial:udp"
	case u.Scheme == stun.SchemeTypeTURN && u.Proto == stun.ProtoTypeTCP:
		wantNet = "Dial:tcp"
	case u.Proto == stun.ProtoTypeTCP: // stuns, turns over TCP
		wantNet, wantHello = "Dial:tcp", "tls"
	default: // turns over UDP
		wantNet, wantHello = "DialUDP:udp", "dtls"
	}
	if o.err != nil {
		c.Violate("dial-failed", "dial-failed", detail)

		return
	}
	if o.network != wantNet || o.nDials != 1 || o.hello != wantHello || (wantHello == "" && !o.plaintext) {
		detail["want"] = wantNet + "+" + wantHello
		c.Violate("wrong-transport", "wrong-transport", detail)

		return
	}
	if wantNet != "DialUDP:udp" && o.address != wantAddr {
		detail["want_address"] = wantAddr
		c.Violate("wrong-address", "wrong-address", detail)

		return
	}
	if wantNet == "DialUDP:udp" {
		// resolved by the process resolver: compare the port and, for IP literals, the address
		host, port, _ := net.SplitHostPort(o.address)
		if port != strconv.Itoa(u.Port) || (net.ParseIP(u.Host) != nil && !net.ParseIP(host).Equal(net.ParseIP(u.Host))) {
			detail["want_address"] = wantAddr
			c.Violate("wrong-address", "wrong-address", detail)

			return
		}
	}
	if wantHello != "" && net.ParseIP(u.Host) == nil && !o.sni {
		c.Violate("no-server-name", "no-sni", detail)

		return
	}
	if wantHello != "" {
		c.Count("hellos_with_sni_checked", 1)
	}
}

func c17(c *core.Ctx) {
	nS, nH, nP, nQ := len(c17Schemes), len(c17Hosts), len(c17Ports), len(c17Queries)
	// (1) the grammar product
	c.Section("grammar", int64(nS*nH*nP*nQ), func(i int64, _ *gen.Rand) {
		k := int(i)
		qi := k % nQ
		k /= nQ
		pi := k % nP
		k /= nP
		hi := k % nH
		si := k / nH
		uc := c17Build(si, hi, pi, qi)
		c.Eval(1)
		u, err := stun.ParseURI(uc.raw)
		detail := map[string]interface{}{"input": uc.raw, "expected": uc.expect, "reason": uc.why, "err": fmt.Sprint(err)}
		if u != nil {
			detail["uri"] = fmt.Sprintf("%+v", *u)
		}
		c.Distinct(uint64(i))
		switch {
		case uc.expect == 1 && err != nil:
			c.Violate("valid-rejected", "valid-rejected", detail)

			return
		case uc.expect == 0 && err == nil:
			c.Violate("invalid-accepted", "invalid-accepted:"+strings.Fields(uc.why)[0], detail)

			return
		}
		if err != nil {
			c.Count("rejected", 1)

			return
		}
		c.Count("accepted", 1)
		if !c17Invariants(c, uc.raw, u) {
			return
		}
		if uc.expect == 1 {
			want := stun.URI{Scheme: uc.scheme, Host: uc.host, Port: uc.port, Proto: uc.proto}
			if *u != want {
				detail["want"] = fmt.Sprintf("%+v", want)
				c.Violate("wrong-components", "wrong-components", detail)

				return
			}
			// the caller owns the result: it derives a variant by editing the struct, then the same string is parsed again
			u.Port, u.Host, u.Proto, u.Scheme = u.Port^1, u.Host+".variant", stun.ProtoTypeTCP+stun.ProtoTypeUDP-u.Proto, stun.SchemeTypeTURNS
			u2, err2 := stun.ParseURI(uc.raw)
			c.Count("reparsed_after_editing_the_result", 1)
			if err2 != nil || *u2 != want {
				detail["second_parse"] = fmt.Sprintf("%+v %v", u2, err2)
				detail["want"] = fmt.Sprintf("%+v", want)
				c.Violate("wrong-components", "wrong-components:second-parse-after-editing-first-result", detail)

				return
			}
		}
		if c.WantSample() && i%97 == 0 {
			c.Sample(map[string]interface{}{"input": uc.raw, "parsed": fmt.Sprintf("%+v", *u)})
		}
	})
	c.MarkExhaustive("grammar product")
	// (2) mutations: invariants and round trip only
	c.Section("mutations", c.N(20000, 5000000), func(i int64, r *gen.Rand) {
		s := c16Random(r, 1)
		c.Eval(1)
		u, err := stun.ParseURI(s)
		if err != nil {
			c.Count("rejected", 1)

			return
		}
		c.Count("accepted", 1)
		c.Distinct(gen.HashString(s))
		c17Invariants(c, s, u)
	})
	// (3) DialURI: every (scheme, transport) pair ParseURI can produce, over several hosts/ports ...
	parsed := []string{
		"stun:example.org", "stun:192.0.2.7:1234", "stun:[2001:db8::1]:99", "stuns:example.org", "stuns:192.0.2.7:443", "stuns:[::1]",
		"turn:example.org", "turn:example.org?transport=tcp", "turn:192.0.2.9:3479?transport=udp", "turn:[2001:db8::2]?transport=tcp",
		"turns:example.org", "turns:example.org:443?transport=tcp", "turns:[::1]:5350?transport=tcp",
		"turns:127.0.0.1?transport=udp", "turns:localhost:5350?transport=udp", "turns:[::1]:7000?transport=udp",
		"turns:127.0.0.1:5351?transport=udp", "turns:127.0.0.1:443?transport=udp", "turns:127.0.0.1?transport=udp", // one host, several ports
		"turns:[::1]:7001?transport=udp", "stuns:192.0.2.7:444", "turn:192.0.2.9:3480?transport=udp", "stun:example.org:3479",
		"stun:[::ffff:192.0.2.7]:3478", "turn:[::ffff:192.0.2.7]?transport=tcp", "stuns:[::ffff:c000:207]", "turn:[0:0:0:0:0:ffff:1.2.3.4]:1?transport=udp",
	}
	// server names of every length a URI can carry, around the DNS limits (63-byte labels, 253/254/255-byte names)
	for _, n := range []int{63, 64, 200, 252, 253, 254, 255, 256, 300, 1000} {
		name := ""
		for len(name) < n {
			name += "abcdefghijklmnopqrstuvwxyz0123456789abcdefghijklmnopqrstuvwxyz."[:min(63, n-len(name))]
		}
		if name[len(name)-1] == '.' {
			name = name[:len(name)-1] + "x"
		}
		parsed = append(parsed, "stuns:"+name, "turns:"+name+":5350?transport=tcp")
	}
	c.SectionSerial("dial-parsed", int64(len(parsed)), func(i int64, _ *gen.Rand) {
		u, err := stun.ParseURI(parsed[i])
		if err != nil {
			c.Violate("valid-rejected", "valid-rejected", map[string]interface{}{"input": parsed[i], "err": err.Error()})

			return
		}
		c17CheckDial(c, u, true, parsed[i])
		c.Distinct(gen.HashString("dial" + parsed[i]))
	})
	// two secure dials from ONE DialConfig, the second issued before the first connection's handshake has started
	// (single P: the reader goroutine of the first client cannot run until this goroutine yields): each ClientHello
	// must carry its own host as server name
	c.SectionSerial("dial-shared-config", 6, func(i int64, _ *gen.Rand) {
		pairs := [][2]string{
			{"stuns:a.example.org", "turns:b.example.net?transport=tcp"},
			{"turns:b.example.net:443?transport=tcp", "stuns:a.example.org:5349"},
			{"stuns:a.example.org", "stuns:c.example.com"},
		}
		pair := pairs[int(i)%len(pairs)]
		c.Eval(1)
		fn := &fakeNet{}
		cfg := &stun.DialConfig{Net: fn}
		cfg.TLSConfig.InsecureSkipVerify = true //nolint:gosec
		ua, errA := stun.ParseURI(pair[0])
		ub, errB := stun.ParseURI(pair[1])
		if errA != nil || errB != nil {
			c.Violate("valid-rejected", "valid-rejected", map[string]interface{}{"inputs": pair})

			return
		}
		old := runtime.GOMAXPROCS(1)
		ca, e1 := stun.DialURI(ua, cfg)
		cb, e2 := stun.DialURI(ub, cfg)
		runtime.GOMAXPROCS(old)
		if e1 != nil || e2 != nil {
			c.Violate("dial-failed", "dial-failed", map[string]interface{}{"inputs": pair, "errors": fmt.Sprint(e1, e2)})

			return
		}
		fn.mu.Lock()
		conns := append([]*fakeConn(nil), fn.dials...)
		fn.mu.Unlock()
		ok := len(conns) == 2
		for k := 0; ok && k < 2; k++ {
			select {
			case <-conns[k].wrote:
			case <-time.After(10 * time.Second):
				ok = false
			}
		}
		_ = ca.Close()
		_ = cb.Close()
		if !ok {
			c.Inconclusive(1)

			return
		}
		for k, u := range []*stun.URI{ua, ub} {
			var all []byte
			for _, w := range conns[k].allWrites() {
				all = append(all, w...)
			}
			other := []*stun.URI{ub, ua}[k]
			if !bytes.Contains(all, []byte(u.Host)) || bytes.Contains(all, []byte(other.Host)) {
				c.Violate("wrong-server-name", "wrong-server-name", map[string]interface{}{
					"dialled": pair, "connection": k, "expected_server_name": u.Host, "hello_contains_other_host": bytes.Contains(all, []byte(other.Host)),
				})

				return
			}
		}
		if cfg.TLSConfig.ServerName != "" {
			c.Count("caller_config_server_name_modified", 1)
		}
		c.Count("shared_config_pairs", 1)
		c.Distinct(gen.HashString("shared" + pair[0] + pair[1]))
	})
	// real TLS handshakes with certificate verification ON: the URI's host (name, IPv4 or IPv6 literal) is what the
	// client verifies; a certificate for another host must be refused
	hs := []string{"stuns:tls.example.org", "turns:tls.example.org:443?transport=tcp", "stuns:192.0.2.7", "turns:192.0.2.7:5350?transport=tcp", "stuns:[2001:db8::7]", "turns:[2001:db8::7]?transport=tcp"}
	c.SectionSerial("tls-handshake", int64(3*len(hs)), func(i int64, _ *gen.Rand) {
		preset := ""
		if int(i) >= 2*len(hs) {
			preset = "preset.example.net"
		}
		c17Handshake(c, hs[int(i)%len(hs)], int(i) < len(hs) || int(i) >= 2*len(hs), preset)
		c.Distinct(gen.HashString(fmt.Sprintf("hs%d", i)))
	})
	// ... and all 5 x 3 hand-made combinations
	// a dial that fails is reported as it is: one attempt, on the transport the URI denotes, its error handed back
	c.SectionSerial("dial-failure", 24, func(i int64, _ *gen.Rand) {
		raw := []string{"stun:example.org", "turn:example.org", "turn:example.org?transport=tcp", "stuns:example.org", "turns:example.org?transport=tcp", "turn:192.0.2.1:9?transport=udp"}[i%6]
		_ = raw
		errs := []error{errors.New("network is unreachable"), &net.OpError{Op: "dial", Net: "udp", Err: os.NewSyscallError("connect", syscall.ENETUNREACH)},
			&net.OpError{Op: "dial", Net: "udp6", Err: os.NewSyscallError("socket", syscall.EAFNOSUPPORT)}, &net.OpError{Op: "dial", Net: "udp", Err: os.NewSyscallError("connect", syscall.EHOSTUNREACH)}}
		if i%6 == 5 {
			raw = "turn:[2001:db8::9]:9?transport=udp" // an IPv6 literal the host cannot reach
		}
		u, err := stun.ParseURI(raw)
		if err != nil {
			c.Violate("valid-rejected", "valid-rejected", map[string]interface{}{"input": raw})

			return
		}
		want := "udp"
		if u.Proto == stun.ProtoTypeTCP {
			want = "tcp"
		}
		fn := &fakeNet{failNetwork: want, failErr: errs[i/6]}
		cfg := &stun.DialConfig{Net: fn}
		cfg.TLSConfig.InsecureSkipVerify = true //nolint:gosec
		c.Eval(1)
		var client *stun.Client
		var derr error
		p, stack := safely(func() { client, derr = stun.DialURI(u, cfg) })
		fn.mu.Lock()
		attempts := append([]string(nil), fn.attempts...)
		fn.mu.Unlock()
		detail := map[string]interface{}{"input": raw, "failing_network": want, "attempts": attempts, "err": fmt.Sprint(derr)}
		switch {
		case p != nil:
			reportPanic(c, "DialURI", p, stack, detail)
		case derr == nil || client != nil:
			if client != nil {
				_ = client.Close()
			}
			c.Violate("wrong-transport", "dial-failure-papered-over", detail)
		case len(attempts) != 1 || attempts[0] != "Dial:"+want:
			c.Violate("wrong-transport", "dial-failure-retried-elsewhere", detail)
		case !errors.Is(derr, errs[i/6]) && derr.Error() != errs[i/6].Error():
			c.Violate("wrong-transport", "dial-error-lost", detail)
		}
		// one failed dial is one failed dial: what is dialled afterwards is unaffected
		for _, next := range []string{"stun:[2001:db8::1]:99", "turn:192.0.2.9:3479?transport=tcp", "turn:[2001:db8::2]?transport=udp"} {
			if nu, perr := stun.ParseURI(next); perr == nil {
				c17CheckDial(c, nu, true, next+" (after a failed dial)")
			}
		}
		c.Distinct(gen.HashString(fmt.Sprintf("dialfail%d", i)))
	})
	// no network injected (DialConfig.Net nil): the process's own network, loopback only. The transport is still the
	// one the URI denotes: a TCP listener sees a connection for ?transport=tcp, a UDP socket sees a datagram for udp.
	c.SectionSerial("dial-default-network", 4, func(i int64, _ *gen.Rand) {
		c17DefaultNet(c, int(i))
		c.Distinct(gen.HashString(fmt.Sprintf("dialdefault%d", i)))
	})
	c.SectionSerial("dial-handmade", 15*2, func(i int64, _ *gen.Rand) {
		sch := stun.SchemeType(int(i) % 15 / 3)
		pr := stun.ProtoType(int(i) % 15 % 3)
		host := "localhost"
		if i >= 15 {
			host = "127.0.0.1"
		}
		u := &stun.URI{Scheme: sch, Host: host, Port: 3478 + int(i), Proto: pr}
		c17CheckDial(c, u, false, fmt.Sprintf("hand-made scheme=%d proto=%d", sch, pr))
		c.Distinct(gen.HashString(fmt.Sprintf("hand%d", i)))
	})
	// SchemeType and ProtoType are open integer types: values outside the declared constants (a zero value combined with
	// arithmetic, a cast from configuration) are hand-made combinations too. The rule is the same.
	c.SectionSerial("dial-out-of-range", 22*22, func(i int64, _ *gen.Rand) {
		sch := stun.SchemeType(int(i)/22 - 9)
		pr := stun.ProtoType(int(i)%22 - 9)
		if sch >= 0 && sch < 5 && pr >= 0 && pr < 3 {
			return // the declared ones: section dial-handmade
		}
		u := &stun.URI{Scheme: sch, Host: "127.0.0.1", Port: 3478, Proto: pr}
		c17CheckDial(c, u, false, fmt.Sprintf("hand-made scheme=%d proto=%d (outside the declared constants)", sch, pr))
		c.Distinct(gen.HashString(fmt.Sprintf("oor%d", i)))
	})
}

// ---- a real TLS handshake over an in-memory pipe: the host must be the server name the client verifies ----

type pipeNet struct {
	fakeNet
	server net.Conn
}

func (n *pipeNet) Dial(network, address string) (net.Conn, error) {
	cl, sv := net.Pipe()
	n.server = sv
	n.mu.Lock()
	n.dials = append(n.dials, newFakeConn("Dial:"+network, address, nil))
	n.mu.Unlock()

	return cl, nil
}

// selfSigned makes a CA-less certificate valid for the given DNS names and IPs.
// c17DefaultNet dials turn:/stun: URIs at loopback listeners through the default network.
func c17DefaultNet(c *core.Ctx, variant int) {
	c.Eval(1)
	tcpL, err := net.Listen("tcp", "127.0.0.1:0")
	if err != nil {
		c.Inconclusive(1) // no loopback in this environment

		return
	}
	defer tcpL.Close()
	port := tcpL.Addr().(*net.TCPAddr).Port //nolint:forcetypeassert
	udpL, err := net.ListenUDP("udp", &net.UDPAddr{IP: net.IPv4(127, 0, 0, 1), Port: port})
	if err != nil {
		c.Inconclusive(1)

		return
	}
	defer udpL.Close()
	accepted := make(chan struct{}, 1)
	go func() {
		if cn, aerr := tcpL.Accept(); aerr == nil {
			accepted <- struct{}{}
			_ = cn.Close()
		}
	}()
	gotUDP := make(chan struct{}, 1)
	go func() {
		buf := make([]byte, 1500)
		_ = udpL.SetReadDeadline(time.Now().Add(5 * time.Second))
		if n, _, rerr := udpL.ReadFromUDP(buf); rerr == nil && n >= 20 {
			gotUDP <- struct{}{}
		}
	}()
	raw := []string{"turn:127.0.0.1:%d?transport=tcp", "turn:127.0.0.1:%d?transport=udp", "stun:127.0.0.1:%d", "turn:127.0.0.1:%d"}[variant]
	raw = fmt.Sprintf(raw, port)
	u, err := stun.ParseURI(raw)
	if err != nil {
		c.Violate("valid-rejected", "valid-rejected", map[string]interface{}{"input": raw})

		return
	}
	client, derr := stun.DialURI(u, &stun.DialConfig{})
	if derr != nil {
		c.Violate("dial-failed", "dial-failed:default-network", map[string]interface{}{"input": raw, "err": derr.Error()})

		return
	}
	_ = client.Indicate(stun.MustBuild(stun.TransactionID, stun.NewType(stun.MethodBinding, stun.ClassIndication)))
	wantTCP := variant == 0
	sawTCP, sawUDP := false, false
	select {
	case <-accepted:
		sawTCP = true
	case <-gotUDP:
		sawUDP = true
	case <-time.After(5 * time.Second):
	}
	_ = client.Close()
	switch {
	case !sawTCP && !sawUDP:
		c.Inconclusive(1)
	case sawTCP != wantTCP:
		c.Violate("wrong-transport", "wrong-transport:default-network", map[string]interface{}{"input": raw,
			"problem": fmt.Sprintf("no network injected: the TCP listener saw a connection: %v, the UDP socket saw a datagram: %v", sawTCP, sawUDP)})
	default:
		c.Count("dials_through_the_default_network", 1)
	}
}

func selfSigned(dns []string, ips []net.IP) (tls.Certificate, *x509.CertPool, error) {
	key, err := ecdsa.GenerateKey(elliptic.P256(), crand.Reader)
	if err != nil {
		return tls.Certificate{}, nil, err
	}
	tmpl := &x509.Certificate{
		SerialNumber: big.NewInt(1), Subject: pkix.Name{CommonName: "c17"}, NotBefore: time.Now().Add(-time.Hour), NotAfter: time.Now().Add(24 * time.Hour),
		KeyUsage: x509.KeyUsageDigitalSignature | x509.KeyUsageCertSign, ExtKeyUsage: []x509.ExtKeyUsage{x509.ExtKeyUsageServerAuth},
		BasicConstraintsValid: true, IsCA: true, DNSNames: dns, IPAddresses: ips,
	}
	der, err := x509.CreateCertificate(crand.Reader, tmpl, tmpl, &key.PublicKey, key)
	if err != nil {
		return tls.Certificate{}, nil, err
	}
	cert, _ := x509.ParseCertificate(der)
	pool := x509.NewCertPool()
	pool.AddCert(cert)

	return tls.Certificate{Certificate: [][]byte{der}, PrivateKey: key}, pool, nil
}

// c17Handshake dials a secure URI whose server presents a certificate for exactly that host, verification ON.
func c17Handshake(c *core.Ctx, raw string, certHostMatches bool, presetServerName string) {
	c.Eval(1)
	u, err := stun.ParseURI(raw)
	if err != nil {
		c.Violate("valid-rejected", "valid-rejected", map[string]interface{}{"input": raw, "err": err.Error()})

		return
	}
	var dns []string
	var ips []net.IP
	host := u.Host
	if !certHostMatches {
		host = "other.example.net"
	}
	if ip := net.ParseIP(host); ip != nil {
		ips = []net.IP{ip}
	} else {
		dns = []string{host}
	}
	cert, pool, err := selfSigned(dns, ips)
	if err != nil {
		fatalHarness("C17 certificate: " + err.Error())
	}
	pn := &pipeNet{}
	cfg := &stun.DialConfig{Net: pn}
	cfg.TLSConfig.RootCAs = pool
	cfg.TLSConfig.ServerName = presetServerName // whatever the caller's config carries, the URI's host is the server name
	client, derr := stun.DialURI(u, cfg)
	if derr != nil || pn.server == nil {
		c.Violate("dial-failed", "dial-failed", map[string]interface{}{"input": raw, "err": fmt.Sprint(derr)})

		return
	}
	srv := tls.Server(pn.server, &tls.Config{Certificates: []tls.Certificate{cert}, MinVersion: tls.VersionTLS12})
	got := make(chan []byte, 1)
	hsErr := make(chan error, 1)
	go func() {
		_ = srv.SetDeadline(time.Now().Add(15 * time.Second))
		if err := srv.Handshake(); err != nil {
			hsErr <- err

			return
		}
		buf := make([]byte, 256)
		n, _ := srv.Read(buf)
		got <- buf[:n]
	}()
	ind := stun.MustBuild(stun.TransactionID, stun.NewType(stun.MethodBinding, stun.ClassIndication), stun.NewSoftware("c17-over-tls"))
	sent := make(chan error, 1)
	go func() { sent <- client.Indicate(ind) }()
	detail := map[string]interface{}{"uri": raw, "certificate_valid_for": host}
	verdict := ""
	select {
	case b := <-got:
		if !bytes.Equal(b, ind.Raw) {
			verdict = "server decrypted other bytes than the indication"
		} else if !certHostMatches {
			verdict = "handshake succeeded although the certificate is for another host: the host is not the verified server name"
		}
	case err := <-hsErr:
		if certHostMatches {
			verdict = "TLS handshake failed although the server's certificate is valid for the URI's host: " + err.Error()
		}
	case <-time.After(20 * time.Second):
		c.Inconclusive(1)
	}
	_ = client.Close()
	_ = pn.server.Close()
	select {
	case <-sent:
	case <-time.After(10 * time.Second):
	}
	if verdict != "" {
		detail["problem"] = verdict
		c.Violate("server-name-verification", "server-name-verification", detail)

		return
	}
	c.Count("tls_handshakes_verified", 1)
}
