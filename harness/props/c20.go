package props

import (
	"bytes"
	"fmt"
	"net"
	"runtime"
	"runtime/debug"
	"sync"
	"testing"

	"github.com/pion/stun/v3"
	"github.com/pion/stun/v3/internal/hmac"
	"github.com/pion/stun/v3/verifharness/core"
	"github.com/pion/stun/v3/verifharness/gen"
	"github.com/pion/stun/v3/verifharness/ref"
)

// C20: hot paths allocate nothing in steady state, whatever the message.
func init() { core.Register("C20", c20) }

type c20Msg struct {
	setters  []stun.Setter // pointer / pre-boxed setters, MESSAGE-INTEGRITY and FINGERPRINT excluded
	key      []byte        // non-nil if the message carries MESSAGE-INTEGRITY
	fp       bool
	wire     []byte
	types    []stun.AttrType
	getters  []stun.Getter
	desc     string
	nUnknown int
}

// c20Gen builds a well-formed message with 0..16 attributes of every supported type.
func c20Gen(r *gen.Rand) c20Msg {
	var g c20Msg
	g.setters = append(g.setters, stun.NewType(stun.Method(r.Intn(0x1000)), stun.MessageClass(r.Intn(4))), stun.NewTransactionIDSetter(r.TID()))
	n := r.Intn(17)
	for k := 0; k < n; k++ {
		ip := randIP(r)
		port := r.Intn(65536)
		textLen := func(limit int) int {
			switch r.Intn(4) {
			case 0:
				return limit
			case 1:
				return r.Intn(limit + 1)
			default:
				return r.Intn(40)
			}
		}
		switch r.Intn(14) {
		case 0:
			g.setters = append(g.setters, &stun.XORMappedAddress{IP: ip, Port: port})
			g.types = append(g.types, stun.AttrXORMappedAddress)
			g.getters = append(g.getters, &stun.XORMappedAddress{IP: make(net.IP, 0, 16)})
		case 1:
			g.setters = append(g.setters, &stun.MappedAddress{IP: ip, Port: port})
			g.types = append(g.types, stun.AttrMappedAddress)
			g.getters = append(g.getters, &stun.MappedAddress{IP: make(net.IP, 0, 16)})
		case 2:
			g.setters = append(g.setters, &stun.AlternateServer{IP: ip, Port: port})
			g.types = append(g.types, stun.AttrAlternateServer)
			g.getters = append(g.getters, &stun.AlternateServer{IP: make(net.IP, 0, 16)})
		case 3:
			g.setters = append(g.setters, &stun.ResponseOrigin{IP: ip, Port: port})
			g.types = append(g.types, stun.AttrResponseOrigin)
			g.getters = append(g.getters, &stun.ResponseOrigin{IP: make(net.IP, 0, 16)})
		case 4:
			g.setters = append(g.setters, &stun.OtherAddress{IP: ip, Port: port})
			g.types = append(g.types, stun.AttrOtherAddress)
			g.getters = append(g.getters, &stun.OtherAddress{IP: make(net.IP, 0, 16)})
		case 5:
			v := stun.Username(r.Bytes(textLen(513)))
			g.setters = append(g.setters, &v)
			g.types = append(g.types, stun.AttrUsername)
			g.getters = append(g.getters, new(stun.Username))
		case 6:
			v := stun.Realm(r.Bytes(textLen(763)))
			g.setters = append(g.setters, &v)
			g.types = append(g.types, stun.AttrRealm)
			g.getters = append(g.getters, new(stun.Realm))
		case 7:
			v := stun.Nonce(r.Bytes(textLen(763)))
			g.setters = append(g.setters, &v)
			g.types = append(g.types, stun.AttrNonce)
			g.getters = append(g.getters, new(stun.Nonce))
		case 8:
			v := stun.Software(r.Bytes(textLen(763)))
			g.setters = append(g.setters, &v)
			g.types = append(g.types, stun.AttrSoftware)
			g.getters = append(g.getters, new(stun.Software))
		case 9:
			g.setters = append(g.setters, &stun.ErrorCodeAttribute{Code: stun.ErrorCode(r.Range(300, 699)), Reason: r.Bytes(textLen(763))})
			g.types = append(g.types, stun.AttrErrorCode)
			g.getters = append(g.getters, new(stun.ErrorCodeAttribute))
		case 10:
			c := stun.CodeStaleNonce
			g.setters = append(g.setters, &c)
			g.types = append(g.types, stun.AttrErrorCode)
			g.getters = append(g.getters, new(stun.ErrorCodeAttribute))
		case 11:
			ua := make(stun.UnknownAttributes, r.Intn(21)) // more than 20 entries allocate by documented design
			for i := range ua {
				ua[i] = stun.AttrType(r.AttrType())
			}
			g.setters = append(g.setters, &ua)
			g.types = append(g.types, stun.AttrUnknownAttributes)
			dst := make(stun.UnknownAttributes, 0, 64)
			g.getters = append(g.getters, &dst)
			g.nUnknown++
		default:
			t := stun.AttrType(r.PickU16([]uint16{0x0024, 0x0025, 0x8029, 0x000C, 0x0013, 0x0019, 0x7f00}))
			g.setters = append(g.setters, &stun.RawAttribute{Type: t, Value: r.Bytes(r.ValueLen(1200))})
			g.types = append(g.types, t)
		}
	}
	m := new(stun.Message)
	all := append([]stun.Setter(nil), g.setters...)
	if r.Bool() {
		g.key = r.Bytes(r.PickInt([]int{0, 8, 16, 64, 65, 120}))
		all = append(all, stun.MessageIntegrity(g.key))
	}
	if r.Bool() {
		g.fp = true
		all = append(all, stun.Fingerprint)
	}
	if err := m.Build(all...); err != nil {
		fatalHarness("C20 generator: " + err.Error())
	}
	g.wire = append([]byte(nil), m.Raw...)
	g.desc = fmt.Sprintf("%d attributes, %d bytes, integrity=%v fingerprint=%v", len(m.Attributes), len(g.wire), g.key != nil, g.fp)

	return g
}

func errNoop(*stun.Message) error { return nil }

func c20(c *core.Ctx) {
	if c.Config != "rel" && c.Config != "dbg" {
		fatalHarness("C20 runs in the rel and dbg configurations only")
	}
	runtime.GOMAXPROCS(1)
	old := debug.SetGCPercent(-1)
	defer debug.SetGCPercent(old)
	// What the process used first - the other HMAC flavour, a decode, a URI - must not make the hot paths allocate:
	// each variant is the first thing its process does with the library, then the hot paths are warmed and measured.
	c.SectionFirst("first-use-order", 4, func(i int64, r *gen.Rand) {
		switch i {
		case 0: // the SHA-256 flavour of the pooled HMAC is the first (and a recurring) user of the pools
			for k := 0; k < 4; k++ {
				h := hmac.AcquireSHA256([]byte("other-user"))
				_, _ = h.Write([]byte("x"))
				_ = h.Sum(nil)
				hmac.PutSHA256(h)
			}
		case 1: // a long-term key is derived first
			_ = stun.NewLongTermIntegrity("user", "realm", "pass")
		case 2: // a decode is first
			_ = stun.Decode(ref.Encode(0x0101, r.TID(), []ref.Attr{{Type: 0x8022, Value: []byte("first")}}), new(stun.Message))
		case 3: // a URI is first
			_, _ = stun.ParseURI("stun:example.org")
		}
		key := []byte("secret")
		mi := stun.MessageIntegrity(key)
		tid := stun.NewTransactionIDSetter(r.TID())
		soft := stun.NewSoftware("first-use")
		m := &stun.Message{Raw: make([]byte, 0, 1024)}
		setters := []stun.Setter{stun.BindingRequest, tid, &soft, &mi, stun.Fingerprint} // boxed once, outside the measurement
		build := func() { _ = m.Build(setters...) }
		build()
		dec := &stun.Message{Raw: make([]byte, 0, 1024)}
		wire := append([]byte(nil), m.Raw...)
		ops := []struct {
			name string
			f    func()
		}{
			{"Build(pointer setters, MessageIntegrity, Fingerprint)", build},
			{"MessageIntegrity.Check", func() { _ = mi.Check(m) }},
			{"Fingerprint.Check", func() { _ = stun.Fingerprint.Check(m) }},
			{"Decode", func() { _ = stun.Decode(wire, dec) }},
		}
		for _, op := range ops {
			op.f()
			op.f()
			c.Eval(1)
			if i == 0 && op.name == "MessageIntegrity.Check" {
				h := hmac.AcquireSHA256([]byte("other-user")) // the other flavour keeps being used between the checks
				hmac.PutSHA256(h)
				op.f()
			}
			if a := testing.AllocsPerRun(100, op.f); a != 0 {
				c.Violate("allocates", "alloc:first-use:"+op.name, map[string]interface{}{"operation": op.name, "allocs_per_run": a, "first_use_variant": i,
					"problem": "a warm hot path allocates in a process whose first use of the library was something else"})
			}
		}
		c.Count("first_use_variants_measured", 1)
	})
	// A message carried inside another (TURN Data/Send indications carry connectivity checks in DATA): the inner one is
	// decoded straight from the attribute value, i.e. from a view into the receiver's own buffer at a non-zero offset.
	c.SectionSerial("decode-embedded-message", 9, func(i int64, r *gen.Rand) {
		inner := ref.Encode(0x0001, r.TID(), []ref.Attr{{Type: 0x0006, Value: []byte("inner:user")}, {Type: 0x0024, Value: []byte{1, 2, 3, 4}},
			{Type: 0x8022, Value: bytes.Repeat([]byte("s"), []int{5, 120, 900}[i/3])}})
		outer := ref.Encode(0x0017, r.TID(), []ref.Attr{{Type: 0x0012, Value: ref.EncXORAddr([]byte{192, 0, 2, 1}, 4242, [12]byte{})}, {Type: 0x0013, Value: inner}})
		m := &stun.Message{Raw: make([]byte, 0, 4096)}
		var bad string
		op := func() {
			if err := stun.Decode(outer, m); err != nil {
				bad = "outer: " + err.Error()

				return
			}
			v, err := m.Get(stun.AttrData)
			if err != nil {
				bad = "DATA: " + err.Error()

				return
			}
			switch i % 3 {
			case 0:
				err = stun.Decode(v, m)
			case 1:
				_, err = m.Write(v)
			case 2:
				err = m.UnmarshalBinary(v)
			}
			if err != nil {
				bad = "inner: " + err.Error()
			}
		}
		op()
		op()
		c.Eval(1)
		if rm, _ := ref.Parse(inner); bad != "" || diffRef(m, rm, inner) != "" {
			c.Violate("embedded-decode-wrong", "embedded-decode", map[string]interface{}{"entry_point": []string{"Decode", "Write", "UnmarshalBinary"}[i%3], "error": bad, "diff": diffRef(m, rm, inner)})

			return
		}
		if a := testing.AllocsPerRun(100, op); a != 0 {
			c.Violate("allocates", "alloc:decode-embedded:"+[]string{"Decode", "Write", "UnmarshalBinary"}[i%3], map[string]interface{}{"allocs_per_run": a, "inner_bytes": len(inner),
				"problem": "decoding the message carried in a DATA attribute from the attribute value (a view into the receiver's own, large enough buffer) allocates"})
		}
	})
	// targeted, deterministic scenario for the recorded finding: explicit spare capacities around 20
	c.SectionSerial("integrity-check-spare-capacity", 6, func(i int64, r *gen.Rand) {
		spare := []int{0, 1, 19, 20, 21, 64}[i]
		key := []byte("secret")
		src := new(stun.Message)
		_ = src.Build(stun.BindingRequest, stun.NewTransactionIDSetter(r.TID()), stun.MessageIntegrity(key))
		buf := make([]byte, len(src.Raw), len(src.Raw)+spare)
		copy(buf, src.Raw)
		m := &stun.Message{Raw: buf}
		if err := m.Decode(); err != nil {
			fatalHarness("C20 targeted: " + err.Error())
		}
		mi := stun.MessageIntegrity(key)
		c.Eval(1)
		a := testing.AllocsPerRun(100, func() { _ = mi.Check(m) })
		c.Count(fmt.Sprintf("targeted.spare%d.allocs", spare), int64(a))
		if a != 0 {
			k := "alloc:MessageIntegrity.Check"
			if spare < 20 && a == 1 {
				k = "alloc:MessageIntegrity.Check:spare-capacity<20:allocs=1"
			}
			c.Violate("allocates", k, map[string]interface{}{"operation": "MessageIntegrity.Check", "allocs_per_run": a, "spare_capacity": spare, "message_bytes": len(buf)})
		}
	})
	// one destination carried across messages of alternating address families (v6, v4, v6, ...)
	c.SectionSerial("alternating-families", 7, func(i int64, r *gen.Rand) {
		mk := func(ip net.IP, typ int) *stun.Message {
			m := new(stun.Message)
			var s stun.Setter
			switch typ {
			case 0:
				s = &stun.XORMappedAddress{IP: ip, Port: 4242}
			case 1:
				s = &stun.MappedAddress{IP: ip, Port: 4242}
			case 2:
				s = &stun.AlternateServer{IP: ip, Port: 4242}
			case 3:
				s = &stun.ResponseOrigin{IP: ip, Port: 4242}
			default:
				s = &stun.OtherAddress{IP: ip, Port: 4242}
			}
			if typ == 5 {
				s = setterFunc(func(m *stun.Message) error {
					return stun.XORMappedAddress{IP: ip, Port: 1}.AddToAs(m, stun.AttrXORPeerAddress)
				})
			}
			if typ == 6 {
				s = setterFunc(func(m *stun.Message) error {
					return stun.XORMappedAddress{IP: ip, Port: 1}.AddToAs(m, stun.AttrXORRelayedAddress)
				})
			}
			_ = m.Build(stun.BindingSuccess, stun.NewTransactionIDSetter(r.TID()), s)

			return m
		}
		typ := int(i)
		m6, m4 := mk(net.IP(r.Bytes(16)), typ), mk(net.IP(r.Bytes(4)), typ)
		var get func(m *stun.Message) error
		switch typ {
		case 0:
			d := new(stun.XORMappedAddress)
			get = d.GetFrom
		case 1:
			d := new(stun.MappedAddress)
			get = d.GetFrom
		case 2:
			d := new(stun.AlternateServer)
			get = d.GetFrom
		case 3:
			d := new(stun.ResponseOrigin)
			get = d.GetFrom
		case 4:
			d := new(stun.OtherAddress)
			get = d.GetFrom
		case 5:
			d := new(stun.XORMappedAddress)
			get = func(m *stun.Message) error { return d.GetFromAs(m, stun.AttrXORPeerAddress) }
		default:
			d := new(stun.XORMappedAddress)
			get = func(m *stun.Message) error { return d.GetFromAs(m, stun.AttrXORRelayedAddress) }
		}
		if err := get(m6); err != nil { // the destination has now been used for the larger (IPv6) value
			fatalHarness("C20 alternating: " + err.Error())
		}
		c.Eval(1)
		a := testing.AllocsPerRun(100, func() { _ = get(m4); _ = get(m6) })
		if a != 0 {
			c.Violate("allocates", fmt.Sprintf("alloc:alternating-families:%d", typ), map[string]interface{}{
				"operation": "GetFrom into one destination, IPv4 then IPv6 message, repeated", "getter_index": typ, "allocs_per_run": a})
		}
	})
	// IPv6-family values placed on the wire by hand, among them IPv4-mapped ones (::ffff:a.b.c.d), alternating with plain
	// IPv6 values on one destination
	c.SectionSerial("alternating-ipv6-shapes", 5, func(i int64, r *gen.Rand) {
		typ := []stun.AttrType{stun.AttrMappedAddress, stun.AttrAlternateServer, stun.AttrResponseOrigin, stun.AttrOtherAddress, stun.AttrXORMappedAddress}[i]
		mk := func(ip []byte) *stun.Message {
			m := new(stun.Message)
			_ = m.Build(stun.BindingSuccess, stun.NewTransactionIDSetter(r.TID()))
			v := append([]byte{0, 2, 0x12, 0x34}, ip...)
			if typ == stun.AttrXORMappedAddress {
				pad := append([]byte{0x21, 0x12, 0xA4, 0x42}, m.TransactionID[:]...)
				for k := range ip {
					v[4+k] ^= pad[k]
				}
			}
			m.Add(typ, v)

			return m
		}
		mapped := append(append(make([]byte, 10), 0xff, 0xff), r.Bytes(4)...)
		shapes := []*stun.Message{mk(r.Bytes(16)), mk(mapped), mk(make([]byte, 16)), mk(append(make([]byte, 12), r.Bytes(4)...)), mk(r.Bytes(16))}
		var get func(m *stun.Message) error
		switch i {
		case 0:
			get = new(stun.MappedAddress).GetFrom
		case 1:
			get = new(stun.AlternateServer).GetFrom
		case 2:
			get = new(stun.ResponseOrigin).GetFrom
		case 3:
			get = new(stun.OtherAddress).GetFrom
		default:
			get = new(stun.XORMappedAddress).GetFrom
		}
		if err := get(shapes[0]); err != nil {
			fatalHarness("C20 ipv6 shapes: " + err.Error())
		}
		c.Eval(1)
		a := testing.AllocsPerRun(100, func() {
			for _, m := range shapes {
				_ = get(m)
			}
		})
		if a != 0 {
			c.Violate("allocates", fmt.Sprintf("alloc:alternating-ipv6-shapes:%#x", uint16(typ)), map[string]interface{}{
				"operation": "GetFrom into one destination: IPv6, IPv4-mapped IPv6 (::ffff:a.b.c.d on the wire), ::, ::a.b.c.d, IPv6, repeated", "attribute": fmt.Sprintf("%#x", uint16(typ)), "allocs_per_run": a})
		}
	})
	// text destinations carried across values of changing length (long, short, long), never longer than the first
	c.SectionSerial("alternating-text-lengths", 5, func(i int64, r *gen.Rand) {
		mk := func(n int) *stun.Message {
			m := new(stun.Message)
			v := r.Bytes(n)
			_ = m.Build(stun.BindingSuccess, stun.NewTransactionIDSetter(r.TID()),
				stun.RawAttribute{Type: []stun.AttrType{stun.AttrUsername, stun.AttrRealm, stun.AttrNonce, stun.AttrSoftware, stun.AttrErrorCode}[i], Value: append([]byte{0, 0, 4, 1}, v...)[4*btoi(i != 4):]})

			return m
		}
		long, short, mid, empty := mk(300), mk(7), mk(120), mk(0)
		var get func(m *stun.Message) error
		switch i {
		case 0:
			get = new(stun.Username).GetFrom
		case 1:
			get = new(stun.Realm).GetFrom
		case 2:
			get = new(stun.Nonce).GetFrom
		case 3:
			get = new(stun.Software).GetFrom
		default:
			get = new(stun.ErrorCodeAttribute).GetFrom
		}
		if err := get(long); err != nil {
			fatalHarness("C20 text lengths: " + err.Error())
		}
		c.Eval(1)
		a := testing.AllocsPerRun(100, func() { _ = get(short); _ = get(long); _ = get(empty); _ = get(mid); _ = get(long) })
		if a != 0 {
			c.Violate("allocates", fmt.Sprintf("alloc:alternating-text-lengths:%d", i), map[string]interface{}{
				"operation": "GetFrom into one destination warmed with the longest value: 7, 300, 0, 120, 300 bytes, repeated", "getter_index": i, "allocs_per_run": a})
		}
	})
	// several credentials in turn on one goroutine: verify for user A, for user B, sign for C, A again
	c.SectionSerial("alternating-keys", 6, func(i int64, r *gen.Rand) {
		lens := [][3]int{{6, 6, 6}, {16, 16, 16}, {6, 20, 64}, {16, 100, 16}, {65, 70, 200}, {0, 16, 64}}[i]
		var keys [3]stun.MessageIntegrity
		var msgs [3]*stun.Message
		for k := range keys {
			keys[k] = stun.MessageIntegrity(r.Bytes(lens[k]))
			src := new(stun.Message)
			_ = src.Build(stun.BindingRequest, stun.NewTransactionIDSetter(r.TID()), stun.NewSoftware("c20"), keys[k])
			buf := make([]byte, len(src.Raw), len(src.Raw)+64) // spare capacity >= 20: outside the recorded finding
			copy(buf, src.Raw)
			msgs[k] = &stun.Message{Raw: buf}
			if err := msgs[k].Decode(); err != nil {
				fatalHarness("C20 keys: " + err.Error())
			}
		}
		build := new(stun.Message)
		sw := stun.NewSoftware("c20")
		tid := stun.NewTransactionIDSetter(r.TID())
		setters := []stun.Setter{stun.BindingSuccess, tid, &sw, &keys[2]}
		_ = build.Build(setters...)
		c.Eval(1)
		var bad error
		a := testing.AllocsPerRun(100, func() {
			if err := keys[0].Check(msgs[0]); err != nil {
				bad = err
			}
			if err := keys[1].Check(msgs[1]); err != nil {
				bad = err
			}
			if err := build.Build(setters...); err != nil {
				bad = err
			}
			if err := keys[0].Check(msgs[0]); err != nil {
				bad = err
			}
		})
		if bad != nil {
			fatalHarness("C20 keys: " + bad.Error())
		}
		if a != 0 {
			c.Violate("allocates", "alloc:alternating-keys", map[string]interface{}{
				"operation": "Check(key A), Check(key B), Build(... MessageIntegrity key C), Check(key A), repeated, warm buffers with spare capacity 64", "key_lengths": fmt.Sprint(lens), "allocs_per_run": a})
		}
	})
	// rebuilding a message in place from the values its typed getters returned (which are views into its own buffer), with
	// a layout shifted against the decoded one (a leading attribute dropped or added)
	c.SectionSerial("rebuild-in-place-from-own-values", 4, func(i int64, r *gen.Rand) {
		src := stun.MustBuild(stun.BindingRequest, stun.NewTransactionIDSetter(r.TID()), stun.NewSoftware("lead"), stun.NewUsername("user:name:0123"),
			stun.NewRealm("realm.example.org"), stun.NewNonce("nonce-0123456789abcdef"))
		wire := append([]byte(nil), src.Raw...)
		m := &stun.Message{Raw: make([]byte, 0, 512)}
		if err := stun.Decode(wire, m); err != nil {
			fatalHarness("C20 rebuild: " + err.Error())
		}
		var user stun.Username
		var realm stun.Realm
		var nonce stun.Nonce
		var soft stun.Software
		if err := m.Parse(&user, &realm, &nonce, &soft); err != nil {
			fatalHarness("C20 rebuild: " + err.Error())
		}
		tid := stun.NewTransactionIDSetter(m.TransactionID)
		extra := stun.NewSoftware("a longer leading attribute than before")
		setters := [][]stun.Setter{
			{stun.BindingRequest, tid, user, realm, nonce},               // leading SOFTWARE dropped: everything moves up
			{stun.BindingRequest, tid, &extra, user, realm, nonce},       // longer lead: everything moves down
			{stun.BindingRequest, tid, nonce, realm, user},               // order reversed
			{stun.BindingRequest, tid, soft, user, realm, nonce, &extra}, // same layout, one more at the end
		}[i]
		_ = m.Build(setters...)
		c.Eval(1)
		a := testing.AllocsPerRun(100, func() { _ = m.Build(setters...) })
		if a != 0 {
			c.Violate("allocates", fmt.Sprintf("alloc:rebuild-in-place:%d", i), map[string]interface{}{
				"operation": "Build in place from values obtained by the typed getters of the same message (views into its own buffer), layout variant " + fmt.Sprint(i), "allocs_per_run": a})
		}
	})
	// the everyday failures are as free as the successes: a check under the wrong key right before the right one, a batch
	// of getters/checkers of which one finds nothing
	c.SectionSerial("failures-in-the-hot-path", 4, func(i int64, r *gen.Rand) {
		key, wrong := stun.MessageIntegrity("the right key"), stun.MessageIntegrity("a wrong key")
		src := stun.MustBuild(stun.BindingSuccess, stun.NewTransactionIDSetter(r.TID()), stun.NewUsername("user"), stun.NewNonce("nonce"),
			&stun.XORMappedAddress{IP: net.IP(r.Bytes(4)), Port: 1234}, key, stun.Fingerprint)
		buf := make([]byte, len(src.Raw), len(src.Raw)+128) // spare capacity: outside the recorded finding
		copy(buf, src.Raw)
		m := &stun.Message{Raw: buf}
		if err := m.Decode(); err != nil {
			fatalHarness("C20 failures: " + err.Error())
		}
		noMI := stun.MustBuild(stun.BindingSuccess, stun.NewTransactionIDSetter(r.TID()), stun.NewUsername("user"), stun.Fingerprint)
		m2 := new(stun.Message)
		_ = stun.Decode(noMI.Raw, m2)
		var user stun.Username
		var realm stun.Realm
		var nonce stun.Nonce
		var addr stun.XORMappedAddress
		fp := stun.Fingerprint
		var f func()
		var what string
		switch i {
		case 0:
			if c.Config != "rel" {
				return // the debug build documents an allocation for the detailed mismatch error
			}
			what = "Check(wrong key) failing, then Check(right key)"
			f = func() { _ = wrong.Check(m); _ = key.Check(m) }
		case 1:
			if c.Config != "rel" {
				return
			}
			what = "Check(wrong key) failing, then Build(..., &integrity) on another message"
			build := new(stun.Message)
			sw := stun.NewSoftware("x")
			setters := []stun.Setter{stun.BindingRequest, &sw, &key}
			_ = build.Build(setters...)
			f = func() { _ = wrong.Check(m); _ = build.Build(setters...) }
		case 2:
			what = "Parse(&user, &realm, &nonce, &addr) on a message without REALM"
			getters := []stun.Getter{&user, &realm, &nonce, &addr}
			_ = m.Parse(getters...)
			f = func() { _ = m.Parse(getters...) }
		default:
			what = "Check(&Fingerprint, &integrity) on a message without MESSAGE-INTEGRITY"
			checkers := []stun.Checker{&fp, &key}
			_ = m2.Check(checkers...)
			f = func() { _ = m2.Check(checkers...) }
		}
		f()
		c.Eval(1)
		if a := testing.AllocsPerRun(100, f); a != 0 {
			c.Violate("allocates", fmt.Sprintf("alloc:failure-in-the-hot-path:%d", i), map[string]interface{}{"operation": what, "allocs_per_run": a})
		}
	})
	// steady state means steady: more than a million checks on one warm message (in slices of 4096), thousands of small
	// messages between two large ones, several goroutines each on their own warm message
	c.SectionSerial("long-runs", 3, func(i int64, r *gen.Rand) {
		mallocs := func() uint64 {
			var ms runtime.MemStats
			runtime.ReadMemStats(&ms)

			return ms.Mallocs
		}
		key := stun.MessageIntegrity("long-run key")
		src := stun.MustBuild(stun.BindingRequest, stun.NewTransactionIDSetter(r.TID()), stun.NewUsername("u"), key, stun.Fingerprint)
		mk := func() *stun.Message {
			buf := make([]byte, len(src.Raw), len(src.Raw)+128)
			copy(buf, src.Raw)
			m := &stun.Message{Raw: buf}
			if err := m.Decode(); err != nil {
				fatalHarness("C20 long run: " + err.Error())
			}

			return m
		}
		switch i {
		case 0:
			if c.Config != "rel" {
				return
			}
			m := mk()
			for k := 0; k < 65536; k++ { // long warm-up: the runtime's own caches (interface assertions, pool victims) settle
				_ = key.Check(m)
			}
			total, worst, worstAt := uint64(0), uint64(0), 0
			n := 1<<20 + 1<<17
			for done := 0; done < n; done += 4096 {
				before := mallocs()
				for k := 0; k < 4096; k++ {
					_ = key.Check(m)
				}
				d := mallocs() - before
				total += d
				if d > worst {
					worst, worstAt = d, done
				}
			}
			c.Eval(1)
			c.Count("long_run_checks", int64(n))
			c.Max("long_run_stray_mallocs", int64(total))
			if worst >= 4 {
				c.Violate("allocates", "alloc:long-run:MessageIntegrity.Check", map[string]interface{}{
					"operation": fmt.Sprintf("%d consecutive MessageIntegrity.Check calls on one warm message", n), "mallocs_in_all": total,
					"worst_slice_of_4096": worst, "worst_slice_starts_at_call": 65536 + worstAt})
			}
		case 1:
			jumbo := stun.MustBuild(stun.BindingSuccess, stun.NewTransactionIDSetter(r.TID()), stun.RawAttribute{Type: stun.AttrData, Value: r.Bytes(40000)})
			small := stun.MustBuild(stun.BindingRequest, stun.NewTransactionIDSetter(r.TID()), stun.NewSoftware("small"))
			jw, sw := append([]byte(nil), jumbo.Raw...), append([]byte(nil), small.Raw...)
			m := new(stun.Message)
			_ = stun.Decode(jw, m)
			_ = stun.Decode(sw, m)
			_ = stun.Decode(jw, m)
			before := mallocs()
			for k := 0; k < 6000; k++ {
				switch k % 4 {
				case 0:
					_ = stun.Decode(sw, m)
				case 1:
					_, _ = m.Write(sw)
				case 2:
					_ = m.UnmarshalBinary(sw)
				default:
					_ = (&stun.Message{Raw: sw}).CloneTo(m)
				}
			}
			_ = stun.Decode(jw, m)
			d := mallocs() - before
			c.Eval(1)
			if d >= 2 { // (&stun.Message{...}) above does not escape; one stray runtime allocation is tolerated
				c.Violate("allocates", "alloc:long-run:large-small-large", map[string]interface{}{
					"operation": "a Message used for a 40 KB message decodes 6000 small messages and then the 40 KB message again", "mallocs": d})
			}
		default:
			if c.Config != "rel" {
				return
			}
			const g = 4
			defer runtime.GOMAXPROCS(runtime.GOMAXPROCS(g))
			msgs := make([]*stun.Message, g)
			for k := range msgs {
				msgs[k] = mk()
				for w := 0; w < 20000; w++ {
					_ = key.Check(msgs[k])
				}
			}
			var wg sync.WaitGroup
			warm := func(n int) {
				for k := 0; k < g; k++ {
					wg.Add(1)
					go func(m *stun.Message) {
						defer wg.Done()
						for w := 0; w < n; w++ {
							_ = key.Check(m)
						}
					}(msgs[k])
				}
				wg.Wait()
			}
			warm(50000) // every P's pool cache holds an object now
			before := mallocs()
			warm(200000)
			d := mallocs() - before
			c.Eval(1)
			c.Max("concurrent_long_run_mallocs", int64(d))
			switch {
			case d > 2000:
				c.Violate("allocates", "alloc:long-run:concurrent-checks", map[string]interface{}{
					"operation": fmt.Sprintf("%d goroutines, each checking its own warm message 200000 times", g), "mallocs": d})
			case d > 64:
				c.Inconclusive(1) // goroutine start-up and scheduler noise is a few dozen objects; this is neither
			}
		}
		c.Distinct(uint64(i) | 12<<50)
	})
	// an attribute-less message in between must not cost the warm attribute list
	c.SectionSerial("empty-then-full-decode", 3, func(i int64, r *gen.Rand) {
		setters := []stun.Setter{stun.BindingSuccess, stun.NewTransactionIDSetter(r.TID())}
		for k := 0; k < 4+6*int(i); k++ {
			setters = append(setters, stun.RawAttribute{Type: stun.AttrType(0x7f00 + k), Value: r.Bytes(12)})
		}
		full := append([]byte(nil), stun.MustBuild(setters...).Raw...)
		empty := append([]byte(nil), stun.MustBuild(stun.BindingRequest, stun.NewTransactionIDSetter(r.TID())).Raw...)
		m := new(stun.Message)
		_ = stun.Decode(full, m)
		c.Eval(1)
		a := testing.AllocsPerRun(100, func() { _ = stun.Decode(empty, m); _ = stun.Decode(full, m) })
		if a != 0 {
			c.Violate("allocates", "alloc:empty-then-full-decode", map[string]interface{}{
				"operation": "Decode of a header-only message, then Decode of the larger message the Message was warmed with", "attributes": 4 + 6*int(i), "allocs_per_run": a})
		}
	})
	// a ForEach whose callback stops early must not cost the next decode its warm attribute list
	c.SectionSerial("foreach-stop-then-decode", 4, func(i int64, r *gen.Rand) {
		m := new(stun.Message)
		setters := []stun.Setter{stun.BindingRequest, stun.NewTransactionIDSetter(r.TID())}
		for k := 0; k < 8; k++ {
			setters = append(setters, stun.RawAttribute{Type: stun.AttrType(0x7f00 + k%2), Value: r.Bytes(8)})
		}
		src := stun.MustBuild(setters...)
		wire := append([]byte(nil), src.Raw...)
		_ = stun.Decode(wire, m)
		stopAt := 1 + int(i)
		c.Eval(1)
		a := testing.AllocsPerRun(100, func() {
			n := 0
			_ = m.ForEach(0x7f01, func(*stun.Message) error {
				n++
				if n == stopAt {
					return errCallback
				}

				return nil
			})
			_ = stun.Decode(wire, m)
		})
		if a != 0 {
			c.Violate("allocates", "alloc:ForEach-stopped-early;Decode", map[string]interface{}{
				"operation": fmt.Sprintf("ForEach stopped by its callback at match %d, then Decode of the same message", stopAt), "allocs_per_run": a})
		}
	})
	c.Section("messages", c.N(400, 60000), func(i int64, r *gen.Rand) {
		if i%16 == 0 {
			runtime.GC() // bounded memory; the discarded warm-up call of AllocsPerRun absorbs the pool refill
		}
		g := c20Gen(r)
		c.Distinct(gen.HashBytes(g.wire))
		if c.WantSample() {
			c.Sample(map[string]interface{}{"message": g.desc, "hex_prefix": core.Hex(g.wire[:min(len(g.wire), 48)])})
		}
		for regime := 1; regime <= 2; regime++ {
			m := new(stun.Message)
			build := new(stun.Message)
			if regime == 1 {
				// S1: the Message and destinations were first used for a strictly larger message
				big := new(stun.Message)
				_ = stun.Decode(g.wire, big)
				big.Add(stun.AttrSoftware, make([]byte, 100))
				for k := 0; k < 8; k++ {
					big.Add(stun.AttrType(0x7f10+k), make([]byte, 9))
				}
				if err := stun.Decode(big.Raw, m); err != nil {
					fatalHarness("C20 warm-up decode: " + err.Error())
				}
				_ = build.Build(g.setters...)
				build.Add(stun.AttrSoftware, make([]byte, 200))
			}
			if err := stun.Decode(g.wire, m); err != nil {
				fatalHarness("C20 decode: " + err.Error())
			}
			_ = build.Build(g.setters...)
			spare := cap(m.Raw) - len(m.Raw)
			measure := func(op string, f func()) {
				c.Eval(1)
				a := testing.AllocsPerRun(100, f)
				if a == 0 {
					return
				}
				// confirm: allocation of the operation repeats
				a2 := testing.AllocsPerRun(100, f)
				if a2 == 0 {
					c.Count("unrepeatable_nonzero_measurements", 1)

					return
				}
				key := "alloc:" + op
				if op == "MessageIntegrity.Check" && spare < 20 && a == 1 && a2 == 1 {
					// known-finding signature, exact: this operation, this precondition, exactly one allocation
					key = "alloc:MessageIntegrity.Check:spare-capacity<20:allocs=1"
				}
				c.Violate("allocates", key, map[string]interface{}{
					"operation": op, "allocs_per_run": a, "regime": fmt.Sprintf("S%d", regime), "message": g.desc,
					"spare_capacity": spare, "key_len": len(g.key), "wire_hex": core.Hex(g.wire),
				})
			}
			measure("Decode", func() { _ = stun.Decode(g.wire, m) })
			measure("Write", func() { _, _ = m.Write(g.wire) })
			measure("UnmarshalBinary", func() { _ = m.UnmarshalBinary(g.wire) })
			for _, t := range g.types {
				t := t
				measure("Get", func() { _, _ = m.Get(t) })
				measure("Contains", func() { _ = m.Contains(t) })
				measure("ForEach", func() { _ = m.ForEach(t, errNoop) })

				break // one present type per message is enough; the loop below covers every typed getter
			}
			measure("Get(absent)", func() { _, _ = m.Get(0x7ffe) })
			for k, gt := range g.getters {
				gt := gt
				measure(fmt.Sprintf("%T.GetFrom", gt), func() { _ = gt.GetFrom(m) })
				if k >= 5 {
					break
				}
			}
			if len(g.getters) > 0 {
				measure("Parse", func() { _ = m.Parse(g.getters...) })
			}
			if g.key != nil {
				mi := stun.MessageIntegrity(g.key)
				measure("MessageIntegrity.Check", func() { _ = mi.Check(m) })
			}
			if g.fp {
				measure("Fingerprint.Check", func() { _ = stun.Fingerprint.Check(m) })
			}
			measure("Build(pointer setters)", func() { _ = build.Build(g.setters...) })
			c.Count(fmt.Sprintf("messages_in_regime_S%d", regime), 1)
		}
	})
}

func btoi(b bool) int {
	if b {
		return 1
	}

	return 0
}

func min(a, b int) int {
	if a < b {
		return a
	}

	return b
}
