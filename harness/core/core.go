// Package core is the worker-side framework: case iteration with a crash
// journal, violation records with replay coordinates, evidence counters.
package core

import (
	"encoding/hex"
	"encoding/json"
	"fmt"
	"os"
	"runtime/debug"
	"sort"
	"strconv"
	"strings"
	"sync"
	"syscall"

	"github.com/pion/stun/v3/verifharness/gen"
)

// Violation is one refuting observation.
type Violation struct {
	Property string      `json:"property"`
	Config   string      `json:"config"`
	Tier     string      `json:"tier"`
	Seed     uint64      `json:"seed"`
	Section  string      `json:"section"`
	Index    int64       `json:"index"`
	Kind     string      `json:"kind"`
	Key      string      `json:"key"` // signature used for known-finding matching
	Detail   interface{} `json:"detail"`
}

// Result is what a worker reports for one batch.
type Result struct {
	Property     string           `json:"property"`
	Config       string           `json:"config"`
	Batch        int              `json:"batch"`
	Evaluations  int64            `json:"evaluations"`
	Inconclusive int64            `json:"inconclusive"`
	Counters     map[string]int64 `json:"counters"`
	Distinct     []string         `json:"distinct"`     // hex hashes of distinct non-trivial cases (capped)
	DistinctCap  bool             `json:"distinct_cap"` // true if the cap was hit
	Samples      []interface{}    `json:"samples"`
	Violations   []Violation      `json:"violations"`
	Exhaustive   map[string]bool  `json:"exhaustive"` // sections swept completely (only meaningful when all batches agree)
	Notes        []string         `json:"notes"`
	Done         bool             `json:"done"`
}

const distinctCap = 1 << 19

// Ctx is handed to a property's workload.
type Ctx struct {
	Prop    string
	Tier    string
	Config  string
	Seed    uint64
	Batch   int
	NBatch  int
	OnlySec string // when replaying: run only this section ...
	OnlyIdx int64  // ... and this index (-1: all)
	Journal *os.File
	jmap    []byte // mmap of the journal file: survives a fatal runtime error of this process

	mu       sync.Mutex
	res      Result
	distinct map[uint64]struct{}
	curSec   string
	curIdx   int64
	maxViol  int
	// Known holds the keys of recorded known findings: they are reported but do not count against the violation cap.
	Known     map[string]bool
	knownHits map[string]int
}

// NewCtx makes a context.
func NewCtx(prop, tier, config string, seed uint64, batch, nbatch int) *Ctx {
	c := &Ctx{Prop: prop, Tier: tier, Config: config, Seed: seed, Batch: batch, NBatch: nbatch, OnlyIdx: -1}
	c.res = Result{Property: prop, Config: config, Batch: batch, Counters: map[string]int64{}, Exhaustive: map[string]bool{}}
	c.distinct = map[uint64]struct{}{}
	c.maxViol = 20

	return c
}

// Thorough reports whether the tier is thorough.
func (c *Ctx) Thorough() bool { return c.Tier == "thorough" }

// N picks the quick or thorough count.
func (c *Ctx) N(quick, thorough int64) int64 {
	if c.Thorough() {
		return thorough
	}

	return quick
}

// Replaying is true when a single case is being re-executed.
func (c *Ctx) Replaying() bool { return c.OnlyIdx >= 0 }

const (
	journalNoteOff = 128
	journalSize    = 2<<20 + 4096
)

func (c *Ctx) journal(sec string, idx int64) {
	if c.Journal == nil {
		return
	}
	line := fmt.Sprintf("%-60s %20d\n", sec, idx)
	if c.jmap == nil {
		if err := c.Journal.Truncate(journalSize); err == nil {
			if m, merr := syscall.Mmap(int(c.Journal.Fd()), 0, journalSize, syscall.PROT_READ|syscall.PROT_WRITE, syscall.MAP_SHARED); merr == nil {
				c.jmap = m
			}
		}
	}
	if c.jmap != nil {
		copy(c.jmap[:journalNoteOff], line)
		c.JournalNote(nil)

		return
	}
	_, _ = c.Journal.WriteAt([]byte(line), 0)
}

// JournalNote records the input about to be executed inside the current case
// (no system call: it is a store into a shared file mapping, so it costs
// nanoseconds and is still there after a stack overflow or an abort).
func (c *Ctx) JournalNote(b []byte) {
	if c.jmap == nil {
		return
	}
	n := len(b)
	if n > journalSize-journalNoteOff-8 {
		n = journalSize - journalNoteOff - 8
	}
	for k := 0; k < 8; k++ {
		c.jmap[journalNoteOff+k] = byte(uint64(n) >> (8 * uint(k)))
	}
	copy(c.jmap[journalNoteOff+8:], b[:n])
}

// Section runs f for every index of [0,n) that belongs to this batch. Each
// case gets its own generator derived from (seed, property, section, index),
// is journalled before it runs, and has panics turned into violations.
func (c *Ctx) Section(name string, n int64, f func(i int64, r *gen.Rand)) {
	if c.OnlySec != "" && c.OnlySec != name {
		return
	}
	if c.OnlyIdx >= 0 {
		if c.OnlySec != name {
			return
		}
		c.runCase(name, c.OnlyIdx, f)

		return
	}
	for i := int64(c.Batch); i < n; i += int64(c.NBatch) {
		c.runCase(name, i, f)
		if c.tooMany() {
			return
		}
	}
}

// Setup runs a preparation step of a property that already calls the library (every process runs it, replays too). It
// is journalled and recovered like a case, so that a library panic in it is a violation and not a dead worker.
func (c *Ctx) Setup(name string, f func()) {
	c.runCase(name, 0, func(int64, *gen.Rand) { f() })
}

// SectionFirst is for workloads that depend on what the process did FIRST with the library (lazily built tables,
// first user of a pool): it must be called at the very start of a property, before anything else touches the library.
// Batch b runs variant b (if b < n) and nothing else of the section, so that every variant gets a process of its
// own; a replay (-only name:idx) is a fresh process as well and runs the named variant first.
func (c *Ctx) SectionFirst(name string, n int64, f func(i int64, r *gen.Rand)) {
	if c.OnlyIdx >= 0 {
		if c.OnlySec == name {
			c.runCase(name, c.OnlyIdx, f)
		}

		return
	}
	if c.OnlySec != "" && c.OnlySec != name {
		return
	}
	if int64(c.Batch) < n {
		c.runCase(name, int64(c.Batch), f)
	}
}

// SectionSerial is like Section but runs every index in every batch 0 only
// (for small enumerations that are not worth splitting).
func (c *Ctx) SectionSerial(name string, n int64, f func(i int64, r *gen.Rand)) {
	if c.OnlySec != "" && c.OnlySec != name {
		return
	}
	if c.OnlyIdx < 0 && c.Batch != 0 {
		return
	}
	if c.OnlyIdx >= 0 {
		if c.OnlySec != name {
			return
		}
		c.runCase(name, c.OnlyIdx, f)

		return
	}
	for i := int64(0); i < n; i++ {
		c.runCase(name, i, f)
		if c.tooMany() {
			return
		}
	}
}

func (c *Ctx) tooMany() bool {
	c.mu.Lock()
	defer c.mu.Unlock()

	return c.countReal() >= c.maxViol
}

// countReal counts recorded violations that are not known findings (caller holds c.mu).
func (c *Ctx) countReal() int {
	n := 0
	for _, v := range c.res.Violations {
		if !c.Known[v.Key] {
			n++
		}
	}

	return n
}

func (c *Ctx) runCase(name string, i int64, f func(i int64, r *gen.Rand)) {
	c.mu.Lock()
	c.curSec, c.curIdx = name, i
	c.mu.Unlock()
	c.journal(name, i)
	r := gen.Derive(c.Seed, gen.HashString(c.Prop), gen.HashString(name), uint64(i))
	defer func() {
		if p := recover(); p != nil {
			c.Violate("panic", "panic:"+firstFrame(string(debug.Stack())), map[string]interface{}{
				"panic": fmt.Sprint(p), "stack": trimStack(string(debug.Stack())),
			})
		}
	}()
	f(i, r)
}

func trimStack(s string) string {
	lines := strings.Split(s, "\n")
	if len(lines) > 40 {
		lines = lines[:40]
	}

	return strings.Join(lines, "\n")
}

// firstFrame returns the first pion/stun (non-harness) function in a stack,
// used as part of the violation key.
func firstFrame(s string) string {
	for _, l := range strings.Split(s, "\n") {
		if strings.HasPrefix(l, "github.com/pion/stun/v3.") || strings.HasPrefix(l, "github.com/pion/stun/v3/internal") {
			if k := strings.Index(l, "("); k > 0 {
				// keep receiver form "(*T).M" intact: cut at the argument list (last '(')
				k = strings.LastIndex(l, "(")

				return l[:k]
			}

			return l
		}
	}

	return "?"
}

// Eval counts executed cases.
func (c *Ctx) Eval(n int64) {
	c.mu.Lock()
	c.res.Evaluations += n
	c.mu.Unlock()
}

// Count bumps a named counter (monitor observations).
func (c *Ctx) Count(name string, n int64) {
	c.mu.Lock()
	c.res.Counters[name] += n
	c.mu.Unlock()
}

// Max keeps the maximum of a named counter.
func (c *Ctx) Max(name string, v int64) {
	c.mu.Lock()
	if v > c.res.Counters[name] {
		c.res.Counters[name] = v
	}
	c.mu.Unlock()
}

// Inconclusive counts a case that could not be decided.
func (c *Ctx) Inconclusive(n int64) {
	c.mu.Lock()
	c.res.Inconclusive += n
	c.mu.Unlock()
}

// Distinct records a non-trivial case (by hash) for the distinct count.
func (c *Ctx) Distinct(h uint64) {
	c.mu.Lock()
	if len(c.distinct) < distinctCap {
		c.distinct[h] = struct{}{}
	} else {
		c.res.DistinctCap = true
	}
	c.mu.Unlock()
}

// DistinctStr records a non-trivial case class by name.
func (c *Ctx) DistinctStr(s string) { c.Distinct(gen.HashString(s)) }

// Sample keeps up to 6 written-out cases.
func (c *Ctx) Sample(v interface{}) {
	c.mu.Lock()
	if len(c.res.Samples) < 6 {
		c.res.Samples = append(c.res.Samples, v)
	}
	c.mu.Unlock()
}

// WantSample is true while more samples are wanted.
func (c *Ctx) WantSample() bool {
	c.mu.Lock()
	defer c.mu.Unlock()

	return len(c.res.Samples) < 6
}

// Note adds a free-text note to the result.
func (c *Ctx) Note(s string) {
	c.mu.Lock()
	c.res.Notes = append(c.res.Notes, s)
	c.mu.Unlock()
}

// MarkExhaustive records that a section was a complete enumeration.
func (c *Ctx) MarkExhaustive(section string) {
	c.mu.Lock()
	c.res.Exhaustive[section] = true
	c.mu.Unlock()
}

// Violate records a violation at the current case.
func (c *Ctx) Violate(kind, key string, detail interface{}) {
	c.mu.Lock()
	defer c.mu.Unlock()
	full := c.Prop + ":" + key
	if c.Known[full] {
		if c.knownHits == nil {
			c.knownHits = map[string]int{}
		}
		c.knownHits[full]++
		if c.knownHits[full] > 2 {
			c.res.Counters["known_finding_hits."+full]++

			return
		}
	} else if c.countReal() >= c.maxViol {
		return
	}
	c.res.Violations = append(c.res.Violations, Violation{
		Property: c.Prop, Config: c.Config, Tier: c.Tier, Seed: c.Seed,
		Section: c.curSec, Index: c.curIdx, Kind: kind, Key: c.Prop + ":" + key, Detail: detail,
	})
}

// Violated reports whether any violation was recorded so far.
func (c *Ctx) Violated() bool {
	c.mu.Lock()
	defer c.mu.Unlock()

	return len(c.res.Violations) > 0
}

// Finish writes the result file.
func (c *Ctx) Finish(path string) error {
	c.mu.Lock()
	defer c.mu.Unlock()
	c.res.Done = true
	keys := make([]uint64, 0, len(c.distinct))
	for k := range c.distinct {
		keys = append(keys, k)
	}
	sort.Slice(keys, func(i, j int) bool { return keys[i] < keys[j] })
	c.res.Distinct = make([]string, len(keys))
	for i, k := range keys {
		c.res.Distinct[i] = strconv.FormatUint(k, 16)
	}
	b, err := json.Marshal(&c.res)
	if err != nil {
		return err
	}

	return os.WriteFile(path, b, 0o644) //nolint:gosec
}

// Hex is a short helper for details.
func Hex(b []byte) string {
	if len(b) > 4096 {
		return hex.EncodeToString(b[:4096]) + fmt.Sprintf("...(+%d bytes)", len(b)-4096)
	}

	return hex.EncodeToString(b)
}

// Registry of property workloads.
var registry = map[string]func(*Ctx){} //nolint:gochecknoglobals

// Register adds a workload.
func Register(id string, f func(*Ctx)) { registry[id] = f }

// Lookup finds a workload.
func Lookup(id string) func(*Ctx) { return registry[id] }
