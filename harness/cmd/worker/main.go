// Command worker runs one batch of one property's workload against the
// pion/stun tree it was built from, and writes a JSON result.
package main

import (
	"flag"
	"fmt"
	"os"
	"runtime"
	"runtime/debug"
	"strconv"
	"strings"
	"time"

	"github.com/pion/stun/v3/verifharness/core"
	_ "github.com/pion/stun/v3/verifharness/props"
)

func main() {
	var (
		prop     = flag.String("prop", "", "property id")
		tier     = flag.String("tier", "quick", "quick|thorough")
		config   = flag.String("config", "rel", "build configuration label")
		seed     = flag.Uint64("seed", 1, "seed")
		batch    = flag.Int("batch", 0, "batch index")
		nbatch   = flag.Int("nbatch", 1, "number of batches")
		out      = flag.String("out", "", "result file")
		journal  = flag.String("journal", "", "journal file (current case, written before it runs)")
		only     = flag.String("only", "", "section:index — run a single case")
		section  = flag.String("section", "", "run only this section")
		known    = flag.String("known", "", "file with known-finding keys, one per line (they do not count against the violation cap)")
		maxStack = flag.Int("maxstack", 64<<20, "debug.SetMaxStack")
		heapMax  = flag.Int64("heapmax", 6<<30, "abort if HeapAlloc exceeds this")
	)
	flag.Parse()
	f := core.Lookup(*prop)
	if f == nil {
		fmt.Fprintln(os.Stderr, "unknown property", *prop)
		os.Exit(3)
	}
	debug.SetMaxStack(*maxStack)
	if *heapMax > 0 {
		go heapWatch(*heapMax)
	}
	ctx := core.NewCtx(*prop, *tier, *config, *seed, *batch, *nbatch)
	if *journal != "" {
		jf, err := os.OpenFile(*journal, os.O_CREATE|os.O_RDWR|os.O_TRUNC, 0o644)
		if err != nil {
			fmt.Fprintln(os.Stderr, "journal:", err)
			os.Exit(3)
		}
		ctx.Journal = jf
	}
	if *section != "" {
		ctx.OnlySec = *section
	}
	if *known != "" {
		ctx.Known = map[string]bool{}
		if data, err := os.ReadFile(*known); err == nil {
			for _, l := range strings.Split(string(data), "\n") {
				if l = strings.TrimSpace(l); l != "" {
					ctx.Known[l] = true
				}
			}
		}
	}
	if *only != "" {
		k := strings.LastIndex(*only, ":")
		if k < 0 {
			fmt.Fprintln(os.Stderr, "bad -only")
			os.Exit(3)
		}
		idx, err := strconv.ParseInt((*only)[k+1:], 10, 64)
		if err != nil {
			fmt.Fprintln(os.Stderr, "bad -only index")
			os.Exit(3)
		}
		ctx.OnlySec, ctx.OnlyIdx = (*only)[:k], idx
	}
	f(ctx)
	if *out != "" {
		if err := ctx.Finish(*out); err != nil {
			fmt.Fprintln(os.Stderr, "result:", err)
			os.Exit(3)
		}
	}
	if ctx.Violated() {
		os.Exit(1)
	}
}

// heapWatch is the in-process memory monitor: the sandbox has no memory
// limit, so a runaway allocation must end this child, not the machine.
func heapWatch(limit int64) {
	var ms runtime.MemStats
	for {
		time.Sleep(200 * time.Millisecond)
		runtime.ReadMemStats(&ms)
		if int64(ms.HeapAlloc) > limit {
			fmt.Fprintf(os.Stderr, "HEAP-WATCHDOG: HeapAlloc=%d > %d\n", ms.HeapAlloc, limit)
			os.Exit(97)
		}
	}
}
