// Package ref holds the independent reference oracles. It imports nothing
// from pion/stun: everything here is written from the RFC text (RFC 5389
// sections 6 and 15, RFC 2104, IEEE 802.3 CRC-32) in a deliberately different
// style from the library (index arithmetic over the whole buffer, no
// re-slicing).
package ref

import (
	"crypto/hmac"
	"crypto/md5"  //nolint:gosec
	"crypto/sha1" //nolint:gosec
	"crypto/sha256"
	"hash"
)

// Cookie is the RFC 5389 magic cookie.
const Cookie = 0x2112A442

// TLV is one attribute found by the reference parser.
type TLV struct {
	Type uint16 // after the 0x8020 -> 0x0020 compatibility mapping
	Wire uint16 // type as found on the wire
	Len  int    // declared value length
	Off  int    // offset of the first value byte in the input
}

// Msg is the result of a successful reference parse.
type Msg struct {
	Lead2  uint8  // the two most significant bits of the type field
	Type14 uint16 // low 14 bits of the type field
	Class  uint8
	Method uint16
	Length int
	TID    [12]byte
	TLVs   []TLV
}

// Reject reasons.
const (
	RejShortHeader = "short-header"
	RejCookie      = "cookie"
	RejShortBody   = "short-body"
	RejAttrHeader  = "attr-header"
	RejAttrValue   = "attr-value"
)

// Parse is the independent RFC 5389 framing parser. It returns a nil Msg and
// a reason when the bytes are not a STUN message.
func Parse(b []byte) (*Msg, string) {
	if len(b) < 20 {
		return nil, RejShortHeader
	}
	if uint32(b[4])<<24|uint32(b[5])<<16|uint32(b[6])<<8|uint32(b[7]) != Cookie {
		return nil, RejCookie
	}
	typ := uint16(b[0])<<8 | uint16(b[1])
	length := int(b[2])<<8 | int(b[3])
	if len(b) < 20+length {
		return nil, RejShortBody
	}
	m := &Msg{Lead2: uint8(typ >> 14), Type14: typ & 0x3fff, Length: length}
	m.Method, m.Class = SplitType(typ)
	for i := 0; i < 12; i++ {
		m.TID[i] = b[8+i]
	}
	end := 20 + length
	pos := 20
	for pos < end {
		if end-pos < 4 {
			return nil, RejAttrHeader
		}
		t := uint16(b[pos])<<8 | uint16(b[pos+1])
		l := int(b[pos+2])<<8 | int(b[pos+3])
		pos += 4
		padded := l
		for padded%4 != 0 {
			padded++
		}
		if end-pos < padded {
			return nil, RejAttrValue
		}
		mapped := t
		if t == 0x8020 {
			mapped = 0x0020
		}
		m.TLVs = append(m.TLVs, TLV{Type: mapped, Wire: t, Len: l, Off: pos})
		pos += padded
	}

	return m, ""
}

// Attr is a (type, value) pair for the reference encoder.
type Attr struct {
	Type  uint16
	Value []byte
}

// Encode produces the canonical wire form (zero padding).
func Encode(typ uint16, tid [12]byte, attrs []Attr) []byte {
	body := 0
	for _, a := range attrs {
		body += 4 + (len(a.Value)+3)/4*4
	}
	out := make([]byte, 20+body)
	out[0], out[1] = byte(typ>>8), byte(typ)
	out[2], out[3] = byte(body>>8), byte(body)
	out[4], out[5], out[6], out[7] = 0x21, 0x12, 0xA4, 0x42
	for i := 0; i < 12; i++ {
		out[8+i] = tid[i]
	}
	pos := 20
	for _, a := range attrs {
		out[pos], out[pos+1] = byte(a.Type>>8), byte(a.Type)
		out[pos+2], out[pos+3] = byte(len(a.Value)>>8), byte(len(a.Value))
		for i, v := range a.Value {
			out[pos+4+i] = v
		}
		pos += 4 + (len(a.Value)+3)/4*4
	}

	return out
}

// typeLayout is RFC 5389 figure 3, most significant of the 14 bits first.
var typeLayout = [14]string{"M11", "M10", "M9", "M8", "M7", "C1", "M6", "M5", "M4", "C0", "M3", "M2", "M1", "M0"} //nolint:gochecknoglobals

func layoutBit(name string, method uint16, class uint8) uint16 {
	n := 0
	for _, ch := range name[1:] {
		n = n*10 + int(ch-'0')
	}
	if name[0] == 'M' {
		return (method >> uint(n)) & 1
	}

	return uint16(class>>uint(n)) & 1
}

// JoinType builds the 14-bit type value bit by bit from figure 3.
func JoinType(method uint16, class uint8) uint16 {
	var v uint16
	for i, name := range typeLayout {
		v |= layoutBit(name, method, class) << uint(13-i)
	}

	return v
}

// SplitType reads method and class from the low 14 bits of v, bit by bit.
func SplitType(v uint16) (method uint16, class uint8) {
	for i, name := range typeLayout {
		bit := (v >> uint(13-i)) & 1
		n := 0
		for _, ch := range name[1:] {
			n = n*10 + int(ch-'0')
		}
		if name[0] == 'M' {
			method |= bit << uint(n)
		} else {
			class |= uint8(bit) << uint(n)
		}
	}

	return method, class
}

// CRC32 is the IEEE 802.3 CRC computed bit by bit (no table, no hash/crc32).
func CRC32(b []byte) uint32 {
	crc := ^uint32(0)
	for _, x := range b {
		crc ^= uint32(x)
		for k := 0; k < 8; k++ {
			if crc&1 == 1 {
				crc = crc>>1 ^ 0xEDB88320
			} else {
				crc >>= 1
			}
		}
	}

	return ^crc
}

// FingerprintValue is CRC32 XOR 0x5354554e.
func FingerprintValue(b []byte) uint32 { return CRC32(b) ^ 0x5354554e }

// HMACSHA1 is the standard library HMAC (independent of stun/internal/hmac).
func HMACSHA1(key, msg []byte) []byte { return hmacOf(sha1.New, key, msg) }

// HMACSHA256 likewise.
func HMACSHA256(key, msg []byte) []byte { return hmacOf(sha256.New, key, msg) }

func hmacOf(h func() hash.Hash, key, msg []byte) []byte {
	m := hmac.New(h, key)
	m.Write(msg) //nolint:errcheck

	return m.Sum(nil)
}

// LongTermKey is MD5(user ":" realm ":" password).
func LongTermKey(user, realm, pass string) []byte {
	s := md5.Sum([]byte(user + ":" + realm + ":" + pass)) //nolint:gosec

	return s[:]
}

// IntegrityExpected computes, for a parsed message, the MAC that RFC 5389
// section 15.4 prescribes for the first MESSAGE-INTEGRITY attribute: HMAC-SHA1 over
// the bytes before that attribute with the header length rewritten to end
// right after a 24-byte MESSAGE-INTEGRITY TLV. ok is false when there is no such attribute.
func IntegrityExpected(b []byte, m *Msg, key []byte) (mac []byte, tlv TLV, ok bool) {
	for _, t := range m.TLVs {
		if t.Type != 0x0008 {
			continue
		}
		start := t.Off - 4
		pre := make([]byte, start)
		copy(pre, b[:start])
		l := start - 20 + 24
		pre[2], pre[3] = byte(l>>8), byte(l)

		return HMACSHA1(key, pre), t, true
	}

	return nil, TLV{}, false
}

// ---- typed attribute codecs (RFC 5389 section 15) ----

// EncXORAddr encodes an XOR-MAPPED-ADDRESS style value. ip must be 4 or 16 bytes.
func EncXORAddr(ip []byte, port int, tid [12]byte) []byte {
	v := make([]byte, 4+len(ip))
	v[0] = 0
	if len(ip) == 4 {
		v[1] = 1
	} else {
		v[1] = 2
	}
	xp := uint16(port) ^ 0x2112
	v[2], v[3] = byte(xp>>8), byte(xp)
	pad := append([]byte{0x21, 0x12, 0xA4, 0x42}, tid[:]...)
	for i := range ip {
		v[4+i] = ip[i] ^ pad[i]
	}

	return v
}

// DecXORAddr decodes; ok=false on malformed values.
func DecXORAddr(v []byte, tid [12]byte) (ip []byte, port int, ok bool) {
	if len(v) < 4 || v[0] != 0 {
		return nil, 0, false
	}
	var n int
	switch v[1] {
	case 1:
		n = 4
	case 2:
		n = 16
	default:
		return nil, 0, false
	}
	if len(v) != 4+n {
		return nil, 0, false
	}
	port = int((uint16(v[2])<<8 | uint16(v[3])) ^ 0x2112)
	pad := append([]byte{0x21, 0x12, 0xA4, 0x42}, tid[:]...)
	ip = make([]byte, n)
	for i := range ip {
		ip[i] = v[4+i] ^ pad[i]
	}

	return ip, port, true
}

// EncAddr encodes a MAPPED-ADDRESS style value.
func EncAddr(ip []byte, port int) []byte {
	v := make([]byte, 4+len(ip))
	if len(ip) == 4 {
		v[1] = 1
	} else {
		v[1] = 2
	}
	v[2], v[3] = byte(port>>8), byte(port)
	copy(v[4:], ip)

	return v
}

// DecAddr decodes a MAPPED-ADDRESS style value.
func DecAddr(v []byte) (ip []byte, port int, ok bool) {
	if len(v) < 4 || v[0] != 0 {
		return nil, 0, false
	}
	var n int
	switch v[1] {
	case 1:
		n = 4
	case 2:
		n = 16
	default:
		return nil, 0, false
	}
	if len(v) != 4+n {
		return nil, 0, false
	}

	return append([]byte(nil), v[4:]...), int(v[2])<<8 | int(v[3]), true
}

// EncErrorCode encodes ERROR-CODE: 21 zero bits, 3-bit class, 8-bit number, reason.
func EncErrorCode(code int, reason []byte) []byte {
	v := make([]byte, 4+len(reason))
	v[2] = byte(code/100) & 7
	v[3] = byte(code % 100)
	copy(v[4:], reason)

	return v
}

// DecErrorCode decodes ERROR-CODE.
func DecErrorCode(v []byte) (code int, reason []byte, ok bool) {
	if len(v) < 4 {
		return 0, nil, false
	}

	return int(v[2]&7)*100 + int(v[3]), append([]byte(nil), v[4:]...), true
}

// EncUnknown encodes UNKNOWN-ATTRIBUTES: a list of 16-bit types.
func EncUnknown(types []uint16) []byte {
	v := make([]byte, 0, 2*len(types))
	for _, t := range types {
		v = append(v, byte(t>>8), byte(t))
	}

	return v
}

// DecUnknown decodes UNKNOWN-ATTRIBUTES.
func DecUnknown(v []byte) ([]uint16, bool) {
	if len(v)%2 != 0 {
		return nil, false
	}
	out := make([]uint16, 0, len(v)/2)
	for i := 0; i < len(v); i += 2 {
		out = append(out, uint16(v[i])<<8|uint16(v[i+1]))
	}

	return out, true
}
