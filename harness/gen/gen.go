// Package gen holds the seeded generators and mutators. Nothing here uses a
// global PRNG or the clock: a case is a pure function of (seed, property,
// section, index).
package gen

import (
	"github.com/pion/stun/v3/verifharness/ref"
)

// Rand is splitmix64.
type Rand struct{ s uint64 }

// New returns a generator seeded with s.
func New(s uint64) *Rand { return &Rand{s: s} }

// Derive mixes coordinates into a fresh generator.
func Derive(seed uint64, parts ...uint64) *Rand {
	r := New(seed ^ 0x9E3779B97F4A7C15)
	for _, p := range parts {
		r.s ^= p * 0xBF58476D1CE4E5B9
		r.U64()
	}

	return r
}

// HashString folds a string into a uint64 (FNV-1a).
func HashString(s string) uint64 {
	h := uint64(14695981039346656037)
	for i := 0; i < len(s); i++ {
		h ^= uint64(s[i])
		h *= 1099511628211
	}

	return h
}

// HashBytes folds bytes into a uint64 (FNV-1a).
func HashBytes(b []byte) uint64 {
	h := uint64(14695981039346656037)
	for _, x := range b {
		h ^= uint64(x)
		h *= 1099511628211
	}

	return h
}

// U64 returns the next value.
func (r *Rand) U64() uint64 {
	r.s += 0x9E3779B97F4A7C15
	z := r.s
	z = (z ^ (z >> 30)) * 0xBF58476D1CE4E5B9
	z = (z ^ (z >> 27)) * 0x94D049BB133111EB

	return z ^ (z >> 31)
}

// Intn returns a value in [0,n).
func (r *Rand) Intn(n int) int {
	if n <= 0 {
		return 0
	}

	return int(r.U64() % uint64(n))
}

// Range returns a value in [lo,hi].
func (r *Rand) Range(lo, hi int) int { return lo + r.Intn(hi-lo+1) }

// Bool returns a fair coin.
func (r *Rand) Bool() bool { return r.U64()&1 == 1 }

// Chance is true with probability num/den.
func (r *Rand) Chance(num, den int) bool { return r.Intn(den) < num }

// Bytes returns n random bytes.
func (r *Rand) Bytes(n int) []byte {
	b := make([]byte, n)
	r.Fill(b)

	return b
}

// Fill fills b with random bytes.
func (r *Rand) Fill(b []byte) {
	i := 0
	for i+8 <= len(b) {
		v := r.U64()
		for k := 0; k < 8; k++ {
			b[i+k] = byte(v >> (8 * uint(k)))
		}
		i += 8
	}
	if i < len(b) {
		v := r.U64()
		for ; i < len(b); i++ {
			b[i] = byte(v)
			v >>= 8
		}
	}
}

// TID returns a random transaction id.
func (r *Rand) TID() (t [12]byte) {
	r.Fill(t[:])

	return t
}

// PickU16 picks one of the values.
func (r *Rand) PickU16(v []uint16) uint16 { return v[r.Intn(len(v))] }

// PickInt picks one of the values.
func (r *Rand) PickInt(v []int) int { return v[r.Intn(len(v))] }

// KnownAttrTypes are the named attribute constants of the library plus the
// legacy alias, written as numbers so that gen does not import stun.
var KnownAttrTypes = []uint16{ //nolint:gochecknoglobals
	0x0001, 0x0006, 0x0008, 0x0009, 0x000A, 0x0014, 0x0015, 0x0020, 0x8022, 0x8023, 0x8028,
	0x0024, 0x0025, 0x8029, 0x802A, 0x000C, 0x000D, 0x0012, 0x0013, 0x0016, 0x0018, 0x0019,
	0x001A, 0x0022, 0x0003, 0x0026, 0x0027, 0x8027, 0x802b, 0x802C, 0x0004, 0x0005, 0x002a,
	0x0017, 0x802F, 0x001C, 0x001D, 0x001E, 0x8002, 0x8003, 0x8020,
}

// AttrType draws an attribute type: mostly named ones, sometimes random.
func (r *Rand) AttrType() uint16 {
	if r.Chance(1, 6) {
		return uint16(r.U64())
	}

	return r.PickU16(KnownAttrTypes)
}

// ValueLen draws an attribute value length biased to small values, every
// residue mod 4, and occasionally large.
func (r *Rand) ValueLen(max int) int {
	var n int
	switch r.Intn(10) {
	case 0:
		n = 0
	case 1, 2, 3, 4:
		n = r.Intn(13)
	case 5, 6:
		n = r.Intn(41)
	case 7:
		n = 20 + r.Intn(5) - 2
	case 8:
		n = r.Intn(300)
	default:
		n = r.Intn(max + 1)
	}
	if n > max {
		n = max
	}

	return n
}

// MsgSpec is a message by content.
type MsgSpec struct {
	Type  uint16 // 16-bit type field as on the wire
	TID   [12]byte
	Attrs []ref.Attr
}

// Spec draws a well-formed message content with up to maxAttrs attributes
// and value lengths up to maxVal.
func (r *Rand) Spec(maxAttrs, maxVal int) MsgSpec {
	s := MsgSpec{TID: r.TID()}
	switch r.Intn(4) {
	case 0:
		s.Type = 0x0001
	case 1:
		s.Type = 0x0101
	case 2:
		s.Type = uint16(r.U64()) & 0x3fff
	default:
		s.Type = ref.JoinType(uint16(r.Intn(0x1000)), uint8(r.Intn(4)))
	}
	n := r.Intn(maxAttrs + 1)
	for i := 0; i < n; i++ {
		a := ref.Attr{Type: r.AttrType(), Value: r.Bytes(r.ValueLen(maxVal))}
		if r.Chance(1, 40) {
			a = ref.Attr{Type: 0x0000, Value: nil} // four zero bytes are an attribute too (type 0, length 0)
		}
		s.Attrs = append(s.Attrs, a)
	}

	return s
}

// NearMaxSpec draws a message whose body is within 20 bytes of the largest
// one the 16-bit length field can describe (65532), i.e. 65536..65552 bytes
// on the wire: a few small attributes and one that fills the rest.
func (r *Rand) NearMaxSpec() MsgSpec {
	s := r.Spec(3, 40)
	used := 0
	for _, a := range s.Attrs {
		used += 4 + (len(a.Value)+3)/4*4
	}
	body := 65532 - 4*r.Intn(6)
	rest := body - used - 4
	big := ref.Attr{Type: r.AttrType(), Value: r.Bytes(rest - r.Intn(4))}
	at := r.Intn(len(s.Attrs) + 1)
	s.Attrs = append(s.Attrs[:at], append([]ref.Attr{big}, s.Attrs[at:]...)...)

	return s
}

// Wire encodes the spec canonically.
func (s MsgSpec) Wire() []byte { return ref.Encode(s.Type, s.TID, s.Attrs) }

// WireDirty encodes the spec with random padding bytes, optionally random
// leading type bits and trailing bytes (all tolerated by RFC 5389 decoders).
func (r *Rand) WireDirty(s MsgSpec) []byte {
	b := ref.Encode(s.Type, s.TID, s.Attrs)
	pos := 20
	for _, a := range s.Attrs {
		pad := (4 - len(a.Value)%4) % 4
		for k := 0; k < pad; k++ {
			b[pos+4+len(a.Value)+k] = byte(r.U64())
		}
		pos += 4 + len(a.Value) + pad
	}
	if r.Chance(1, 4) {
		b[0] |= byte(r.Intn(4)) << 6
	}
	if r.Chance(1, 4) {
		b = append(b, r.Bytes(1+r.Intn(9))...)
	}

	return b
}

// Mutate applies 1..3 random mutations to a copy of b.
func (r *Rand) Mutate(b []byte) []byte {
	out := append([]byte(nil), b...)
	for k := 1 + r.Intn(3); k > 0; k-- {
		if len(out) == 0 {
			out = append(out, byte(r.U64()))

			continue
		}
		switch r.Intn(9) {
		case 0: // bit flip
			i := r.Intn(len(out))
			out[i] ^= 1 << uint(r.Intn(8))
		case 1: // byte set
			out[r.Intn(len(out))] = byte(r.U64())
		case 2: // truncate
			out = out[:r.Intn(len(out)+1)]
		case 3: // header length arithmetic
			if len(out) >= 4 {
				l := int(out[2])<<8 | int(out[3])
				l += r.Range(-4, 4)
				if r.Chance(1, 8) {
					l = 0xFFFF
				}
				out[2], out[3] = byte(l>>8), byte(l)
			}
		case 4: // attribute length arithmetic at a 4-aligned position
			if len(out) >= 24 {
				p := 20 + 4*r.Intn((len(out)-20)/4)
				if p+4 <= len(out) {
					l := int(out[p+2])<<8 | int(out[p+3])
					l += r.Range(-4, 4)
					if r.Chance(1, 8) {
						l = 0xFFFF
					}
					out[p+2], out[p+3] = byte(l>>8), byte(l)
				}
			}
		case 5: // append bytes
			out = append(out, r.Bytes(1+r.Intn(8))...)
		case 6: // duplicate a 4-aligned chunk
			if len(out) >= 28 {
				p := 20 + 4*r.Intn((len(out)-20)/4)
				q := p + 4*(1+r.Intn(4))
				if q <= len(out) {
					chunk := append([]byte(nil), out[p:q]...)
					out = append(out[:q], append(chunk, out[q:]...)...)
				}
			}
		case 7: // delete a 4-aligned chunk
			if len(out) >= 28 {
				p := 20 + 4*r.Intn((len(out)-20)/4)
				q := p + 4*(1+r.Intn(4))
				if q <= len(out) {
					out = append(out[:p], out[q:]...)
				}
			}
		default: // fix header length to the real body length
			if len(out) >= 20 {
				l := len(out) - 20
				out[2], out[3] = byte(l>>8), byte(l)
			}
		}
	}

	return out
}

// Hostile draws an arbitrary byte string meant for decoders: valid,
// dirty-valid, mutated, header-only variants, or uniform random.
func (r *Rand) Hostile(seeds [][]byte, maxLen int) []byte {
	if r.Chance(1, 25) {
		// a valid message inside some other framing: RFC 4571 / ICE-TCP 16-bit length prefix, a 4-byte prefix, TURN
		// ChannelData header, the message twice. As a whole none of these is a STUN message unless its own first 20
		// bytes say so.
		m := r.WireDirty(r.Spec(4, 24))
		switch r.Intn(5) {
		case 0:
			return append([]byte{byte(len(m) >> 8), byte(len(m))}, m...)
		case 1:
			return append([]byte{0, 0, byte(len(m) >> 8), byte(len(m))}, m...)
		case 2:
			return append([]byte{0x40, 0x00, byte(len(m) >> 8), byte(len(m))}, m...)
		case 3:
			return append([]byte{byte(len(m) + 2>>8), byte(len(m) + 2)}, m...)
		default:
			return append(append([]byte(nil), m[:len(m)-1]...), m...)
		}
	}
	switch r.Intn(10) {
	case 0: // uniform random, any length
		n := r.Intn(64)
		if r.Chance(1, 10) {
			n = r.Intn(maxLen + 1)
		}

		return r.Bytes(n)
	case 1: // random with valid cookie and a plausible length
		n := 20 + r.Intn(80)
		b := r.Bytes(n)
		b[4], b[5], b[6], b[7] = 0x21, 0x12, 0xA4, 0x42
		l := n - 20 + r.Range(-3, 3)
		if l < 0 {
			l = 0
		}
		if r.Bool() {
			l &^= 3
		}
		b[2], b[3] = byte(l>>8), byte(l)

		return b
	case 2, 3: // valid canonical
		return r.Spec(8, 64).Wire()
	case 4: // dirty but valid
		return r.WireDirty(r.Spec(8, 64))
	case 5: // mutated seed
		if len(seeds) > 0 {
			return r.Mutate(seeds[r.Intn(len(seeds))])
		}

		fallthrough
	case 6, 7: // mutated valid
		return r.Mutate(r.WireDirty(r.Spec(6, 48)))
	case 8: // large valid
		s := r.Spec(4, 3000)
		if r.Chance(1, 8) {
			// body at the very top of the 16-bit length field: 65516..65532
			s.Attrs = []ref.Attr{{Type: r.AttrType(), Value: r.Bytes(65532 - 4 - 4*r.Intn(5) - r.Intn(4))}}
		} else if r.Chance(1, 8) {
			// very many tiny attributes (more than a thousand)
			s.Attrs = s.Attrs[:0]
			for k := 1000 + r.Intn(2000); k > 0; k-- {
				s.Attrs = append(s.Attrs, ref.Attr{Type: r.AttrType(), Value: r.Bytes(r.Intn(3))})
			}
		} else if r.Chance(1, 6) {
			// single huge attribute filling the 16-bit length
			s.Attrs = []ref.Attr{{Type: r.AttrType(), Value: r.Bytes(r.Range(60000, 65531))}}
		}
		b := s.Wire()
		if len(b) > maxLen {
			b = b[:maxLen]
		}

		return b
	default: // truncated valid at a random byte
		b := r.WireDirty(r.Spec(6, 32))

		return b[:r.Intn(len(b)+1)]
	}
}
