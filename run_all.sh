#!/bin/sh
# convenience: run every quick (or $1) check, print one line each
tier=${1:-quick}
for p in C01 C02 C03 C04 C05 C06 C07 C08 C09 C10 C11 C12 C13 C14 C15 C16 C17 C18 C19 C20; do
  s=$(date +%s.%N)
  out=$(./check.sh $p $tier 2>&1); rc=$?
  e=$(date +%s.%N)
  echo "$p rc=$rc $(echo "$e - $s" | bc | cut -c1-6)s $(echo "$out" | grep -c '^VIOLATION') violations $(echo "$out" | grep -c '^KNOWN-FINDING') known | $(echo "$out" | grep -E '^(INFRA|INCONCLUSIVE)' | head -1 | cut -c1-200)"
done
