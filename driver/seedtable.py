#!/usr/bin/env python3
"""Renders seeded/RESULTS.json (written by SELFTEST_JSON=... driver/selftest.py) as the markdown table of DESIGN.md 9.5."""
import json
import os
import re

VERIF = os.path.dirname(os.path.dirname(os.path.abspath(__file__)))
res = json.load(open(os.path.join(VERIF, "seeded", "RESULTS.json")))
rows = []
for r in sorted(res, key=lambda x: x["name"]):
    d = os.path.join(VERIF, "seeded", r["name"])
    meta = json.load(open(os.path.join(d, "meta.json")))
    what = meta.get("summary") or meta.get("needs_to_manifest", "")
    if what == "see README.md" and os.path.exists(os.path.join(d, "README.md")):
        txt = open(os.path.join(d, "README.md")).read()
        m = re.search(r"^#+\s*(.+)$", txt, re.M)
        what = m.group(1).strip() if m else txt.strip().splitlines()[0]
    what = what.replace("|", "/")[:150]
    keys = []
    if isinstance(r["info"], dict):
        for prop, v in r["info"]["checks"].items():
            if v["violations"]:
                keys.append("%s: %s" % (prop, ", ".join(k.split(":", 1)[1][:60] for k in v["keys"][:3])))
    rows.append("| %s | %s | %s | %s |" % (r["name"], what, r["verdict"], "; ".join(keys).replace("|", "/")))
print("| seeded change | what it is / needs | verdict (quick tier) | violation keys reported |")
print("|---|---|---|---|")
print("\n".join(rows))
print()
print("%d seeded changes, %d detected." % (len(res), sum(1 for r in res if r["verdict"] == "DETECTED")))
