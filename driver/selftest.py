#!/usr/bin/env python3
"""Sensitivity check of the monitors: applies each seeded change under /verif/seeded/<name>/patch.diff to a scratch
worktree of /repo (outside /repo and /verif), confirms that it builds and that the repository's own suite still passes,
runs the owning property's check against it (VERIF_REPO) and expects a VIOLATION. Scratch trees are removed right away.

  selftest.py [--tier quick|thorough] [--no-suite] [name ...]
"""
import json
import os
import shutil
import subprocess
import sys
import tempfile
import time

VERIF = os.path.dirname(os.path.dirname(os.path.abspath(__file__)))
ENV = dict(os.environ)
ENV.update({"GOFLAGS": "-mod=mod", "GOPROXY": "off", "GOSUMDB": "off", "GOTOOLCHAIN": "local"})


def sh(cmd, cwd=None, env=None, timeout=3600):
    p = subprocess.run(cmd, cwd=cwd, env=env or ENV, stdout=subprocess.PIPE, stderr=subprocess.STDOUT, text=True, timeout=timeout)
    return p.returncode, p.stdout


def main():
    args = sys.argv[1:]
    tier = "quick"
    suite = True
    names = []
    while args:
        a = args.pop(0)
        if a == "--tier":
            tier = args.pop(0)
        elif a == "--no-suite":
            suite = False
        else:
            names.append(a)
    root = os.path.join(VERIF, "seeded")
    if not names:
        names = sorted(d for d in os.listdir(root) if os.path.exists(os.path.join(root, d, "patch.diff")))
    results = []
    jobs = int(os.environ.get("SELFTEST_JOBS", "1"))
    if jobs > 1:
        import concurrent.futures as cf
        with cf.ThreadPoolExecutor(max_workers=jobs) as ex:
            for part in ex.map(lambda n: run_one(root, n, tier, suite), names):
                results += part
        names = []
    for name in names:
        results += run_one(root, name, tier, suite)
    return finish(results)


def run_one(root, name, tier, suite):
    results = []
    for name in [name]:
        d = os.path.join(root, name)
        meta = json.load(open(os.path.join(d, "meta.json")))
        wt = tempfile.mkdtemp(prefix="vseed-", dir="/tmp")
        os.rmdir(wt)
        rc, out = sh(["git", "-C", "/repo", "worktree", "add", "--detach", wt, "HEAD"])
        if rc != 0:
            print(name, "worktree failed", out)
            continue
        try:
            rc, out = sh(["git", "-C", wt, "apply", os.path.join(d, "patch.diff")])
            if rc != 0:
                results.append((name, "PATCH-DOES-NOT-APPLY", out[:300]))
                continue
            suite_ok = None
            if suite:
                rc, out = sh(["go", "build", "./..."], cwd=wt)
                if rc != 0:
                    results.append((name, "DOES-NOT-BUILD", out[:300]))
                    continue
                rc, out = sh(["go", "test", "-vet=off", "-count=1", "./..."], cwd=wt)
                suite_ok = rc == 0
            verdicts = {}
            for prop in meta["properties"]:
                env = dict(ENV)
                env["VERIF_REPO"] = wt
                env["VERIF_EVIDENCE_DIR"] = os.path.join(wt, ".verif-evidence")
                t0 = time.time()
                rc, out = sh([os.path.join(VERIF, "check.sh"), prop, tier], cwd=VERIF, env=env)
                viol = [l for l in out.splitlines() if l.startswith("VIOLATION")]
                keys = sorted({l.split("key=")[1].split()[0] for l in out.splitlines() if "key=" in l and l.strip().startswith("kind=")})
                verdicts[prop] = {"exit": rc, "violations": len(viol), "keys": keys[:6], "wall_s": round(time.time() - t0, 1)}
            detected = any(v["exit"] == 1 and v["violations"] > 0 for v in verdicts.values())
            verdict = "DETECTED" if detected else "MISSED"
            if not detected and meta.get("out_of_scope"):
                verdict = "OUT-OF-SCOPE"
            results.append((name, verdict, {"suite_passes": suite_ok, "checks": verdicts, "out_of_scope": meta.get("out_of_scope")}))
        finally:
            sh(["git", "-C", "/repo", "worktree", "remove", "--force", wt])
            shutil.rmtree(wt, ignore_errors=True)
    return results


def finish(results):
    sh(["git", "-C", "/repo", "worktree", "prune"])
    if os.environ.get("SELFTEST_JSON"):
        with open(os.environ["SELFTEST_JSON"], "w") as f:
            json.dump([{"name": n, "verdict": v, "info": i} for n, v, i in results], f, indent=1)
    missed = 0
    for name, verdict, info in results:
        print("%-44s %s %s" % (name, verdict, json.dumps(info)[:400]))
        if verdict not in ("DETECTED", "OUT-OF-SCOPE"):
            missed += 1
    print("seeded changes: %d, not detected: %d" % (len(results), missed))
    return 1 if missed else 0


if __name__ == "__main__":
    sys.exit(main())
