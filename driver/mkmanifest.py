#!/usr/bin/env python3
"""Regenerates /verif/MANIFEST.json from driver/props.py (claimed checks) and properties.jsonl."""
import json
import os
import sys

VERIF = os.path.dirname(os.path.dirname(os.path.abspath(__file__)))
sys.path.insert(0, os.path.join(VERIF, "driver"))
from props import PROPS  # noqa: E402

ids = [json.loads(l)["id"] for l in open(os.path.join(VERIF, "properties.jsonl")) if l.strip()]
checks = []
na = []
for pid in ids:
    if pid not in PROPS:
        na.append({"property_id": pid, "reason": "check not built yet in this session (work in progress; see DESIGN.md section 4 for the planned monitor)"})
        continue
    p = PROPS[pid]
    checks.append({
        "property_id": pid,
        "quick_cmd": "./check.sh %s quick" % pid,
        "thorough_cmd": "./check.sh %s thorough" % pid,
        "evidence_file": "evidence/%s.json" % pid,
        "replay_cmd_template": "./check.sh replay {path}",
        "engine": "vcheck",
        "level_claimed": {
            "category": p["level"],
            "text": p.get("level_text", ""),
            "design_ref": "DESIGN.md section 4 " + pid,
        },
        "level_note": p.get("level_note", "; ".join(p.get("assumptions", []))),
        "technique": p.get("technique", "runtime monitoring"),
    })
man = {
    "version": 1,
    "setup_cmd": "./check.sh setup",
    "hooks": {
        "guard": "verif",
        "enable": "go build -tags verif (the harness module replaces github.com/pion/stun/v3 with /repo; no source hooks are needed: all control points are public interfaces, DESIGN.md section 2.2)",
        "baseline_off_cmd": "cd /repo && go test -vet=off -count=1 -timeout 25m ./...",
        "source_commits": [],
        "add_only": True,
    },
    "engines": [{
        "name": "vcheck",
        "path": "driver/vcheck.py",
        "serves_properties": [c["property_id"] for c in checks],
        "kind_free_text": "python supervisor + Go worker (harness/) built against /repo: child process per batch, crash journal and confirmation protocol, race-detector log scan, oracles/monitors in Go, porcupine for linearizability",
    }],
    "checks": checks,
    "not_applicable": na,
    "notes": "All checks: ./check.sh <id> [quick|thorough]; VERIF_SEED selects the case lists; ./check.sh replay <file> re-executes a witness. Known findings: KNOWN_FINDINGS.json.",
}
with open(os.path.join(VERIF, "MANIFEST.json"), "w") as f:
    json.dump(man, f, indent=1)
    f.write("\n")
print("checks:", len(checks), "not_applicable:", len(na))
