#!/usr/bin/env python3
"""Ingest seeded changes written by a sub-agent in /tmp/mut-<Cxx>/mutants/<i>/: confirm in a fresh scratch worktree that
the patch applies, builds, passes the repository suite (release and debug tags), that the demo fails with it and passes
without it; keep confirmed ones as /verif/seeded/<Cxx>-m<i>/ (patch.diff, demo_test.go, README.md, meta.json).
  ingest.py Cxx [Cyy ...]
"""
import json
import os
import re
import shutil
import subprocess
import sys
import tempfile

VERIF = os.path.dirname(os.path.dirname(os.path.abspath(__file__)))
ENV = dict(os.environ)
ENV.update({"GOFLAGS": "-mod=mod", "GOPROXY": "off", "GOSUMDB": "off", "GOTOOLCHAIN": "local"})


def sh(cmd, cwd=None, timeout=600):
    try:
        p = subprocess.run(cmd, cwd=cwd, env=ENV, stdout=subprocess.PIPE, stderr=subprocess.STDOUT, text=True, timeout=timeout)
        return p.returncode, p.stdout
    except subprocess.TimeoutExpired as e:
        return 124, (e.stdout or "") if isinstance(e.stdout, str) else "timeout"


def main():
    for pid in sys.argv[1:]:
        base = os.path.join(os.environ.get("INGEST_BASE", "/tmp"), "mut-%s" % pid, "mutants")
        if not os.path.isdir(base):
            print(pid, "no mutants dir")
            continue
        for i in sorted(os.listdir(base)):
            d = os.path.join(base, i)
            patch = os.path.join(d, "patch.diff")
            demo = os.path.join(d, "demo_test.go")
            if not (os.path.isfile(patch) and os.path.isfile(demo)):
                continue
            name = "%s-%s%s" % (pid, os.environ.get("INGEST_TAG", "m"), i)
            wt = tempfile.mkdtemp(prefix="ving-", dir="/tmp")
            os.rmdir(wt)
            sh(["git", "-C", "/repo", "worktree", "add", "--detach", wt, "HEAD"])
            rec = {"name": name}
            try:
                m = re.search(r"func (Test\w+)\(", open(demo).read())
                tname = m.group(1) if m else "TestMutant"
                shutil.copy(demo, os.path.join(wt, "zz_seeded_demo_test.go"))
                rc, out = sh(["go", "test", "-vet=off", "-count=1", "-run", "^%s$" % tname, "."], cwd=wt)
                rec["demo_without_change"] = "pass" if rc == 0 else "FAIL"
                os.remove(os.path.join(wt, "zz_seeded_demo_test.go"))
                rc, out = sh(["git", "-C", wt, "apply", patch])
                if rc != 0:
                    rec["apply"] = "FAILED: " + out[:200]
                    print(json.dumps(rec))
                    continue
                rc1, o1 = sh(["go", "test", "-vet=off", "-count=1", "./..."], cwd=wt)
                rc2, o2 = sh(["go", "test", "-vet=off", "-count=1", "-tags", "debug", "."], cwd=wt)
                rec["suite_release"] = "pass" if rc1 == 0 else "FAIL"
                rec["suite_debug"] = "pass" if rc2 == 0 else "FAIL"
                shutil.copy(demo, os.path.join(wt, "zz_seeded_demo_test.go"))
                rc, out = sh(["go", "test", "-vet=off", "-count=1", "-run", "^%s$" % tname, "."], cwd=wt)
                rec["demo_with_change"] = "fails" if rc != 0 else "PASSES"
                if rc == 0:
                    rcd, _ = sh(["go", "test", "-vet=off", "-count=1", "-tags", "debug", "-run", "^%s$" % tname, "."], cwd=wt)
                    if rcd != 0:
                        rec["demo_with_change"] = "fails"
                        rec["only_with_debug_tag"] = True
                ok = (rec["demo_without_change"] == "pass" and rec["suite_release"] == "pass" and rec["suite_debug"] == "pass"
                      and rec["demo_with_change"] == "fails")
                rec["confirmed"] = ok
                if ok:
                    dst = os.path.join(VERIF, "seeded", name)
                    os.makedirs(dst, exist_ok=True)
                    shutil.copy(patch, os.path.join(dst, "patch.diff"))
                    shutil.copy(demo, os.path.join(dst, "demo_test.go"))
                    if os.path.isfile(os.path.join(d, "README.md")):
                        shutil.copy(os.path.join(d, "README.md"), os.path.join(dst, "README.md"))
                    meta = {"properties": [pid], "origin": "independent sub-agent given only the text of %s and a scratch worktree" % pid,
                            "demo_test": tname,
                            "confirmed_by": "driver/ingest.py: patch applies to HEAD; go test ./... and -tags debug pass with it; the demo fails with it and passes without it",
                            "needs_to_manifest": "see README.md"}
                    if rec.get("only_with_debug_tag"):
                        meta["only_with_debug_tag"] = True
                    mp = os.path.join(dst, "meta.json")
                    if os.path.exists(mp):
                        old = json.load(open(mp))
                        for k in ("needs_to_manifest", "detected_by", "properties"):
                            if k in old and k != "properties":
                                meta[k] = old[k]
                    json.dump(meta, open(mp, "w"), indent=1)
            finally:
                sh(["git", "-C", "/repo", "worktree", "remove", "--force", wt])
                shutil.rmtree(wt, ignore_errors=True)
            print(json.dumps(rec))
    sh(["git", "-C", "/repo", "worktree", "prune"])


if __name__ == "__main__":
    main()
