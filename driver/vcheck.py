#!/usr/bin/env python3
"""Supervisor for the runtime-monitoring checks of pion/stun (see DESIGN.md section 3).

  vcheck.py check <Cxx> [quick|thorough]
  vcheck.py replay <file>
  vcheck.py setup

It builds the worker from /repo's current tree (or $VERIF_REPO), runs the
property's batches in child processes under watchdogs, applies the
confirmation protocol to children that die, scans race-detector logs, matches
violations against KNOWN_FINDINGS.json, writes evidence/<id>.json and prints
VIOLATION / KNOWN-FINDING lines.  Exit 0: held on everything explored;
1: violation; 3: infrastructure failure / nothing conclusive.
"""
import concurrent.futures as cf
import hashlib
import json
import os
import re
import shutil
import signal
import subprocess
import sys
import time

VERIF = os.path.dirname(os.path.dirname(os.path.abspath(__file__)))
HARNESS = os.path.join(VERIF, "harness")
BUILD = os.path.join(VERIF, ".build")
sys.path.insert(0, os.path.join(VERIF, "driver"))
from props import PROPS  # noqa: E402

GOENV = dict(os.environ)
GOENV.update({"GOFLAGS": "-mod=mod", "GOPROXY": "off", "GOSUMDB": "off", "GOTOOLCHAIN": "local",
              "CGO_ENABLED": os.environ.get("CGO_ENABLED", "1")})

CONFIG_FLAGS = {
    "rel": ["-tags", "verif"],
    "dbg": ["-tags", "verif,debug"],
    "race": ["-race", "-tags", "verif"],
    "racedbg": ["-race", "-tags", "verif,debug"],
    # a 32-bit build of the same release code (GOARCH=386; such binaries run natively here): int and uintptr are 32 bits
    # wide, 64-bit atomics need 8-byte alignment that the compiler does not provide for them
    "rel32": ["-tags", "verif"],
    # the release build in a process that STARTS with one P (GOMAXPROCS=1 in the environment, as in a one-CPU container):
    # what package initialisation sizes by runtime.GOMAXPROCS(0) is sized for one
    "rel1p": ["-tags", "verif"],
    # the conventional `purego` build tag (no assembly, no unsafe) on top of the release build: the one tag besides
    # `debug` that Go libraries commonly switch implementations on
    "relpure": ["-tags", "verif,purego"],
}
CONFIG_ENV = {"rel32": {"GOARCH": "386", "CGO_ENABLED": "0"}}
CONFIG_RUN_ENV = {"rel1p": {"GOMAXPROCS": "1"}}


def log(*a):
    print(*a, file=sys.stderr, flush=True)


def repo_dir():
    return os.environ.get("VERIF_REPO", "/repo")


def modfile_args(workdir):
    """Returns extra go flags when the worker must be built against a scratch copy of the repo."""
    repo = repo_dir()
    if repo == "/repo":
        return []
    alt = os.path.join(workdir, "alt.mod")
    with open(os.path.join(HARNESS, "go.mod")) as f:
        mod = f.read()
    mod = mod.replace("=> /repo", "=> " + repo)
    with open(alt, "w") as f:
        f.write(mod)
    shutil.copy(os.path.join(HARNESS, "go.sum"), os.path.join(workdir, "alt.sum"))
    return ["-modfile=" + alt]


def build_worker(config, workdir):
    out = os.path.join(workdir, "worker-" + config)
    cmd = ["go", "build"] + modfile_args(workdir) + CONFIG_FLAGS[config] + ["-o", out, "./cmd/worker"]
    t0 = time.time()
    env = dict(GOENV)
    env.update(CONFIG_ENV.get(config, {}))
    p = subprocess.run(cmd, cwd=HARNESS, env=env, stdout=subprocess.PIPE, stderr=subprocess.STDOUT, text=True)
    if p.returncode != 0:
        log("BUILD FAILED (%s):\n%s" % (config, p.stdout))
        return None
    log("built %s in %.1fs" % (config, time.time() - t0))
    return out


def run_child(cmd, outfile, timeout, env=None):
    """Runs cmd with stdout+stderr to outfile. On timeout sends SIGQUIT (goroutine dump), then SIGKILL.
    Returns (returncode or None on timeout)."""
    with open(outfile, "wb") as f:
        p = subprocess.Popen(cmd, stdout=f, stderr=subprocess.STDOUT, env=env, cwd=HARNESS, start_new_session=True)
        try:
            return p.wait(timeout=timeout)
        except subprocess.TimeoutExpired:
            try:
                os.killpg(p.pid, signal.SIGQUIT)
            except ProcessLookupError:
                pass
            try:
                p.wait(timeout=10)
            except subprocess.TimeoutExpired:
                try:
                    os.killpg(p.pid, signal.SIGKILL)
                except ProcessLookupError:
                    pass
                p.wait()
            return None


def tail(path, n=60):
    try:
        with open(path, "r", errors="replace") as f:
            lines = f.read().splitlines()
        return "\n".join(lines[-n:])
    except OSError:
        return ""


def head(path, n=60):
    try:
        with open(path, "r", errors="replace") as f:
            lines = f.read().splitlines()
        return "\n".join(lines[:n])
    except OSError:
        return ""


STUN_FRAME = re.compile(r"^\s*(github\.com/pion/stun/v3(?:/internal/[a-z]+)?\.[^\s(]*(?:\([^)]*\)[^\s(]*)*)\(")


def stun_frames(text):
    """Function names of pion/stun (non-harness) frames in a stack text, in order."""
    out = []
    for line in text.splitlines():
        s = line.strip()
        if s.startswith("github.com/pion/stun/v3/verifharness"):
            continue
        if s.startswith("github.com/pion/stun/v3.") or s.startswith("github.com/pion/stun/v3/internal/"):
            k = s.rfind("(")
            out.append(s[:k] if k > 0 else s)
    return out


def access_owner(stack_text):
    """'stun' if the innermost pion/stun-or-harness frame of a race access stack is library code, 'harness' if it is
    harness code, '' if neither appears."""
    for line in stack_text.splitlines():
        s = line.strip()
        if s.startswith("github.com/pion/stun/v3/verifharness"):
            return "harness"
        if s.startswith("github.com/pion/stun/v3.") or s.startswith("github.com/pion/stun/v3/internal/"):
            return "stun"
    return ""


def crash_key(prop, text):
    """Signature of a fatal child failure: kind of failure + first stun frame."""
    kind = "crash"
    m = re.search(r"^(fatal error: .*|panic: .*|runtime: goroutine stack exceeds.*|HEAP-WATCHDOG.*)$", text, re.M)
    if m:
        kind = re.sub(r"[0-9]+", "N", m.group(1))[:80]
    fr = stun_frames(text)
    return "%s:crash:%s:%s" % (prop, kind, fr[0] if fr else "?")


class Task:
    def __init__(self, config, batch, nbatch):
        self.config, self.batch, self.nbatch = config, batch, nbatch
        self.result = None
        self.extra_violations = []
        self.inconclusive_machine = 0
        self.infra = None
        self.race_blocks = 0
        self.race_pairs = set()


def worker_cmd(binary, spec, prop, tier, seed, config, batch, nbatch, out, journal, only=None):
    cmd = [binary, "-prop", prop, "-tier", tier, "-seed", str(seed), "-config", config,
           "-batch", str(batch), "-nbatch", str(nbatch), "-out", out, "-journal", journal]
    if "maxstack" in spec:
        cmd += ["-maxstack", str(spec["maxstack"])]
    if "heapmax" in spec:
        cmd += ["-heapmax", str(spec["heapmax"])]
    if only:
        cmd += ["-only", only]
    kf = os.path.join(os.path.dirname(out), "known-keys.txt")
    if os.path.exists(kf):
        cmd += ["-known", kf]
    if os.environ.get("VERIF_SECTION"):
        cmd += ["-section", os.environ["VERIF_SECTION"]]
    return cmd


def child_env(spec, config, racebase):
    env = dict(os.environ)
    env.update(spec.get("env", {}))
    env.update(CONFIG_RUN_ENV.get(config, {}))
    if config.startswith("race"):
        env["GORACE"] = "halt_on_error=0 log_path=%s" % racebase
    return env


def scan_race_logs(prop, racebase, task):
    d = os.path.dirname(racebase)
    base = os.path.basename(racebase)
    harness_only = []
    for fn in sorted(os.listdir(d)):
        if not fn.startswith(base + "."):
            continue
        with open(os.path.join(d, fn), "r", errors="replace") as f:
            text = f.read()
        blocks = text.split("WARNING: DATA RACE")[1:]
        for b in blocks:
            b = b.split("==================")[0]
            task.race_blocks += 1
            # the two access stacks are the first two paragraphs
            paras = [p for p in b.split("\n\n") if p.strip()]
            acc = paras[:2]
            # who performs each racing access: the innermost frame that is pion/stun or harness code
            owners = [access_owner(p) for p in acc]
            frames = [stun_frames(p) for p in acc]
            if "stun" in owners:
                outer = tuple(sorted((fr[-1] if fr else "harness") for fr in frames))
                key = "%s:race:%s|%s" % (prop, outer[0], outer[1] if len(outer) > 1 else "")
                if key not in task.race_pairs:
                    task.race_pairs.add(key)
                    task.extra_violations.append({
                        "property": prop, "config": task.config, "section": "race-detector", "index": -1,
                        "kind": "data-race", "key": key, "detail": {"report": "WARNING: DATA RACE" + b[:6000]}})
            else:
                harness_only.append(b[:3000])
    if harness_only:
        task.infra = "race report with harness frames only (harness bug):\n" + harness_only[0]


def run_task(task, binary, spec, prop, tier, seed, workdir):
    """Runs one batch with the confirmation protocol of DESIGN 3.3."""
    tag = "%s-%d" % (task.config, task.batch)
    out = os.path.join(workdir, "res-%s.json" % tag)
    journal = os.path.join(workdir, "journal-%s" % tag)
    logf = os.path.join(workdir, "out-%s.log" % tag)
    racebase = os.path.join(workdir, "racelog-%s" % tag)
    env = child_env(spec, task.config, racebase)
    timeout = spec["timeout"][tier] * (spec.get("race_factor", 4) if task.config.startswith("race") else 1)
    attempts = 0
    while True:
        attempts += 1
        for p in (out, journal):
            if os.path.exists(p):
                os.remove(p)
        rc = run_child(worker_cmd(binary, spec, prop, tier, seed, task.config, task.batch, task.nbatch, out, journal),
                       logf, timeout, env)
        res = None
        if os.path.exists(out):
            try:
                with open(out) as f:
                    res = json.load(f)
            except (OSError, ValueError):
                res = None
        if rc in (0, 1) and res is not None and res.get("done"):
            task.result = res
            break
        # abnormal end: candidate. Confirm with the journalled case alone.
        jr, _ = read_journal(journal)
        if not jr:
            task.infra = "child ended abnormally (rc=%s) before its first case:\n%s" % (rc, tail(logf))
            break
        sec, idx = jr.rsplit(None, 1)[0].strip(), jr.split()[-1]
        only = "%s:%s" % (sec, idx)
        out2 = os.path.join(workdir, "res-%s-confirm.json" % tag)
        log2 = os.path.join(workdir, "out-%s-confirm.log" % tag)
        j2 = os.path.join(workdir, "journal-%s-confirm" % tag)
        rc2 = run_child(worker_cmd(binary, spec, prop, tier, seed, task.config, task.batch, task.nbatch, out2, j2, only),
                        log2, spec.get("confirm_timeout", 60), env)
        if rc2 in (0, 1) and os.path.exists(out2):
            # the case alone returns normally
            with open(out2) as f:
                res2 = json.load(f)
            if res2.get("violations"):
                # the single case reports violations itself; keep them, and retry the batch is pointless
                task.extra_violations += res2["violations"]
                task.result = {"evaluations": 0, "counters": {}, "distinct": [], "samples": [], "violations": [],
                               "exhaustive": {}, "notes": ["batch died; journalled case alone reported violations"],
                               "inconclusive": 0}
                break
            if attempts >= 2:
                task.infra = "batch ended abnormally twice (rc=%s) but its journalled case %s returns alone:\n%s" % (
                    rc, only, tail(logf))
                break
            task.inconclusive_machine += 1
            log("%s %s: batch died (rc=%s) at %s but the case alone passes; re-running batch once" % (prop, tag, rc, only))
            continue
        # confirmed: the single case crashes or does not return
        text = head(log2, 80) if rc2 is not None else tail(log2, 120)
        kind = "no-return" if rc2 is None else "process-death"
        key = crash_key(prop, head(log2, 400)) if rc2 is not None else "%s:no-return:%s" % (prop, sec)
        _, note = read_journal(j2)
        task.extra_violations.append({
            "property": prop, "config": task.config, "tier": tier, "seed": seed, "section": sec, "index": int(idx),
            "kind": kind, "key": key,
            "detail": {"exit": rc2, "first_exit": rc, "input_in_progress": note[:2000].decode(errors="backslashreplace"),
                       "input_in_progress_hex": note[:2000].hex(), "output": text[:8000]}})
        task.result = {"evaluations": 0, "counters": {}, "distinct": [], "samples": [], "violations": [],
                       "exhaustive": {}, "notes": ["batch aborted by confirmed " + kind], "inconclusive": 0}
        break
    if task.config.startswith("race"):
        scan_race_logs(prop, racebase, task)
    return task


def read_journal(path):
    """Returns (case line, note bytes) from a journal file written by the worker (mmap layout, see core.go)."""
    try:
        with open(path, "rb") as f:
            data = f.read()
    except OSError:
        return "", b""
    line = data[:128].split(b"\n")[0].decode(errors="replace").strip().strip("\x00")
    note = b""
    if len(data) >= 136:
        n = int.from_bytes(data[128:136], "little")
        note = data[136:136 + n]
    return line, note


def load_known():
    path = os.path.join(VERIF, "KNOWN_FINDINGS.json")
    try:
        with open(path) as f:
            return json.load(f).get("findings", [])
    except OSError:
        return []


def write_replay(v):
    d = os.path.join(VERIF, "replays")
    os.makedirs(d, exist_ok=True)
    h = hashlib.sha1(json.dumps(v, sort_keys=True, default=str).encode()).hexdigest()[:12]
    path = os.path.join(d, "%s-%s.json" % (v["property"], h))
    with open(path, "w") as f:
        json.dump(v, f, indent=1, default=str)
    return path


def do_check(prop, tier, only=None, only_config=None):
    t0 = time.time()
    spec = PROPS[prop]
    seed = int(os.environ.get("VERIF_SEED", "1"))
    os.makedirs(BUILD, exist_ok=True)
    workdir = os.path.join(BUILD, "run-%s-%d" % (prop, os.getpid()))
    shutil.rmtree(workdir, ignore_errors=True)
    os.makedirs(workdir)
    with open(os.path.join(workdir, "known-keys.txt"), "w") as f:
        for k in load_known():
            if k.get("status") == "known" and k.get("property") == prop:
                f.write(k["key"] + "\n")
    configs = [only_config] if only_config else spec["configs"][tier]
    binaries = {}
    for cfgname in configs:
        b = build_worker(cfgname, workdir)
        if b is None:
            print("INFRA: build failed for %s" % cfgname)
            return 3
        binaries[cfgname] = b
    tasks = []
    for cfgname in configs:
        nb = spec["batches"][tier] if not cfgname.startswith("race") else spec.get("race_batches", spec["batches"])[tier]
        if only:
            nb = 1
        for b in range(nb):
            tasks.append(Task(cfgname, b, nb))
    ncpu = os.cpu_count() or 4
    if only:
        # replay: a single case, run directly
        t = tasks[0]
        out = os.path.join(workdir, "res-replay.json")
        logf = os.path.join(workdir, "out-replay.log")
        racebase = os.path.join(workdir, "racelog-replay")
        rc = run_child(worker_cmd(binaries[t.config], spec, prop, tier, seed, t.config, 0, 1, out,
                                  os.path.join(workdir, "journal-replay"), only),
                       logf, spec.get("confirm_timeout", 60) * 5, child_env(spec, t.config, racebase))
        viol = []
        if rc in (0, 1) and os.path.exists(out):
            with open(out) as f:
                viol = json.load(f).get("violations") or []
        elif rc is None:
            viol = [{"property": prop, "kind": "no-return", "key": "%s:no-return" % prop, "detail": tail(logf)}]
        else:
            viol = [{"property": prop, "kind": "process-death", "key": crash_key(prop, head(logf, 400)),
                     "detail": head(logf, 80)}]
        if t.config.startswith("race"):
            scan_race_logs(prop, racebase, t)
            viol += t.extra_violations
        for v in viol:
            print("REPRODUCED kind=%s key=%s" % (v.get("kind"), v.get("key")))
            print(json.dumps(v.get("detail"), default=str)[:3000])
        shutil.rmtree(workdir, ignore_errors=True)
        if viol:
            print("VIOLATION property=%s replay=%s" % (prop, os.environ.get("VERIF_REPLAY_FILE", "-")))
            return 1
        print("replay: case held")
        return 0

    with cf.ThreadPoolExecutor(max_workers=spec.get("parallel", ncpu)) as ex:
        futs = [ex.submit(run_task, t, binaries[t.config], spec, prop, tier, seed, workdir) for t in tasks]
        for f in futs:
            f.result()

    # merge
    evaluations = 0
    inconclusive = 0
    counters = {}
    maxcounters = set(spec.get("max_counters", []))
    distinct = set()
    distinct_capped = False
    samples = []
    violations = []
    notes = []
    per_config = {}
    exhaustive = None
    infra = []
    race_blocks = 0
    for t in tasks:
        if t.infra:
            infra.append("%s batch %d: %s" % (t.config, t.batch, t.infra))
        race_blocks += t.race_blocks
        inconclusive += t.inconclusive_machine
        violations += t.extra_violations
        r = t.result
        if r is None:
            continue
        evaluations += r.get("evaluations", 0)
        per_config[t.config] = per_config.get(t.config, 0) + r.get("evaluations", 0)
        inconclusive += r.get("inconclusive", 0)
        for k, v in (r.get("counters") or {}).items():
            if k in maxcounters:
                counters[k] = max(counters.get(k, 0), v)
            else:
                counters[k] = counters.get(k, 0) + v
        distinct.update(r.get("distinct") or [])
        distinct_capped = distinct_capped or r.get("distinct_cap", False)
        for s in (r.get("samples") or []):
            if len(samples) < 6:
                samples.append(s)
        violations += (r.get("violations") or [])
        for n in (r.get("notes") or []):
            if n not in notes:
                notes.append(n)
        ex_here = {k for k, v in (r.get("exhaustive") or {}).items() if v}
        exhaustive = ex_here if exhaustive is None else (exhaustive | ex_here)

    known = load_known()
    known_by_key = {k["key"]: k for k in known if k.get("status") == "known" and k.get("property") == prop}
    printed_known = {}
    real = []
    for v in violations:
        k = v.get("key", "")
        if k in known_by_key:
            printed_known[k] = printed_known.get(k, 0) + 1
        else:
            real.append(v)
    for k, n in printed_known.items():
        print("KNOWN-FINDING: property=%s %s [key=%s, reproduced %d times]" % (prop, known_by_key[k]["what"], k, n))
    seen_keys = set()
    replay_paths = []
    for v in real:
        v.setdefault("tier", tier)
        v.setdefault("seed", seed)
        k = v.get("key", "")
        if k in seen_keys and len(replay_paths) >= 3:
            continue
        seen_keys.add(k)
        path = write_replay(v)
        replay_paths.append(path)
        print("VIOLATION property=%s replay=%s" % (prop, path))
        print("  kind=%s key=%s config=%s section=%s index=%s" % (
            v.get("kind"), k, v.get("config"), v.get("section"), v.get("index")))
        print("  detail=%s" % json.dumps(v.get("detail"), default=str)[:1500])

    wall = time.time() - t0
    coverage = {
        "evaluations": evaluations,
        "distinct_nontrivial": len(distinct),
        "rule": spec["rule"] + (" (distinct count capped per batch; a lower bound)" if distinct_capped else ""),
        "samples": samples,
        "monitor_observations": counters,
        "per_config_evaluations": per_config,
        "inconclusive": inconclusive,
        "race_detector_blocks": race_blocks,
        "configs": configs,
        "batches": len(tasks),
        "known_findings_reproduced": printed_known,
        "notes": notes,
    }
    if exhaustive:
        full = spec.get("exhaustive_all")
        coverage["exhaustive_sections"] = sorted(exhaustive)
        if full and set(full) <= exhaustive and not real:
            coverage["exhaustive"] = True
    evidence = {
        "property_id": prop, "tier": tier, "seed": seed, "level": spec["level"],
        "coverage": coverage, "assumptions": spec["assumptions"], "wall_s": round(wall, 2),
        "violations": len(real),
    }
    evdir = os.environ.get("VERIF_EVIDENCE_DIR") or os.path.join(VERIF, "evidence")
    os.makedirs(evdir, exist_ok=True)
    with open(os.path.join(evdir, prop + ".json"), "w") as f:
        json.dump(evidence, f, indent=1, default=str)
        f.write("\n")
    log("%s %s: evaluations=%d distinct=%d inconclusive=%d race_blocks=%d violations=%d known=%d wall=%.1fs" % (
        prop, tier, evaluations, len(distinct), inconclusive, race_blocks, len(real), len(printed_known), wall))
    if not os.environ.get("VERIF_KEEP"):
        shutil.rmtree(workdir, ignore_errors=True)
    if real:
        return 1
    if infra:
        print("INFRA: " + "\n".join(infra)[:4000])
        return 3
    if not samples:
        print("INCONCLUSIVE: the run recorded no sample case")
        return 3
    floor = spec.get("floor", 1)
    if evaluations < floor or len(distinct) < 2:
        print("INCONCLUSIVE: monitors observed too little (evaluations=%d, distinct=%d)" % (evaluations, len(distinct)))
        return 3
    for name, minimum in spec.get("counter_floors", {}).get(tier, {}).items():
        if counters.get(name, 0) < minimum:
            print("INCONCLUSIVE: monitor counter %s=%d below its floor %d" % (name, counters.get(name, 0), minimum))
            return 3
    return 0


def do_replay(path):
    with open(path) as f:
        v = json.load(f)
    os.environ["VERIF_SEED"] = str(v.get("seed", 1))
    os.environ["VERIF_REPLAY_FILE"] = path
    sec, idx = v.get("section"), v.get("index", -1)
    if sec in (None, "race-detector") or idx is None or int(idx) < 0:
        print("replay: this witness is a recorded report (race / stress event log), not a re-executable case; "
              "re-running the owning check instead")
        return do_check(v["property"], v.get("tier", "quick"))
    return do_check(v["property"], v.get("tier", "quick"), only="%s:%s" % (sec, idx), only_config=v.get("config", "rel"))


def do_setup():
    os.makedirs(BUILD, exist_ok=True)
    workdir = os.path.join(BUILD, "setup-%d" % os.getpid())
    os.makedirs(workdir, exist_ok=True)
    ok = True
    for cfgname in ("rel", "dbg", "race", "racedbg", "rel32", "rel1p", "relpure"):
        ok = (build_worker(cfgname, workdir) is not None) and ok
    shutil.rmtree(workdir, ignore_errors=True)
    return 0 if ok else 3


def main():
    if len(sys.argv) < 2:
        print(__doc__)
        return 2
    cmd = sys.argv[1]
    if cmd == "setup":
        return do_setup()
    if cmd == "replay":
        return do_replay(sys.argv[2])
    if cmd == "check":
        prop = sys.argv[2]
        tier = sys.argv[3] if len(sys.argv) > 3 else os.environ.get("VERIF_TIER", "quick")
        if prop not in PROPS:
            print("unknown property", prop)
            return 2
        return do_check(prop, tier)
    print(__doc__)
    return 2


if __name__ == "__main__":
    sys.exit(main())
