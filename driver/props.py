"""Per-property run configuration for vcheck.py (what to build, how to split, what the evidence text says)."""

PROPS = {}


def prop(pid, **kw):
    kw.setdefault("level", "exploration")
    kw.setdefault("configs", {"quick": ["rel"], "thorough": ["rel"]})
    kw.setdefault("batches", {"quick": 16, "thorough": 16})
    kw.setdefault("timeout", {"quick": 300, "thorough": 3600})
    kw.setdefault("assumptions", [])
    PROPS[pid] = kw


prop(
    "C19",
    configs={"quick": ["rel", "dbg", "race"], "thorough": ["rel", "dbg", "race"]},
    batches={"quick": 4, "thorough": 4},
    race_batches={"quick": 2, "thorough": 2},
    rule="complete domain: every (method 0..4095, class 0..3) pair through MessageType.Value and every 16-bit wire "
         "value through MessageType.ReadValue, each compared with a table built bit by bit from RFC 5389 figure 3, in release, debug and race builds, plus 8 goroutines sweeping "
         "the domain concurrently in different orders; "
         "distinct = distinct (direction, wire value) points, all non-trivial",
    exhaustive_all=["value", "readvalue"],
    assumptions=["ref.JoinType/SplitType transcribe RFC 5389 figure 3 correctly (cross-checked against RFC 5769 vector types at start-up)"],
)

prop(
    "C01",
    configs={"quick": ["rel", "dbg", "race"], "thorough": ["rel", "dbg", "race"]},
    batches={"quick": 12, "thorough": 16},
    race_batches={"quick": 4, "thorough": 8},
    timeout={"quick": 300, "thorough": 3000},
    rule="inputs drawn per index from a seeded generator (uniform random, cookie+plausible length, canonical valid, "
         "dirty-valid with random padding/leading bits/trailing bytes, 1-3 structural mutations of valid messages and of the "
         "repository fuzz corpus/RFC 5769 vectors, large (<=65555 B) and truncated messages); each input goes through 7 entry "
         "points x 2 placements (cap==len red-zone; spare capacity poisoned 0x00/0xFF/random/plausible); half of the destinations "
         "already hold a decoded message with attributes (receivers are reused in practice). evaluations = "
         "entry-point calls; distinct_nontrivial = distinct input byte strings (FNV-64 of the bytes)",
    max_counters=["max_alloc_bytes_per_call"],
    assumptions=[
        "the reference parser ref.Parse is a correct reading of RFC 5389 section 6/15 (cross-checked on RFC 5769 vectors at start-up)",
        "allocation bound per call is 64*len(input)+4096 bytes (catches allocation proportional to a length field, not micro-regressions)",
        "'never loops' is decided by the confirmation protocol: a journalled case that does not return alone within 60 s",
    ],
)

prop(
    "C02",
    configs={"quick": ["rel", "dbg"], "thorough": ["rel", "dbg"]},
    batches={"quick": 16, "thorough": 16},
    timeout={"quick": 300, "thorough": 3000},
    rule="(a) bounded-exhaustive length structures: declared length L=0..B (B=36 quick, 52 thorough), buffer length 20+L+d for "
         "d in {-3,-2,-1,0,1,4,7}, and recursively every sequence of attribute length fields from {0,1,2,3,4,5,7,8,r-4..r+3,0xFFFF} "
         "(r = remaining body), types cycling incl. 0x8020; (b) all 65536 type-field values; (c) seeded random/mutated inputs. "
         "Each input (one in three decoded into a destination that already lists another message's attributes): library Decode verdict "
         "and content vs independent parser, then Get/Contains/ForEach (complete walk, callback "
         "error and callback panic at the k-th visit) vs list semantics. distinct_nontrivial = distinct input byte strings "
         "(accepted ones hashed with their (count, length residues) signature) plus distinct (reject reason, length mod 64) classes",
    assumptions=[
        "ref.Parse is a correct reading of RFC 5389 framing with the tolerances the property lists",
    ],
)

prop(
    "C03",
    configs={"quick": ["rel", "dbg"], "thorough": ["rel", "dbg"]},
    timeout={"quick": 300, "thorough": 3000},
    rule="seeded random sequences of building operations (Add/RawAttribute, SetType/MessageType.AddTo, 4 transaction-id setters, "
         "6 address setters, 4 text setters, ErrorCodeAttribute/ErrorCode, UnknownAttributes, MessageIntegrity short/long-term, "
         "Fingerprint, Encode, WriteHeader, CloneTo, Build(setters), Build with a failing setter, editing the struct's attribute list "
         "(truncate, remove anywhere, hand-built list with arbitrary Length fields) followed by Encode, Write* helpers) from 4 start states (Build on fresh, "
         "WriteHeader/Encode on new/New(), Build on a poisoned reused buffer, a decoded dirty message); after EVERY operation the "
         "monitor checks cookie/length/padding, reference parse == shadow list, struct == shadow, library decode == struct, Equal, "
         "and canonical bytes after Encode. evaluations = sequences; distinct_nontrivial = distinct operation-name sequences",
    assumptions=[
        "sequences stay within the stated precondition (total attribute bytes <= 65535)",
        "zero padding is required of attributes written by a building operation (inherited wire padding of a decoded start is kept until Encode)",
        "Equal is not asserted for sequences that Add the legacy alias type 0x8020 explicitly (struct holds 0x8020, decode maps to 0x0020)",
        "signing setters are not applied to a decoded message that still carries bytes after its declared length (DESIGN 5.3)",
        "values appended by typed setters are adopted from the struct (their wire format is C06's subject)",
    ],
)

prop(
    "C04",
    configs={"quick": ["rel", "dbg", "race"], "thorough": ["rel", "dbg", "race"]},
    race_batches={"quick": 4, "thorough": 8},
    timeout={"quick": 300, "thorough": 3000},
    rule="(a) hand-encoded messages: 0..8 attributes before MESSAGE-INTEGRITY, 0..4 after (all residues, incl. FINGERPRINT and a second "
         "MESSAGE-INTEGRITY), MAC variants correct/random/other-key/truncated 0,4,19/extended 21,24/bit-flipped/absent, random padding, "
         "leading type bits, trailing bytes, keys 0..200 B incl. 63/64/65; (b) library-signed messages (short- and long-term) checked "
         "under the right key and 3 wrong keys, appended bytes compared with the oracle MAC, refusal after FINGERPRINT; (b2) one key "
         "buffer rewritten in place between uses (sign, check through the aliased key value, overwrite, old message under new key); (c) every "
         "single-bit flip of library-signed messages. Oracle: crypto/hmac+crypto/sha1 over the span chosen by the reference parser; "
         "library verdict must equal oracle verdict, and must be 'fail' for flips of covered bytes. evaluations = Check calls "
         "judged; distinct_nontrivial = distinct base messages (FNV-64 of the bytes)",
    assumptions=[
        "stdlib crypto/hmac and crypto/sha1 are correct",
        "flips of header bytes 2..3 are judged by the oracle only (RFC 5389 rewrites that field before hashing)",
        "'signed message verifies' is asserted where the library's MAC is the first MESSAGE-INTEGRITY attribute",
    ],
)

prop(
    "C05",
    configs={"quick": ["rel", "dbg", "race"], "thorough": ["rel", "dbg", "race"]},
    race_batches={"quick": 4, "thorough": 8},
    timeout={"quick": 300, "thorough": 3000},
    rule="(a) library-fingerprinted messages (with/without MESSAGE-INTEGRITY before): appended value vs bitwise CRC-32 oracle, then EVERY "
         "bit position flipped; (b) random bursts of width 2..32 in transmission (LSB-first) bit order; (c) arbitrary decodable messages "
         "with 1-2 FINGERPRINT attributes of any length and position, random padding/trailing bytes, first one made correct in half "
         "of the cases (also over-long values that merely start with the right CRC); (d) 8 goroutines fingerprinting and "
         "checking their own messages concurrently (also in the race build). Library verdict must equal the oracle's 'first FINGERPRINT is 4 bytes and equals CRC(raw[:len-8])^0x5354554e'; "
         "corruptions that stay decodable with exactly one FINGERPRINT must fail. evaluations = Check verdicts judged (or decode "
         "failures observed); distinct_nontrivial = distinct base messages",
    assumptions=[
        "ref.CRC32 (bitwise, reflected polynomial 0xEDB88320) is the IEEE 802.3 CRC (cross-checked on the RFC 5769 vectors)",
        "'burst of up to 32 bits' is taken in the CRC's transmission bit order (DESIGN C05: MSB-first numbering has undetectable 31/32-bit patterns by construction of CRC-32)",
    ],
)

prop(
    "C06",
    configs={"quick": ["rel", "dbg", "race"], "thorough": ["rel", "dbg", "race"]},
    race_batches={"quick": 4, "thorough": 8},
    timeout={"quick": 300, "thorough": 3000},
    rule="(1) all 65536 ports x {IPv4, IPv6, IPv4-mapped IPv6, one-byte near misses of the ::ffff:0:0/96 prefix} x 7 address attribute entry points (XOR-MAPPED-ADDRESS, XORMappedAddress.AddToAs "
         "over 7 types, MAPPED-ADDRESS, MappedAddress.AddToAs, ALTERNATE-SERVER, RESPONSE-ORIGIN, OTHER-ADDRESS) with random addresses and "
         "transaction ids, plus extra random cases; (2) the four text attributes at every length 0..limit and limit+1; (3) every error "
         "code 300..699 with 9 reasons (several lengths, two ending in NUL); one address case in four writes the header first and assigns the "
         "transaction id to the field before Encode; (4) UNKNOWN-ATTRIBUTES lists of 0..64 types. Each value: library bytes == independent RFC "
         "encoder, independent RFC decoder reads the library bytes, library getter reads both the re-decoded library message and a "
         "reference-encoded message (destination values reused across families). evaluations = values pushed through the cycle; "
         "distinct_nontrivial = distinct (port | text length x attribute | error code | type list) points",
    exhaustive_all=None,
    assumptions=[
        "ref.Enc*/Dec* transcribe RFC 5389 section 15.1/15.2/15.6/15.9 (XOR decoder cross-checked on RFC 5769 vector 2.2)",
        "text limits pinned in the harness: USERNAME 513, REALM/NONCE/SOFTWARE 763 (the library's documented constants)",
    ],
)

prop(
    "C07",
    configs={"quick": ["rel", "dbg", "race"], "thorough": ["rel", "dbg", "race"]},
    race_batches={"quick": 4, "thorough": 8},
    timeout={"quick": 300, "thorough": 3000},
    rule="complete grid of 18 getters/checkers x value length 0..40 x position (first/middle/last) x capacity (exact, +1,+2,+7,+20,+64), "
         "each cell repeated with fresh random content (10 quick / 100 thorough): twin messages sharing only the attribute value (plus "
         "transaction id; the covered prefix for MESSAGE-INTEGRITY; all bytes for FINGERPRINT) and differing in padding, neighbours "
         "(twin A: bytes a sloppy reader accepts as family codes; twin B: 0xFF/random), position, spare capacity, its fill and the receiver (twin B may decode into a destination that held 16 stale bytes / a stale list). Plus "
         "reuse chains (one Message refilled packet after packet, one receiver carried along, compared with fresh ones) and 8 goroutines "
         "running getters on their own messages at once (also in the race build). "
         "Violations: recovered panic, outcome (error class + text, or produced value) differing between twins, any before/after "
         "difference of Raw/Length/Attributes. evaluations = twin pairs; distinct_nontrivial = grid cells visited",
    assumptions=[
        "cap(Raw)==len(Raw) placement plays the role of a red zone: a read past the message end is a Go bounds panic",
        "values produced on the error path are not compared (only the error class and text)",
    ],
)

prop(
    "C08",
    configs={"quick": ["rel", "dbg"], "thorough": ["rel", "dbg"]},
    timeout={"quick": 300, "thorough": 3000},
    rule="seeded chains of 2..8 uses of one Message (start: new / New() / pre-sized buffer); each use is a decode (Decode, Write, "
         "UnmarshalBinary, ReadFrom, CloneTo into it; 1 in 8 of a mutated, possibly failing input) or a build (Build with setters incl. "
         "integrity/fingerprint, Reset+WriteHeader+Add, set fields+Encode) of a random message, one third derived from the previous one "
         "with values 3 bytes shorter..longer. Before each use Raw[len:cap] and Attributes[len:cap] are poisoned; the same operation is "
         "applied to a fresh Message{Type,TransactionID}; Raw and struct content must be equal; then every caller buffer is overwritten "
         "and the message must not change; MarshalBinary/CloneTo results must survive scribbling over the source. evaluations = uses; "
         "distinct_nontrivial = distinct chains",
    assumptions=[
        "the fresh twin of a ReadFrom use gets the same Raw capacity (ReadFrom reads into the capacity it is given)",
        "the state after a failed use is unspecified and only serves as 'previous content' for the next use",
    ],
)

prop(
    "C09",
    configs={"quick": ["rel", "dbg"], "thorough": ["rel", "dbg"]},
    timeout={"quick": 300, "thorough": 3000},
    rule="every text setter (USERNAME 513, REALM/NONCE/SOFTWARE 763, ERROR-CODE reason 763, TextAttribute.AddToAs with limit 10) at every "
         "length 0..limit+300; 7 address setters x IP length 0..20 (nil and empty included); ErrorCode.AddTo for every code 0..999 plus "
         "out-of-range values; MessageIntegrity.AddTo with a FINGERPRINT-typed attribute at every position; Build with a failing setter "
         "(4 kinds) at every index and optionally a second failing one later (the returned error must be the setter's own error, not a wrapper). Each against freshly generated preceding messages "
         "(5 quick / 60 thorough per point). Oracle: hard-coded limit table for accept/reject and error class, before/after snapshot "
         "of Raw/Length/Attributes for atomicity, call counters for 'Build stops'. evaluations = setter calls; distinct_nontrivial = "
         "distinct (setter, boundary value) points",
    assumptions=[
        "limits pinned in the harness: USERNAME 513, others 763; the 17 codes with a default reason are listed in the harness",
    ],
)

prop(
    "C18",
    configs={"quick": ["rel", "race", "dbg"], "thorough": ["rel", "race", "dbg"]},
    batches={"quick": 8, "thorough": 16},
    race_batches={"quick": 4, "thorough": 8},
    timeout={"quick": 300, "thorough": 3000},
    max_counters=["max_goroutines"],
    rule="seeded programs acquire(key) / write in random chunkings / sum (with a prefix buffer) / reset / more writes / sum / put over the SHA-1 "
         "and SHA-256 pools: keys nil, 0..64 B, 63/64/65 B, 65..300 B, alternating long/short/empty between consecutive acquires, one third of the programs "
         "keeping ONE key buffer that is rewritten in place; "
         "message segments of 0,1,55,56,63,64,65,119,128 and random <=4096 bytes; (1) sequential, (2) 2..16 goroutines sharing the "
         "pools, (3) MessageIntegrity AddTo/Check from 16 goroutines. Every digest is compared with crypto/hmac. The race build runs "
         "the same workload under the race detector. evaluations = programs; distinct_nontrivial = distinct step-name sequences "
         "(sequential) plus concurrent rounds",
    assumptions=["stdlib crypto/hmac is the RFC 2104 reference",
                 "sync.Pool placement is up to the runtime; the evidence counter acquires_that_returned_a_recycled_object reports how often reuse was actually observed"],
)

prop(
    "C13",
    configs={"quick": ["rel", "dbg"], "thorough": ["rel", "dbg"]},
    timeout={"quick": 300, "thorough": 3000},
    max_counters=["abstract_states_visited_max_per_batch"],
    rule="exhaustive: every call sequence of length 5 (quick) / 6 (thorough) over the 27-symbol alphabet {Start(id,t) 3x4, Stop(id) 3, "
         "StopWithError(id) 3, Process(id) 3, Collect(t) 4, SetHandler, Close} on a fresh Agent, every call's return class and event "
         "multiset (id, class, receiving handler) compared online with the executable transaction-table model (time points t0<t1<t2<t3 so "
         "that deadline == collect time is hit); plus mass expiry (up to 1000 transactions expiring in one Collect), all pairs of 10 extreme instants (zero time, epoch, "
         "year 1, both sides of the UnixNano limit in 2262, 9999), messages of all four classes, and long random sequences (200..400 calls, 64 ids, deadlines on both sides of the "
         "collect times, handlers that call Start back into the agent from inside an event). evaluations = sequences; "
         "distinct_nontrivial = distinct leading call pairs + distinct abstract table states visited + random sequences",
    assumptions=[
        "the model in harness/props/agentmodel.go is the statement of C13 transcribed: Collect(t) times out exactly deadline < t; Process always emits and unregisters",
        "handlers do not call back into the agent from a Close event (documented deadlock: Close holds the lock)",
    ],
)

prop(
    "C14",
    configs={"quick": ["race", "rel", "dbg"], "thorough": ["race", "rel", "dbg"]},
    batches={"quick": 8, "thorough": 16},
    race_batches={"quick": 8, "thorough": 16},
    timeout={"quick": 400, "thorough": 3000},
    race_factor=2,
    rule="short concurrent histories: 2..16 goroutines x 6..10 random calls (Start/Stop/StopWithError/Process/Collect/SetHandler/Close) on "
         "one Agent over 3 ids and 4 time points, released by a start barrier, handlers yielding to widen the unlock->emit window, one "
         "history in ten with handlers that call Start/Stop back into the agent. Every call is recorded at the caller boundary "
         "{client, input, call ts, (error class, event multiset incl. receiving handler), return ts} with one atomic clock and handler "
         "events attributed by goroutine id; each history is checked with porcupine v1.3.0 against the C13 model; the race build runs the "
         "same under the Go race detector; a watchdog looks for goroutines parked inside agent methods. A history without overlapping "
         "calls, or a checker timeout, is inconclusive. evaluations = histories checked; distinct_nontrivial = distinct recorded "
         "histories (by full content) that had overlap and were judged",
    counter_floors={"quick": {"overlapping_call_pairs": 1000, "porcupine_ok": 100}, "thorough": {"overlapping_call_pairs": 50000, "porcupine_ok": 5000}},
    assumptions=[
        "the sequential specification is harness/props/agentmodel.go (same as C13)",
        "events are attributed to the call during which the handler ran on the calling goroutine",
        "the schedule is not reproducible; a violation's replay file carries the recorded history",
    ],
)

prop(
    "C20",
    configs={"quick": ["rel", "dbg"], "thorough": ["rel", "dbg"]},
    batches={"quick": 16, "thorough": 16},
    timeout={"quick": 400, "thorough": 3000},
    heapmax=0,
    env={"GOMAXPROCS": "1"},
    rule="generated well-formed messages (library-built: 0..16 attributes drawn from every typed attribute, both address families, text "
         "sizes incl. the limits, UNKNOWN-ATTRIBUTES up to 20 entries, raw attributes up to 1200 B, optional MESSAGE-INTEGRITY with "
         "keys 0..120 B and FINGERPRINT); per message and warm-up regime (S1: Message/destinations first used for a strictly larger "
         "message; S2: first used for the same message) testing.AllocsPerRun(100) of Decode, Write, UnmarshalBinary, Get, Contains, "
         "ForEach, Get(absent), each typed GetFrom, Parse, MessageIntegrity.Check, Fingerprint.Check and Build with pre-boxed pointer "
         "setters; a non-zero count must repeat in a second measurement to count; plus targeted cells: one destination across alternating "
         "address families, a ForEach stopped early followed by Decode, explicit spare capacities around 20; release and debug builds. Dedicated process per batch, GOMAXPROCS=1, GC off "
         "during measurement. evaluations = measured operations; distinct_nontrivial = distinct messages",
    assumptions=[
        "MessageIntegrity as a *setter* is excluded from Build (the repository documents that it allocates); UNKNOWN-ATTRIBUTES lists are capped at 20 entries (documented)",
        "testing.AllocsPerRun averages over 100 runs with integer division: sporadic runtime allocations do not count, an allocation per call does",
    ],
)

prop(
    "C16",
    configs={"quick": ["rel", "race", "dbg"], "thorough": ["rel", "race", "dbg"]},
    race_batches={"quick": 4, "thorough": 8},
    timeout={"quick": 150, "thorough": 3000},
    maxstack=1 << 20,
    heapmax=1 << 30,
    confirm_timeout=60,
    max_counters=["max_ns_per_byte_for_inputs_over_4KiB"],
    rule="exhaustive: every string of length <= 5 (quick) / 6 (thorough) over the 20-symbol alphabet "
         "[ ] : ? = & % / @ . - + 0 9 a x # \\ space u-umlaut after each of the prefixes stun: stuns: turn: turns: stun:// and the empty "
         "prefix; plus seeded random inputs (grammar products of schemes/hosts/ports/queries, their mutations, random bytes incl. control "
         "characters and invalid UTF-8, repeated structures, inputs of 4 KiB..1 MiB), and 16 goroutines parsing at once (also in the race build). Each worker child runs with a 1 MiB goroutine "
         "stack limit and a 1 GiB heap watchdog and notes every input in a crash journal before the call; the supervising process "
         "decides: a child that dies or does not return is re-run on the journalled block alone, and a second death/non-return "
         "(60 s watchdog against microseconds of normal cost) is the violation. evaluations = ParseURI calls; distinct_nontrivial = "
         "exhaustive blocks + distinct random strings",
    assumptions=[
        "'time and stack bounded by the input length' is decided per input as: returns within the watchdog under a 1 MiB stack and 1 GiB heap; time per byte is recorded as data",
    ],
)

prop(
    "C17",
    configs={"quick": ["rel", "dbg"], "thorough": ["rel", "dbg"]},
    batches={"quick": 8, "thorough": 16},
    timeout={"quick": 300, "thorough": 3000},
    rule="(1) complete grammar product 4 schemes x 7 hosts (reg-name, IPv4, bracketed IPv6, zone id, punycode) x 15 port forms (absent, "
         "0, 1, 3478, 5349, 65535, 65536, 99999, -1, 2^32+1, x, 12a, +80, 080, empty) x 13 query forms: expected verdict and components "
         "known by construction, accepted URIs checked for scheme/host/port/transport invariants and ParseURI(u.String()) == u; "
         "(2) random/grammar-mutated strings judged by invariants + round trip; (3) DialURI through an injected transport.Net that "
         "records (network, address) and the bytes written: 16 parsed URIs covering every producible scheme/transport pair and IPv4/IPv6/"
         "name hosts, and all 5x3 hand-made Scheme/Proto values x 2 hosts; one STUN indication is sent to tell plaintext from a TLS/DTLS "
         "ClientHello and to look for the server name; two secure dials from ONE DialConfig issued before the first handshake starts; real TLS "
         "handshakes over an in-memory pipe with verification on (certificate for the URI's host must be accepted, for another host refused; "
         "name, IPv4 and IPv6 literal hosts). evaluations = URIs parsed + dials; distinct_nontrivial = grammar points + "
         "distinct accepted mutations + dial scenarios",
    assumptions=[
        "forms the statement does not determine (+80, 080, empty port, separator-only queries, repeated or upper-case transport) are judged by invariants and round trip only",
        "the DTLS branch resolves through the process resolver, so DTLS cases use IP literals and localhost",
        "a TLS/DTLS ClientHello is recognised by record type 0x16 and version byte 0x03 / 0xfe; the server name by the host bytes in the hello",
    ],
)

prop(
    "C10",
    configs={"quick": ["rel", "race"], "thorough": ["rel", "race"]},
    batches={"quick": 16, "thorough": 16},
    race_batches={"quick": 8, "thorough": 16},
    timeout={"quick": 400, "thorough": 3000},
    race_factor=2,
    rule="(i) every history of 5 (quick) / 6 (thorough) events over {Start(id), Do(id), Indicate, Resp(id), RespUnknownID, Garbage, "
         "Tick just-before/at/just-after the earliest deadline/past all, FailNextWrite, Close} for <=3 ids (symmetry-reduced, no-op "
         "events pruned) on a retransmitting client with fallback handler and on a WithNoRetransmit client, each event driven to "
         "quiescence under virtual time and compared with the executable client model (return class, write count, per-transaction "
         "handler invocations and their class, Do returned); (ii) every pairwise control-point interleaving: operation A in {Start, "
         "Start/no-retransmit, Do, tick with retransmission, tick with final timeout, delivery, Close, Close/no-conn-close} parked at "
         "each control point it passes (Clock, Agent.Start/Stop/Process/Collect/Close, Connection.Write/Close, Collector.Close, "
         "agent callback, user handler; also with a collector whose Close does not wait for a running tick), operation B in {Start same "
         "id, Start other id, Resp, Tick, Close, Resp+restart of the same id, Do+Resp} run to completion or "
         "seen blocked, next write ok/failing, then a follow-up phase (two fresh transactions and a restart of the scenario's own id, all answered) and Close; targeted two-pause "
         "scenario 'Do parked after its write, handler parked in the callback, Do released'; (iii) perturbed "
         "concurrent runs (2..8 goroutines of Start/Do/Indicate/SetRTO, responder with duplicates/unknown ids/garbage/drops, ticker, 1-2 "
         "closers, seeded yields at every control point); (iv) random histories of 50..300 events. Ledger oracles: no handler twice; "
         "nil-returning Start/Do => exactly one invocation at final quiescence; error-returning => none; every Do returned. "
         "evaluations = histories + scenarios + runs; distinct_nontrivial = exhaustive prefixes + distinct random histories + parked "
         "pairwise scenarios + distinct interleaving signatures of the concurrent runs",
    counter_floors={"quick": {"pairwise.parked": 500, "stress.overlapping_operation_pairs": 1000}, "thorough": {"pairwise.parked": 500, "stress.overlapping_operation_pairs": 100000}},
    assumptions=[
        "the client model (harness/props/clientseq.go) transcribes the statement: response / timeout after the last retransmission / write error of a failed retransmission / closed; Collect expires deadline < t",
        "quiescence is recognised without a clock: synchronous Start/Tick/Close, and a zero-length barrier datagram that the reader can only take once the previous datagram's handlers returned",
        "concurrent schedules are not reproducible: a violation's replay file carries the recorded ledger",
        "'Do returns' is decided at quiescence; the 10-30 s watchdogs only trigger the stuck-goroutine analysis (same parked stun frames in two dumps)",
    ],
)

prop(
    "C11",
    configs={"quick": ["rel"], "thorough": ["rel", "race"]},
    batches={"quick": 16, "thorough": 16},
    race_batches={"quick": 8, "thorough": 16},
    timeout={"quick": 400, "thorough": 3000},
    race_factor=2,
    rule="schedule walks: one transaction of size in {20,21,24,1499,1500,1501,2047,2048,2049,4096,65535,65555} x RTO in {1ns,1ms,300ms,1h} x "
         "{7 retransmissions, WithNoRetransmit} is walked along its whole schedule with ticks just before / at / just after every "
         "deadline (t_k+(k+1)*r), with one interfering event (none, response, SetRTO, Close, caller reuses the message buffer) at every "
         "position; after each step the write log (bytes + virtual time) must show exactly the scheduled transmissions, each byte for "
         "byte the snapshot of msg.Raw taken when Start was called (the caller scribbles over the message right after Start returns), "
         "and nothing after termination; plus the library's ticker collector under a virtual clock held decades before wall time (no write before the deadline), random "
         "sizes/RTOs, all histories of 4-5 events over 2 ids with SetRTO and sizes "
         "2049/3000/24 against the model's write count, the pairwise interleavings and perturbed concurrent runs with the write "
         "oracle (<= n+1 writes, identical bytes). evaluations = walks + histories + scenarios; distinct_nontrivial = distinct walk "
         "parameter tuples + history prefixes + scenarios",
    assumptions=[
        "retransmission limits other than 7 and 0 cannot be set through the public API",
        "'repeated only once the clock has passed (k+1)*r' is checked with the strictness the agent implements (deadline < t, see C13): a tick exactly at the deadline must not retransmit",
    ],
)

prop(
    "C12",
    configs={"quick": ["rel", "race"], "thorough": ["rel", "race"]},
    batches={"quick": 16, "thorough": 16},
    race_batches={"quick": 8, "thorough": 16},
    timeout={"quick": 400, "thorough": 3000},
    race_factor=2,
    max_counters=["max_concurrent_transactions"],
    rule="(1) 1..500 transactions in flight at once, ids random or in a one-bit-apart family, half of the cases with a share timed out "
         "first (late responses); a shuffled plan of uniquely tagged datagrams (32..1024 bytes) with duplicates, unknown ids and "
         "garbage (incl. STUN-looking with a bad length, runts of 0/1/19 bytes; header-only 20-byte responses; optionally the all-zero id in "
         "flight) is delivered one by one; every handler must have been invoked exactly once with "
         "its own id and byte-for-byte the first datagram delivered for it, the fallback handler must have seen exactly the unmatched "
         "decodable datagrams in order, garbage nothing; (2) sequential churn: 2000 transactions per case on one client (Start/Do, "
         "1 in 50 timing out, 1 in 70 with a failing write) so that pooled transaction / wait-handler / buffer objects are recycled "
         "thousands of times; (3) all histories of 4-5 events with and without fallback handler (fallback count vs model); (4) pairwise "
         "interleavings with follow-up phase and perturbed concurrent runs with duplicate / one-bit-apart ids under the identity oracle "
         "(event id == handler's id, Message.Raw == a datagram delivered for that id, the attribute list the handler sees == an "
         "independent decode of that datagram, fallback event id == the datagram's id); the race build repeats (1),(4). "
         "evaluations = datagrams + transactions + histories + scenarios; distinct_nontrivial = cases",
    assumptions=[
        "datagrams are at most 1024 bytes (the client's read buffer)",
        "error events handed to the fallback handler (timeouts of agent registrations without a client entry) are counted as evidence, not judged",
    ],
)

prop(
    "C15",
    configs={"quick": ["rel", "race"], "thorough": ["rel", "race"]},
    batches={"quick": 16, "thorough": 16},
    race_batches={"quick": 8, "thorough": 16},
    timeout={"quick": 400, "thorough": 3000},
    race_factor=2,
    rule="(1) the option product {default, WithNoConnClose} x {manual collector, library ticker collector} x {virtual clock, system clock} x "
         "{fallback handler or not} x {default RTO, 1ms, WithNoRetransmit} x {no error, agent Close error, connection Close error, both} "
         "x {tapping agent, default agent} x 6 script variants (Start + pending Do + optional response + Start, then 1-3 sequential "
         "Close calls, then Start/Do/Indicate/SetRTO/late tick after Close); (2) every history of 4-5 events containing Close under 6 "
         "option sets; (3) pairwise interleavings with Close as A (paused at every control point incl. Collector.Close, Agent.Close, "
         "Connection.Close) and as B; (4) perturbed concurrent runs with 1-4 concurrent closers; (5) targeted: Close while the ticker collector is inside a tick, "
         "6 goroutines entering Close at the same instant (thousands of rounds), Close under WithNoConnClose while the reader is still in "
         "Read; rel + race builds. Oracles: first Close "
         "nil or CloseErr carrying exactly the injected errors, later ones ErrClientClosed; after the successful Close returned: no "
         "readUntilClosed / tickerCollector goroutine in a full goroutine dump, connection Close count 1 (0 with WithNoConnClose), "
         "collector Close count 1, no handler invocation begins, calls issued afterwards return ErrClientClosed and write nothing; "
         "race-detector reports and goroutines parked in stun frames. evaluations = scripts + histories + scenarios + runs",
    assumptions=[
        "preconditions of the statement are honoured by the simulation: the collector's Close succeeds and waits for a running tick; under WithNoConnClose the pending Read is released",
        "the goroutine scan is process-wide: one client at a time per worker process",
    ],
)


# Workloads added while strengthening against the fifth wave of seeded changes (DESIGN 9.5); appended to the rule text.
RULE_EXTRA = {
    "C01": "; CloneTo also from a source that was decoded and then had its body rewritten in place; section 'typefield': every value of the "
           "first two bytes with an intact or a damaged cookie through every entry point; near-maximum (65536..65552-byte) and 1000+-attribute inputs",
    "C02": "; (b') every type value also with a damaged cookie; nested ForEach inside the callback; (d) near-maximum bodies (65512..65532) and "
           "messages with 900..3900 attributes; release and debug builds",
    "C03": "; further operations: Add(0x0000, empty), retag an attribute in the struct then Encode, Type assigned directly then SetType(same), "
           "65..145 small attributes of repeated types, fill to the top of the 16-bit length; release and debug builds",
    "C04": "; every judged message is also checked from inside a ForEach callback positioned at or before the MAC; MACs produced by other "
           "procedures (RFC 3489 zero-padded text, length not rewritten, text incl. attribute header, unkeyed SHA-1) must be refused; 1000+ attributes "
           "in front of the MAC; long-term credentials made of Unicode look-alikes, spaces, NUL, colons",
    "C05": "; one check in five is preceded by a ForEach whose callback fails or panics; (c) also with 1000+ attributes in front; near-miss "
           "values of other procedures (draft header length, zero header length, CRC incl. attribute header, CRC of the body)",
    "C06": "; text attributes get a second pass over every length with dialect-significant content (RFC 8489 nonce cookie, BOM, NUL, CRLF, "
           "cookie bytes) in a caller-supplied Raw whose capacity ends inside or right behind the attribute; UNKNOWN-ATTRIBUTES lists of 255..32760 entries; release and debug builds",
    "C07": "; second twin may carry bytes behind the declared length; FINGERPRINT-typed attributes behind MESSAGE-INTEGRITY; section "
           "'absent-target': the getter's attribute is absent among 0..4 named neighbour types with parseable values, outcome must be not-found",
    "C08": "; builds also through typed setters (ERROR-CODE, ErrorCode, XOR-/MAPPED-ADDRESS, UNKNOWN-ATTRIBUTES, REALM, NONCE); follow-up uses "
           "'edit fields, Decode the very bytes Raw holds' and 'retag an attribute in the struct, Encode'; release and debug builds",
    "C09": "; text lengths 65535, 65536, 65536+k, 2*65536+7, 3*65536+limit, 1 MiB, 16 MiB; TransactionID.AddTo / NewTransactionID with an "
           "entropy source that delivers k=0..12 bytes and then fails (raw bytes, length and attribute list unchanged on error)",
    "C10": "; responses are of any class and method and may carry attributes that do not verify or parse; targeted 'mass timeout': 99..1000 "
           "transactions whose (last) deadline passes on one tick, with and without retransmission; scripted write failures rotate through plain / net.Error with Timeout() / *net.OpError / non-timeout net.Error",
    "C11": "; every walk also ticks without clock movement and half way to each deadline; interference 'write-error' (the k-th retransmission "
           "fails, error shape rotating) at every position; section 'schedule-walks-epochs': the walks with virtual time zero at 8 instants (astride "
           "2262-04-11T23:47:16.854775807Z and 1677-09-21, year 1, 1969/1970, 2500) and with requests whose raw header id differs from the TransactionID field",
    "C12": "; responses of any class/method, with FINGERPRINT that does not verify / wrong size / not last, random MESSAGE-INTEGRITY, unknown "
           "comprehension-required attribute, truncated ERROR-CODE; one response in five is followed in the same datagram by a complete message with the id of another transaction in flight (or its own, or zeros)",
    "C13": "; StopWithError(id, nil); section 'reentrant-collect': the handler calls Collect(later time) from inside Collect/Stop/Process; "
           "mass expiry up to 9000 transactions in one call with deadline == collect time survivors; the model's last time point lies in the year 2400; release and debug builds",
    "C14": "; section 'call-during-mass-collect': 1..1100 transactions expire in one Collect and a second goroutine calls Close / Start / Stop / "
           "Collect while it delivers (handler waits for that call), outcome compared with the only sequential order consistent with the observation; race, release and debug builds",
    "C15": "; connection close errors also as net.Error with Timeout() and *net.OpError around it; CloseRead/CloseWrite on the scripted "
           "connection are counted and must stay 0 under WithNoConnClose; targeted 'Close from the closed-event handler' (nested Close/Start/Indicate return ErrClientClosed) over 16 option combinations",
    "C16": "; section 'runs-with-affixes': runs of 18 byte classes (UTF-8 continuation and lead bytes, NUL, 0xFF, URI delimiters) x 17 lengths "
           "(63..70000) x 6 prefixes x 14 suffixes x 4 schemes; release, race and debug builds",
    "C17": "; hosts include IPv4-mapped and other embedded-IPv4 IPv6 literals and '::'; after each accepted grammar case the returned struct is "
           "edited and the same string parsed again (must give the original components); secure dials with server names of 63..1000 bytes (SNI must carry the host); release and debug builds",
    "C18": "; one key in three is a sibling of the previous key: same length and same CRC-32 (last four bytes solved for), same first/last byte, "
           "or one bit apart; one reset in eight is 14..43 resets in a row inside one acquisition; release, race and debug builds",
    "C19": "; every wire value is also read into 5 receivers holding out-of-range Method/Class fields that agree with the value in their low bits",
    "C20": "; targeted sections: one destination across IPv6 / IPv4-mapped (::ffff:a.b.c.d on the wire) / '::' / '::a.b.c.d' values; text "
           "destinations across lengths 7, 300, 0, 120, 300; Check(key A), Check(key B), Build(... key C), Check(key A) in turn",
}
for _pid, _x in RULE_EXTRA.items():
    PROPS[_pid]["rule"] = PROPS[_pid]["rule"] + _x

# Workloads added against the sixth wave (DESIGN 9.5).
RULE_EXTRA6 = {
    "C01": "; entry 'self-aliased input' (the bytes live in the receiver's own buffer); ReadFrom fed by a datagram source (one Read per call); 300 values kept from dropped messages across GCs; 8 concurrent decoders",
    "C02": "; every byte-taking entry point (Decode, m.Decode, UnmarshalBinary, GobDecode, Write, CloneTo) with the argument overwritten afterwards; destinations previously holding a 150-attribute message",
    "C03": "; bystander messages (built earlier, built meanwhile, second message of the same gob value) must stay unchanged after every operation; start state: two messages decoded from one gob value",
    "C04": "; derived long-term keys wiped by an earlier holder; passwords up to 9000 bytes; 8 goroutines signing/checking concurrently (also in the race build)",
    "C05": "; in-place single-bit flips on the message the setter was applied to (0..13 spare bytes); Message.Check(integrity, Fingerprint) in both orders on every flipped copy",
    "C06": "; one receiver over messages A, B, A; nil ERROR-CODE reason; ErrorCode default phrase unchanged after the application edited a decoded Reason; a kept text value while the variable reads another message",
    "C07": "; every message read earlier through a receiver stays unchanged; persistent receivers for all address/text getters and an integrity check whose key buffer is rewritten in place; planted correct MACs must pass",
    "C08": "; unrelated messages built between uses; follow-up 'decode the message carried in its own DATA attribute' compared with an independent decode",
    "C09": "; refusals on a message decoded with bytes behind it; ERROR-CODE with nil reason for every code; limit probes after a history of large setters on other messages",
    "C10": "; targeted: application stops a transaction on the shared agent; short write without error; ticker collector with a jumping Clock (every Collect time must be a Clock reading)",
    "C11": "; targeted: clock moved by a write inside a tick with two requests due; Close parked inside a retransmitting tick (agent.Start.after, conn.Write.before); three clients, one abandoning a retransmission (buffers not shared)",
    "C12": "; 3..2500 consecutive timeout read errors before a response",
    "C13": "; id families colliding under word folds; handler registering an overdue transaction during a mass Collect",
    "C14": "; 16 agents dropped with transactions in flight across GCs: no event",
    "C15": "; Read returning timeouts forever after Close under WithNoConnClose; fallback handler calling Indicate/Start(nil) during Close; agent and connection close errors identical or wrapping each other; Close parked deeper inside a retransmitting tick",
    "C16": "; five-label numeric hosts, non-ASCII zones; the process resolver is replaced by a counting one that must never be contacted",
    "C18": "; keys as windows of larger buffers (canary and message right behind); bursts of up to 300 objects held at once; SHA-1 and SHA-256 pools in turn with the same key",
    "C19": "; exported Binding* variables reassigned during a full-domain sweep",
    "C20": "; Build in place from the values returned by the message's own getters (4 layouts)",
}
for _pid, _x in RULE_EXTRA6.items():
    PROPS[_pid]["rule"] = PROPS[_pid]["rule"] + _x

# Workloads added against the seventh wave (DESIGN 9.5).
RULE_EXTRA7 = {
    "C01": "; sources of CloneTo lying in a 2 MiB buffer; valid messages wrapped in RFC 4571 / 4-byte / ChannelData framing or doubled",
    "C02": "; ForEach callbacks ending their goroutine (runtime.Goexit); CloneTo from inside a callback; section 'tiny-inputs-every-entry-point'",
    "C03": "; operations: non-building calls (refused Check, Fingerprint.Check, Get, ForEach with a panicking callback), zero type, pointer-form type setters, field-only Type + CloneTo + WriteType, gob round trip, WriteTo, WriteType, stun.Build",
    "C04": "; odd-size FINGERPRINT attributes before signing; a later MESSAGE-INTEGRITY that is right for its own position behind a wrong-size first one",
    "C05": "; section 'remarkable-correct-values' (CRC solved to 0, ~0, the XOR constant, the attribute header, the cookie); a read that delivers nothing between decode and check; FingerprintValue against the bitwise CRC",
    "C06": "; 8 goroutines round-tripping XOR addresses (release, debug, race); start messages received with bytes behind them",
    "C07": "; twins with the two leading type bits set; a second attribute of the getter's type further back in one twin",
    "C08": "; datagrams cut inside their declared body followed by their rest alone",
    "C09": "; delimiter pairs around over-limit text; transaction id assigned to the field only before refused address setters",
    "C10": "; targeted: pools flushed, Start parked before its Write, response, restart of the id, first write fails; handler that starts transactions, moves the clock and collects; ticker collector with a clock that stepped back",
    "C11": "; targeted: overlapping Agent.Collect calls with a parked retransmission; external stops along the schedule (writes <= n+1); ticker collector with jumping/stepping clocks",
    "C12": "; response arriving while Close waits inside the collector's Close",
    "C13": "; 2^20+5 live transactions; handler closing the agent while Collect delivers",
    "C14": "; after a call made during a mass Collect the table is re-examined (Start stays, Stop stays gone); section 'collect-during-close'",
    "C15": "; Close must return while a concurrent Start is parked inside Write; closed clients dropped and garbage collected with their finalizer in place (connection closed exactly once)",
    "C16": "; megabyte queries; the argument is a private copy compared after the call; every returned error is formatted",
    "C17": "; ports as decimal digit strings (leading zeros accepted, radix prefixes and separators refused); sections 'dial-failure' and 'dial-default-network' (loopback listeners)",
    "C20": "; failures in the hot path: wrong-key check before the right one / before Build, Parse and Check batches with an absent element",
}
for _pid, _x in RULE_EXTRA7.items():
    PROPS[_pid]["rule"] = PROPS[_pid]["rule"] + _x

# Workloads added against the eighth wave (DESIGN 9.5).
RULE_EXTRA8 = {
    "C01": "; veteran receivers (once held 16000 attributes / 64 KB); empty datagram reads (0, nil)",
    "C02": "; section 'long-lived-receiver' (lookups after 255..257 and 65535..65537 consecutive decodes); lookups of other types inside callbacks; final first-attribute pass",
    "C03": "; Equal against the canonical re-encoding; type / transaction-id setters applied to the message a ForEach callback is handed; two type setters in one Build",
    "C04": "; section 'crc-neutral-rewrite-after-genuine'",
    "C05": "; one receiver carried through all bit-flipped copies (in-place decodes from same-capacity buffers, re-decode of its own damaged bytes); field-only id/type before the setter",
    "C06": "; String() results of text attributes kept across reuse of the message",
    "C07": "; the buffer's capacity and address are part of the before/after snapshot",
    "C09": "; bare transaction-id setters in front of and behind the failing setter of a Build; 255..512 FINGERPRINT attributes; MESSAGE-INTEGRITY already behind the FINGERPRINT",
    "C10": "; recycling-counter wrap: 254..512 transactions between the completion and the restart of an id while the first Start's write is parked (single P)",
    "C12": "; 4 goroutines starting one id simultaneously; responses delivered from inside the first retransmission's Write of a tick with 8 due requests; idle periods of up to 70000 failed reads; a failing retransmission in the churn",
    "C14": "; section 'call-during-close' (Collect, Start, Process, SetHandler, Stop while Close's handler is parked)",
    "C15": "; WithNoConnClose given 2-3 times; agent whose Close fails without flushing, then calls with an id still in the table; Close may not return while the reader goroutine is inside a handler",
    "C16": "; section 'many-distinct-hosts' (6000 hosts with revisits; median parse time before/after 3 million hits); concurrent parsers with hundreds of distinct valid queries",
    "C17": "; one host on several ports over DTLS; URI.String() results kept and re-read; dial failures carrying ENETUNREACH/EAFNOSUPPORT/EHOSTUNREACH followed by ordinary dials",
    "C18": "; 1023..3000 simultaneous holders; chunks written through one refilled buffer; section 'long-lived-pool-object'",
    "C20": "; section 'long-runs' (1.18 million checks in slices of 4096; 40 KB / 6000 small / 40 KB; 4 goroutines on their own warm messages)",
}
for _pid, _x in RULE_EXTRA8.items():
    PROPS[_pid]["rule"] = PROPS[_pid]["rule"] + _x

# Workloads added against the ninth wave (DESIGN 9.5).
RULE_EXTRA9 = {
    "C01": "; section 'reader-kinds' (bufio.Reader, bytes.Buffer, net.Pipe, os.Pipe: earlier messages re-compared after later reads); preparation under Setup",
    "C02": "; Get/Contains bound as method values before the decode; receivers moved by value after an earlier decode",
    "C03": "; by-value copies that are reset, or grown beyond the shared capacity and rebuilt: the original is unchanged",
    "C04": "; nil keys; the checker through Message.Check (value, pointer, behind a passing checker); signed messages grown beyond capacity / restored from JSON",
    "C05": "; formatting, Equal and CloneTo-inside-ForEach before the check (message unchanged, clone gets the same verdict)",
    "C06": "; first-use variants in their own process (first carrier of each default ERROR-CODE reused); setters/getters bound as method values before the fields are set",
    "C08": "; GobDecode among the copying entry points",
    "C09": "; codes formatted between uses; refusal after FINGERPRINT on a message assembled from exported fields",
    "C10": "; the all-zero id in every model history; Do across 10.6 s of wall-clock time on a standing clock",
    "C11": "; the clock reads exactly time.Time{} at Start; a tick at the instant of Start",
    "C12": "; section 'real-connections' (framing wrapper around a UDP socket, net.Pipe; clocks off the wall clock)",
    "C13": "; Process messages whose raw header carries a neighbour's id",
    "C14": "; model ids that collide under prefix keys and XOR folds",
    "C15": "; nil / empty messages after Close; live heap objects after 4 x 3000 create-use-close cycles (own process)",
    "C16": "; first-use variants in their own process (NewSchemeType / NewProtoType / String / IsSecure / a retransmitting client first, then port-less URIs with hosts up to 2100 bytes)",
    "C17": "; Scheme and Proto values -9..12; URIs formatted through fmt (value, pointer, slice element, Stringer)",
    "C18": "; chunks through io.Copy (last bytes together with EOF / an error), io.WriteString, strings.Reader",
    "C19": "; first-use variants in their own process; every wire value through Decode; all types through encoding/gob and encoding/json",
    "C20": "; first-use variants in their own process (SHA-256 pool, long-term key, decode, URI first); decode of a message embedded in a DATA attribute",
}
for _pid, _x in RULE_EXTRA9.items():
    PROPS[_pid]["rule"] = PROPS[_pid]["rule"] + _x

# Workloads added against the tenth wave (DESIGN 9.5).
RULE_EXTRA10 = {
    "C06": "; UNKNOWN-ATTRIBUTES lists read into used receivers (made with spare capacity and a shorter length; carried over a longer and then a shorter list)",
    "C18": "; messages given up: bytes written and the object reset with no Sum in between, once or twice in a row, before the next message",
}
for _pid, _x in RULE_EXTRA10.items():
    PROPS[_pid]["rule"] = PROPS[_pid]["rule"] + _x

PROPS["C15"]["assumptions"] = PROPS["C15"]["assumptions"] + [
    "heap-object leak check: growth of live heap objects by 3000 or more in each of three rounds of 3000 closed clients is a leak (unchanged tree: below 100); the harness module declares go 1.20, so timers that were not stopped stay in the runtime's heap",
]
PROPS["C12"]["assumptions"] = PROPS["C12"]["assumptions"] + [
    "real-connections: three consecutive request/response exchanges over the loopback interface (4 s each) all lost is taken for the client's doing",
]
PROPS["C10"]["assumptions"] = PROPS["C10"]["assumptions"] + [
    "Do-outlasts-wall-clock waits 10.6 s of wall-clock time as part of the workload (the verdict is 'Do had not returned', decided by the ledger)",
]

PROPS["C20"]["assumptions"] = PROPS["C20"]["assumptions"] + [
    "long runs: a slice of 4096 checks with fewer than 4 mallocs is attributed to the runtime (interface-assertion cache, pool victim rotation), 4 or more to the library; "
    "the concurrent run tolerates 64 objects (goroutine start-up) and calls 65..2000 inconclusive",
]
PROPS["C16"]["assumptions"] = PROPS["C16"]["assumptions"] + [
    "'time bounded by the input length' after a long history is judged on two floors that machine load cannot raise: the minimum over 7 repetitions of (400000 hits, then the slowest of 400 consecutive fresh parses), and the median of 301 fresh parses; above 1 ms and above 100x the same statistic before the history is a violation",
    "the process resolver is replaced by a counting one; a parser has no reason to contact it",
]

# A 32-bit build (GOARCH=386) of the release configuration for every property whose code does arithmetic on int, keeps
# counters or uses atomics (added against the ninth wave of seeded changes, several of which only exist on 32-bit targets).
for _pid in ("C01", "C02", "C03", "C04", "C05", "C06", "C07", "C08", "C09", "C10", "C11", "C12", "C13", "C14", "C15", "C17", "C18", "C19"):
    for _tier in ("quick", "thorough"):
        if "rel32" not in PROPS[_pid]["configs"][_tier]:
            PROPS[_pid]["configs"][_tier] = PROPS[_pid]["configs"][_tier] + ["rel32"]
    PROPS[_pid]["rule"] = PROPS[_pid]["rule"] + "; every section also on a 32-bit (GOARCH=386) worker"

# A process that starts with a single P (GOMAXPROCS=1 in its environment) for the properties whose code keeps pools or
# could size something by the number of Ps at initialisation.
for _pid in ("C16", "C18"):
    for _tier in ("quick", "thorough"):
        if "rel1p" not in PROPS[_pid]["configs"][_tier]:
            PROPS[_pid]["configs"][_tier] = PROPS[_pid]["configs"][_tier] + ["rel1p"]
    PROPS[_pid]["rule"] = PROPS[_pid]["rule"] + "; every section also in a process started with GOMAXPROCS=1"

for _pid in ("C06", "C07"):
    for _tier in ("quick", "thorough"):
        if "relpure" not in PROPS[_pid]["configs"][_tier]:
            PROPS[_pid]["configs"][_tier] = PROPS[_pid]["configs"][_tier] + ["relpure"]
    PROPS[_pid]["rule"] = PROPS[_pid]["rule"] + "; every section also in a build with the purego tag"

LEVELS = {'C01': ('exploration', "runtime monitoring of the real decoder on generated/mutated/hostile inputs: recover + child-process supervision, pointer-range monitor on Attributes[i].Value, MemStats delta, red-zone and poisoned placements, release/debug/race(checkptr) builds; says 'held on K inputs', catches dropped or weakened length guards, aliasing entry points and length-field-proportional allocation", 'differential + memory-view monitor over generated inputs'), 'C02': ('exploration', 'differential monitor against an independent RFC 5389 parser; the space of length structures up to a body bound is enumerated completely, the rest is seeded random/mutated; Get/Contains/ForEach checked against list semantics on every accepted input', 'differential testing vs reference parser, bounded-exhaustive'), 'C03': ('exploration', 'after-every-operation invariant monitor over random building sequences with a shadow (type,value) list: reference parse of Raw == shadow == struct == library decode, Equal, zero padding, canonical bytes after Encode', 'invariant monitor over operation sequences'), 'C04': ('exploration', 'differential monitor: library Check verdict vs crypto/hmac over the span chosen by the reference parser, on hand-encoded variants, library-signed messages, wrong keys and every single-bit flip; release and debug builds', 'differential oracle + exhaustive bit-flip sweep per message'), 'C05': ('exploration', 'differential monitor against a bitwise CRC-32; every bit position of each fingerprinted message and random bursts; arbitrary FINGERPRINT placements judged by the iff', 'differential oracle + exhaustive bit-flip sweep per message'), 'C06': ('exploration', 'two-way differential against independent RFC encoders/decoders; ports, text lengths and error codes swept completely, the rest random', 'differential testing vs reference codecs'), 'C07': ('exploration', 'metamorphic twin monitor (same value, different surroundings/position/capacity) + before/after snapshot + red-zone placement over the complete getter x length x position x capacity grid', 'metamorphic twins + snapshot monitor'), 'C08': ('exploration', 'fresh-twin differential over chains of uses with poisoned spare capacity and scribbled caller buffers', 'fresh-twin differential with poisoning'), 'C09': ('exploration', 'boundary sweep of every setter against a hard-coded limit table with before/after snapshots and call counters for Build', 'boundary sweep + snapshot monitor'), 'C10': ('exploration', 'online comparison with an executable client model on all short histories, targeted pairwise control-point interleavings through the public seams, and an exactly-once ledger over perturbed concurrent runs (also under the race detector)', 'model-based history checking + exactly-once ledger over event logs'), 'C11': ('exploration', 'write-log oracle with virtual timestamps along complete retransmission schedules, plus the model and ledger workloads of C10 with the write oracle', 'trace checking of the write log under virtual time'), 'C12': ('exploration', 'unique-payload ledger: every datagram is tagged, every handler copies what it sees; routing decided at delivery time is compared with what handlers and the fallback handler observed; pool churn; race detector', 'unique-value ledger over handler and fallback logs'), 'C13': ('exploration', 'the real Agent is run next to an executable transaction-table model on EVERY call sequence up to the depth bound (all abstract table states visited) and on long random sequences with re-entrant handlers', 'exhaustive bounded model conformance'), 'C14': ('exploration', 'recorded concurrent histories checked for linearizability with porcupine against the C13 model, Go race detector, stuck-goroutine watchdog', 'linearizability checking of recorded histories (porcupine) + race detector'), 'C15': ('exploration', 'ledger over simulated-world counters and logical stamps, process-wide goroutine dump scan after Close, race detector; option product and Close placed everywhere', 'ledger + goroutine-dump scan + race detector'), 'C16': ('exploration', 'the supervising process is the oracle: children with a 1 MiB stack limit and heap watchdog, crash journal naming the input, confirmation re-run; exhaustive short strings + random long ones', 'process-level supervision with crash journal'), 'C17': ('exploration', 'expected components known by construction over the complete grammar product; round trip; DialURI observed through an injected recording network (network, address, first bytes: ClientHello vs plaintext, server name)', 'components-by-construction differential + recording fake network'), 'C18': ('exploration', 'every digest of random acquire/write/sum/reset/put programs compared with crypto/hmac, single- and multi-goroutine, race detector', 'differential vs crypto/hmac under pool reuse'), 'C19': ('exploration', "complete domain (16384 + 65536 points) against a bit-by-bit table from RFC 5389 figure 3: for this property 'held on what was observed' is the whole statement", 'exhaustive enumeration of the complete domain'), 'C20': ('exploration', 'testing.AllocsPerRun per operation and generated message in a dedicated single-P process with GC off, two warm-up regimes, repeat-to-confirm', 'allocation monitor (AllocsPerRun) in a dedicated process')}

for _pid, (_cat, _text, _tech) in LEVELS.items():
    if _pid in PROPS:
        PROPS[_pid].setdefault('level', _cat)
        PROPS[_pid]['level_text'] = _text
        PROPS[_pid]['technique'] = _tech
