"""Per-property run configuration for vcheck.py (what to build, how to split, what the evidence text says)."""

PROPS = {}


def prop(pid, **kw):
    kw.setdefault("level", "exploration")
    kw.setdefault("configs", {"quick": ["rel"], "thorough": ["rel"]})
    kw.setdefault("batches", {"quick": 16, "thorough": 16})
    kw.setdefault("timeout", {"quick": 300, "thorough": 3600})
    kw.setdefault("assumptions", [])
    PROPS[pid] = kw


prop(
    "C19",
    batches={"quick": 4, "thorough": 4},
    rule="complete domain: every (method 0..4095, class 0..3) pair through MessageType.Value and every 16-bit wire "
         "value through MessageType.ReadValue, each compared with a table built bit by bit from RFC 5389 figure 3; "
         "distinct = distinct (direction, wire value) points, all non-trivial",
    exhaustive_all=["value", "readvalue"],
    assumptions=["ref.JoinType/SplitType transcribe RFC 5389 figure 3 correctly (cross-checked against RFC 5769 vector types at start-up)"],
)

prop(
    "C01",
    configs={"quick": ["rel", "dbg", "race"], "thorough": ["rel", "dbg", "race"]},
    batches={"quick": 12, "thorough": 16},
    race_batches={"quick": 4, "thorough": 8},
    timeout={"quick": 300, "thorough": 3000},
    rule="inputs drawn per index from a seeded generator (uniform random, cookie+plausible length, canonical valid, "
         "dirty-valid with random padding/leading bits/trailing bytes, 1-3 structural mutations of valid messages and of the "
         "repository fuzz corpus/RFC 5769 vectors, large (<=65555 B) and truncated messages); each input goes through 7 entry "
         "points x 2 placements (cap==len red-zone; spare capacity poisoned 0x00/0xFF/random/plausible). evaluations = "
         "entry-point calls; distinct_nontrivial = distinct input byte strings (FNV-64 of the bytes)",
    max_counters=["max_alloc_bytes_per_call"],
    assumptions=[
        "the reference parser ref.Parse is a correct reading of RFC 5389 section 6/15 (cross-checked on RFC 5769 vectors at start-up)",
        "allocation bound per call is 64*len(input)+4096 bytes (catches allocation proportional to a length field, not micro-regressions)",
        "'never loops' is decided by the confirmation protocol: a journalled case that does not return alone within 60 s",
    ],
)

prop(
    "C02",
    batches={"quick": 16, "thorough": 16},
    timeout={"quick": 300, "thorough": 3000},
    rule="(a) bounded-exhaustive length structures: declared length L=0..B (B=36 quick, 52 thorough), buffer length 20+L+d for "
         "d in {-3,-2,-1,0,1,4,7}, and recursively every sequence of attribute length fields from {0,1,2,3,4,5,7,8,r-4..r+3,0xFFFF} "
         "(r = remaining body), types cycling incl. 0x8020; (b) all 65536 type-field values; (c) seeded random/mutated inputs. "
         "Each input: library Decode verdict and content vs independent parser, then Get/Contains/ForEach (complete walk, callback "
         "error and callback panic at the k-th visit) vs list semantics. distinct_nontrivial = distinct input byte strings "
         "(accepted ones hashed with their (count, length residues) signature) plus distinct (reject reason, length mod 64) classes",
    assumptions=[
        "ref.Parse is a correct reading of RFC 5389 framing with the tolerances the property lists",
    ],
)
