"""Per-property run configuration for vcheck.py (what to build, how to split, what the evidence text says)."""

PROPS = {}


def prop(pid, **kw):
    kw.setdefault("level", "exploration")
    kw.setdefault("configs", {"quick": ["rel"], "thorough": ["rel"]})
    kw.setdefault("batches", {"quick": 16, "thorough": 16})
    kw.setdefault("timeout", {"quick": 300, "thorough": 3600})
    kw.setdefault("assumptions", [])
    PROPS[pid] = kw


prop(
    "C19",
    batches={"quick": 4, "thorough": 4},
    rule="complete domain: every (method 0..4095, class 0..3) pair through MessageType.Value and every 16-bit wire "
         "value through MessageType.ReadValue, each compared with a table built bit by bit from RFC 5389 figure 3; "
         "distinct = distinct (direction, wire value) points, all non-trivial",
    exhaustive_all=["value", "readvalue"],
    assumptions=["ref.JoinType/SplitType transcribe RFC 5389 figure 3 correctly (cross-checked against RFC 5769 vector types at start-up)"],
)
